use cosmwasm_std::testing::{mock_dependencies, mock_env};
use cosmwasm_std::*;
use cw20_ics20::ibc::*;
use cw20_ics20::state::{ChannelState, CHANNEL_STATE};
fn main() {
    let mut deps = mock_dependencies();
    let gov = deps.api.addr_make("gov"); let tok = deps.api.addr_make("token"); let rcv = deps.api.addr_make("rcv");
    cw20_ics20::contract::instantiate(deps.as_mut(), mock_env(), MessageInfo { sender: gov.clone(), funds: vec![] },
        cw20_ics20::msg::InitMsg { default_timeout: 100, gov_contract: gov.to_string(), allowlist: vec![], default_gas_limit: None }).unwrap();
    let ch = IbcChannel::new(IbcEndpoint { port_id: "wasm.me".into(), channel_id: "channel-1".into() },
        IbcEndpoint { port_id: "transfer".into(), channel_id: "channel-15".into() }, ICS20_ORDERING, ICS20_VERSION, "connection-2");
    ibc_channel_connect(deps.as_mut(), mock_env(), IbcChannelConnectMsg::new_ack(ch, ICS20_VERSION)).unwrap();
    let denom = format!("cw20:{}", tok);
    CHANNEL_STATE.save(deps.as_mut().storage, ("channel-1", &denom), &ChannelState { outstanding: Uint128::new(100), total_sent: Uint128::new(100) }).unwrap();
    let pkt = Ics20Packet::new(Uint128::new(40), format!("transfer/channel-15/{}", denom), "remote-sender", rcv.as_str());
    let ibc_pkt = IbcPacket::new(to_json_binary(&pkt).unwrap(),
        IbcEndpoint { port_id: "transfer".into(), channel_id: "channel-15".into() },
        IbcEndpoint { port_id: "wasm.me".into(), channel_id: "channel-1".into() }, 7, IbcTimeout::with_timestamp(Timestamp::from_seconds(1999999999)));
    let res = ibc_packet_receive(deps.as_mut(), mock_env(), IbcPacketReceiveMsg::new(ibc_pkt, Addr::unchecked("relayer"))).unwrap();
    let ack: Ics20Ack = from_json(res.acknowledgement.as_ref().unwrap()).unwrap();
    let st = CHANNEL_STATE.load(deps.as_ref().storage, ("channel-1", &denom)).unwrap();
    println!("[C12] ack={:?} submsgs={} outstanding_after={} (before 100)", ack, res.messages.len(), st.outstanding);
}
