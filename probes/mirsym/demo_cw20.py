"""Probe: symbolically execute cw20-base execute_transfer / execute_burn from MIR and check C01-style step."""
import re, sys, time
import z3
from mirparse import parse_file
from sym import *


class Program:
    def __init__(self, paths):
        self.funcs = {}
        for p in paths:
            self.funcs.update(parse_file(p))
        self.closures = {}
        for n, f in self.funcs.items():
            if "{closure#" in n and f.params:
                self.closures[f.params[0][1].lstrip("&").replace("mut ", "").strip()] = f
        self.structs = {
            "state::TokenInfo": ["name", "symbol", "decimals", "total_supply", "mint"],
            "TokenInfo": ["name", "symbol", "decimals", "total_supply", "mint"],
            "MinterData": ["minter", "cap"],
            "Cw20ReceiveMsg": ["sender", "amount", "msg"],
        }

    def resolve(self, name):
        name = re.sub(r"::<.*?>(?=::|$)", "", name)
        if name in self.funcs: return self.funcs[name]
        cands = [f for n, f in self.funcs.items() if n.split("::")[-1] == name.split("::")[-1]
                 and (n.endswith("::" + name) or name.endswith("::" + n) or n == name)]
        if len(cands) == 1: return cands[0]
        # method on impl: Type::method -> "<impl at ..>::method" with first param type Type
        parts = name.split("::")
        if len(parts) >= 2:
            ty, meth = parts[-2], parts[-1]
            c2 = [f for n, f in self.funcs.items() if n.endswith(">::" + meth) and f.params
                  and re.sub(r"^&(mut )?", "", f.params[0][1]).split("::")[-1] == ty]
            if len(c2) == 1: return c2[0]
        return None

    def closure_fn(self, loc): return self.closures[loc]
    def is_enum(self, n): return n in VARIANTS or n in ("ContractError",)
    def variant_index(self, v):
        return VARIANTS[v.ty].index(v.variant)
    def make_struct(self, ty, names, fields):
        order = self.structs.get(ty) or self.structs.get(ty.split("::")[-1])
        if order is None: return Struct(ty, fields)   # keep given order (probe)
        d = dict(zip(names, fields))
        return Struct(ty, [d[n] for n in order])


# ------------------------------------------------------------------ models
class Models:
    def __init__(self): self.exact, self.pats = {}, []
    def lookup(self, callee):
        c = re.sub(r"\{closure@[^}]*\}", "{closure}", callee)
        for rx, h in self.pats:
            if rx.search(c): return h
        return None
    def on(self, pat):
        def deco(h): self.pats.append((re.compile(pat), h)); return h
        return deco

M = Models()

def deref(v):
    while isinstance(v, Ref): v = get_path(v.cell.v, v.path)
    return v

@M.on(r"^<.* as (Deref|Into<.*>|Clone|ToString|AsRef<.*>|From<.*>|ToOwned)>::(deref|into|clone|to_string|as_ref|from|to_owned)$")
def m_ident(I, ctx, callee, args): return deref(args[0])

@M.on(r"Api>::addr_validate$")
def m_addr_validate(I, ctx, callee, args):
    s = deref(args[1])
    if ctx.choose([("valid", True), ("invalid", True)]) == 0: return Ok(s)
    return Err(Opaque("StdError", "invalid addr"))

@M.on(r" as Try>::branch$")
def m_branch(I, ctx, callee, args):
    v = args[0]
    if v.variant in ("Ok", "Some"): return EnumV("ControlFlow", "Continue", v.fields)
    return EnumV("ControlFlow", "Break", (v,))

@M.on(r" as FromResidual<.*>>::from_residual$")
def m_residual(I, ctx, callee, args):
    return args[0]   # Err(e) (error conversion ignored in probe)

@M.on(r"^cw_storage_plus::Map::<.*>::new$|^Item::<.*>::new$|^cw_storage_plus::Item::<.*>::new$")
def m_new(I, ctx, callee, args): return Opaque("store", args[0])

def slot(ctx, ns, key):
    st = ctx.storage.setdefault(ns, {})
    return st, key

@M.on(r"^cw_storage_plus::Map::<.*>::update::")
def m_map_update(I, ctx, callee, args):
    m, _store, key, clo = deref(args[0]), args[1], deref(args[2]), args[3]
    st = ctx.storage[m.data]
    present, val = st[key]
    old = Some(val) if ctx.branch(present) else NONE
    r = I.call_closure(ctx, clo, [old])
    if r.variant == "Ok":
        st[key] = (True, r.fields[0])
    return r

@M.on(r"^Item::<.*>::update::|cw_storage_plus::Item::<.*>::update::")
def m_item_update(I, ctx, callee, args):
    m, clo = deref(args[0]), args[2]
    val = ctx.storage[m.data]
    r = I.call_closure(ctx, clo, [val])
    if r.variant == "Ok": ctx.storage[m.data] = r.fields[0]
    return r

@M.on(r"^std::option::Option::<.*>::unwrap_or_default$")
def m_unwrap_or_default(I, ctx, callee, args):
    v = args[0]
    return v.fields[0] if v.variant == "Some" else 0

@M.on(r"^Uint128::checked_sub$")
def m_checked_sub(I, ctx, callee, args):
    a, b = args
    if ctx.branch(a >= b): return Ok(a - b)
    return Err(Opaque("OverflowError"))

@M.on(r"^Uint128::saturating_sub$")
def m_sat_sub(I, ctx, callee, args):
    a, b = args
    return a - b if ctx.branch(a >= b) else 0

@M.on(r"^<Uint128 as std::ops::Add>::add$")
def m_add(I, ctx, callee, args):
    a, b = args
    if ctx.branch(a + b < U128): return a + b
    raise Panic("Uint128 add overflow")

@M.on(r"^Response::new$|^<Response as Default>::default$")
def m_resp_new(I, ctx, callee, args): return Struct("Response", ((), (), (), None))

@M.on(r"^Response::add_attribute::")
def m_resp_attr(I, ctx, callee, args): return args[0]


# ------------------------------------------------------------------ driver
def explore(prog, entry, setup, check, limit=2000):
    I = Interp(prog, M)
    work = [[]]
    stats = dict(paths=0, ok=0, err=0, panic=0, infeasible=0, queries=0, violations=[])
    t0 = time.time()
    while work:
        dec = work.pop()
        ctx = Ctx(prog, dec)
        try:
            args, pre = setup(ctx)
            try:
                r = I.call_mir(ctx, prog.resolve(entry), args)
                outcome = r.variant
            except Panic as e:
                r, outcome = None, "panic"
            stats["paths"] += 1
            stats[{"Ok": "ok", "Err": "err", "panic": "panic"}[outcome]] += 1
            for name, prop in check(ctx, pre, outcome, r):
                stats["queries"] += 1
                s = z3.Solver(); s.add(*ctx.pc); s.add(z3.Not(prop))
                if s.check() != z3.unsat:
                    stats["violations"].append((name, dec, s.model()))
        except Infeasible:
            stats["infeasible"] += 1
        work.extend(ctx.pending)
        if stats["paths"] > limit: break
    stats["wall_s"] = round(time.time() - t0, 2)
    return stats


N = 3
def setup_cw20(entry):
    def setup(ctx):
        bal = {}
        for i in range(N):
            p = z3.Bool(f"present{i}"); v = z3.Int(f"bal{i}")
            ctx.assume(z3.And(v >= 0, v < U128))
            bal[i] = (p, v)
        supply = z3.Int("supply"); ctx.assume(z3.And(supply >= 0, supply < U128))
        # invariant: supply == sum of present balances
        ctx.assume(supply == sum(z3.If(p, v, 0) for p, v in bal.values()))
        ctx.storage["balance"] = dict(bal)
        ctx.storage["token_info"] = Struct("TokenInfo", ("name", "sym", 6, supply, NONE))
        sender = ctx.choose([(f"s{i}", True) for i in range(N)])
        rcpt = ctx.choose([(f"r{i}", True) for i in range(N)])
        amount = z3.Int("amount"); ctx.assume(z3.And(amount >= 0, amount < U128))
        deps = Struct("DepsMut", (Opaque("storage"), Opaque("api"), Opaque("querier")))
        env = Struct("Env", (Struct("BlockInfo", (z3.Int("height"), z3.Int("time"), "chain")), NONE, Struct("ContractInfo", ("contract",))))
        info = Struct("MessageInfo", (sender, ()))
        pre = dict(bal=bal, supply=supply, sender=sender, rcpt=rcpt, amount=amount)
        if entry == "execute_transfer": return [deps, env, info, rcpt, amount], pre
        if entry == "execute_burn": return [deps, env, info, amount], pre
    return setup

def total(ctx):
    return sum(z3.If(p, v, 0) if not isinstance(p, bool) else (v if p else 0) for p, v in ctx.storage["balance"].values())

def check_cw20(entry):
    def check(ctx, pre, outcome, r):
        post_supply = ctx.storage["token_info"].fields[3]
        yield "C01.supply_eq_sum", post_supply == total(ctx)
        if outcome == "Ok" and entry == "execute_transfer":
            yield "C01.transfer_keeps_supply", post_supply == pre["supply"]
        if outcome == "Ok" and entry == "execute_burn":
            yield "C01.burn_lowers_supply", post_supply == pre["supply"] - pre["amount"]
    return check

if __name__ == "__main__":
    prog = Program(sys.argv[1:])
    for entry in ("execute_transfer", "execute_burn"):
        st = explore(prog, entry, setup_cw20(entry), check_cw20(entry))
        print(entry, {k: v for k, v in st.items() if k != "violations"}, "violations:", len(st["violations"]))
        for v in st["violations"][:3]: print("   ", v)
