"""Probe: C04 kernel (cw3 Proposal::is_passed / is_rejected / votes_needed) from MIR, integer encoding."""
import sys, time
import z3
from sym import *
import demo_cw20 as base
from demo_cw20 import Program, M, explore, deref

VARIANTS["Threshold"] = ["AbsoluteCount", "AbsolutePercentage", "ThresholdQuorum"]
VARIANTS["Expiration"] = ["AtHeight", "AtTime", "Never"]
VARIANTS["Status"] = ["Pending", "Open", "Rejected", "Passed", "Executed"]
E18 = 10 ** 18

@M.on(r"^Uint128::new$|^Uint128::u128$")
def m_id(I, ctx, callee, args): return deref(args[0])

@M.on(r"^Uint128::mul_floor::")
def m_mul_floor(I, ctx, callee, args):
    a, d = args
    r = (a * d) / E18
    if ctx.branch(r < U128): return r
    raise Panic("mul_floor overflow")

@M.on(r"^Decimal::one$")
def m_one(I, ctx, callee, args): return E18

@M.on(r"^<Decimal as std::ops::Sub>::sub$")
def m_dsub(I, ctx, callee, args):
    a, b = args
    if ctx.branch(a >= b): return a - b
    raise Panic("decimal sub")

@M.on(r"^Expiration::is_expired$")
def m_is_expired(I, ctx, callee, args):
    e, blk = deref(args[0]), deref(args[1])
    if e.variant == "AtHeight": return blk.fields[0] >= e.fields[0]
    if e.variant == "AtTime": return blk.fields[1] >= e.fields[0]
    return False


def setup(kind):
    def s(ctx):
        total, yes, no, ab, veto = [ctx.fresh(n, 0, U64) for n in ("total", "yes", "no", "abstain", "veto")]
        ctx.assume(yes + no + ab + veto <= total)
        if kind == 0:
            w = ctx.fresh("w", 1, U64); ctx.assume(w <= total)
            thr = EnumV("Threshold", "AbsoluteCount", (w,)); pr = dict(w=w)
        elif kind == 1:
            p = ctx.fresh("pct", E18 // 2, E18 + 1)
            thr = EnumV("Threshold", "AbsolutePercentage", (p,)); pr = dict(p=p)
        else:
            p = ctx.fresh("thr", E18 // 2, E18 + 1); q = ctx.fresh("quorum", 1, E18 + 1)
            thr = EnumV("Threshold", "ThresholdQuorum", (p, q)); pr = dict(p=p, q=q)
        h = ctx.fresh("height", 0, U64); eh = ctx.fresh("exp_h", 0, U64)
        votes = Struct("Votes", (yes, no, ab, veto))
        prop = Struct("Proposal", ("t", "d", 1, EnumV("Expiration", "AtHeight", (eh,)), (), EnumV("Status", "Open"),
                                   thr, total, votes, "proposer", NONE))
        blk = Struct("BlockInfo", (h, ctx.fresh("time", 0, U64), "chain"))
        pc, bc = Cell("prop", prop), Cell("blk", blk)
        pre = dict(total=total, yes=yes, no=no, ab=ab, veto=veto, expired=h >= eh, kind=kind, **pr)
        return [Ref(pc), Ref(bc)], pre
    return s


def explore_fn(prog, entry, setup_fn, check):
    I = Interp(prog, M)
    work, res = [[]], []
    stats = dict(paths=0, panic=0, queries=0, sat=[], t=0.0)
    while work:
        dec = work.pop()
        ctx = Ctx(prog, dec)
        try:
            args, pre = setup_fn(ctx)
            try:
                r = I.call_mir(ctx, prog.resolve(entry), args); out = "ret"
            except Panic as e:
                r, out = None, "panic"; stats["panic"] += 1
            stats["paths"] += 1
            for name, prop in check(ctx, pre, out, r):
                stats["queries"] += 1
                s = z3.Solver(); s.set("timeout", 60000); s.add(*ctx.pc); s.add(z3.Not(prop))
                t0 = time.time(); a = s.check(); stats["t"] += time.time() - t0
                if a != z3.unsat:
                    stats["sat"].append((name, str(a), {str(d): s.model()[d] for d in s.model().decls()} if a == z3.sat else None))
        except Infeasible:
            pass
        work.extend(ctx.pending)
    return stats


def ceil_needed_exact(w, p, n):
    """n == ceil(w*p/1e18) as a relation (no division)"""
    return z3.And(n * E18 >= w * p, (n - 1) * E18 < w * p)


def check_passed(ctx, pre, out, r):
    yield "no_panic", out != "panic"
    if out == "panic": return
    yes, total, ab = pre["yes"], pre["total"], pre["ab"]
    yield "never_passed_without_yes", z3.Implies(r, yes > 0)
    if pre["kind"] == 1:
        # within-one-vote bound: passed => yes >= ceil(base*p)-1 ; yes >= ceil(base*p) => passed
        base_ = total - ab
        n = ctx.fresh("n", 0, U64 + 1)
        ctx.assume(ceil_needed_exact(base_, pre["p"], n))
        yield "pct_not_stricter_than_exact", z3.Implies(yes >= n, r)
        yield "pct_within_one_vote", z3.Implies(r, yes >= n - 1)
        k = ctx.fresh("k", 0, 10 ** 9 + 1)
        yield "pct_exact_for_9_decimals", z3.Implies(pre["p"] == k * 10 ** 9, r == (yes >= n))


if __name__ == "__main__":
    prog = Program(sys.argv[1:])
    for kind in (0, 1, 2):
        st = explore_fn(prog, "Proposal::is_passed", setup(kind), check_passed)
        print("is_passed kind", kind, {k: v for k, v in st.items() if k != "sat"})
        seen = set()
        for s in st["sat"]:
            if s[0] in seen: continue
            seen.add(s[0]); print("   CE", s[0], s[1], s[2])
