"""Prototype parser for rustc -Zunpretty=mir text (nightly 1.97).  Probe only."""
import re
from dataclasses import dataclass, field


@dataclass
class Func:
    name: str
    kind: str            # fn | const | static | promoted
    params: list         # [(local, type)]
    ret: str
    locals: dict         # local -> type
    blocks: dict         # bbN -> (stmts[list[str]], terminator str)
    src: str = ""


def split_top(s, sep=","):
    """split on sep at nesting depth 0 (parens, brackets, braces, angle brackets heuristically)"""
    out, depth, cur = [], 0, []
    i = 0
    instr = False
    while i < len(s):
        c = s[i]
        if instr:
            cur.append(c)
            if c == "\\":
                cur.append(s[i + 1]); i += 1
            elif c == '"':
                instr = False
        elif c == '"':
            instr = True; cur.append(c)
        elif c in "([{":
            depth += 1; cur.append(c)
        elif c in ")]}":
            depth -= 1; cur.append(c)
        elif c == "<":
            depth += 1; cur.append(c)
        elif c == ">" and (i == 0 or s[i - 1] not in "-="):
            depth -= 1; cur.append(c)
        elif c == sep and depth == 0:
            out.append("".join(cur).strip()); cur = []
        else:
            cur.append(c)
        i += 1
    t = "".join(cur).strip()
    if t:
        out.append(t)
    return out


HDR = re.compile(r"^(fn|const|static) (.*)$")


def parse_file(path):
    txt = open(path).read()
    lines = txt.split("\n")
    funcs = {}
    i = 0
    n = len(lines)
    while i < n:
        ln = lines[i]
        m = HDR.match(ln)
        if m and ln.rstrip().endswith("{"):
            kind = m.group(1)
            # collect body until a line == "}"
            j = i + 1
            while j < n and lines[j] != "}":
                j += 1
            body = lines[i + 1:j]
            f = parse_func(kind, m.group(2), body)
            if f is not None:
                funcs.setdefault(f.name, f)
            i = j + 1
        else:
            m1 = re.match(r"^const (.*?): (.*?) = const (.*);$", ln)
            if m1:
                nm = m1.group(1)
                funcs.setdefault(nm, Func(nm, "constval", [], m1.group(2), {}, {}, m1.group(3)))
            i += 1
    return funcs


def parse_header(kind, rest):
    rest = rest.rstrip()
    assert rest.endswith("{")
    rest = rest[:-1].rstrip()
    if kind == "fn":
        # name(args) -> ret
        # find the args paren: the last top-level "(...)" before " -> "
        # name may contain parens (closure paths don't), scan for first '(' at angle depth 0
        depth = 0
        k = None
        for idx, c in enumerate(rest):
            if c == "<":
                depth += 1
            elif c == ">" and rest[idx - 1] not in "-=":
                depth -= 1
            elif c == "(" and depth == 0:
                k = idx; break
        name = rest[:k]
        # matching paren
        d = 0
        for idx in range(k, len(rest)):
            if rest[idx] in "([{":
                d += 1
            elif rest[idx] in ")]}":
                d -= 1
                if d == 0:
                    e = idx; break
        args = rest[k + 1:e]
        ret = rest[e + 1:].strip()
        ret = ret[2:].strip() if ret.startswith("->") else "()"
        params = []
        for a in split_top(args):
            loc, ty = a.split(":", 1)
            params.append((loc.strip(), ty.strip()))
        return name, params, ret
    else:
        # const NAME: TYPE =
        body = rest.rstrip("=").rstrip()
        name, ty = body.split(": ", 1)
        return name, [], ty


def parse_func(kind, hdr, body):
    try:
        name, params, ret = parse_header(kind, hdr)
    except Exception:
        return None
    locs = {}
    for l, t in params:
        locs[l] = t
    blocks = {}
    cur = None
    stmts = []
    for ln in body:
        s = ln.strip()
        if not s:
            continue
        m = re.match(r"^let (mut )?(_\d+): (.*);$", s)
        if m:
            locs[m.group(2)] = m.group(3)
            continue
        m = re.match(r"^(bb\d+)( \(cleanup\))?: \{$", s)
        if m:
            cur = m.group(1); stmts = []
            blocks[cur] = stmts
            continue
        if cur is None:
            continue
        if s == "}":
            cur = None
            continue
        if s.startswith("scope ") or s.startswith("debug "):
            continue
        stmts.append(s.rstrip(";") if not s.endswith("];") else s[:-1])
    out = {}
    for b, st in blocks.items():
        if not st:
            continue
        out[b] = (st[:-1], st[-1])
    return Func(name, kind, params, ret, locs, out)
