"""Prototype MIR symbolic executor (probe only): path-forking by re-execution with a decision trace."""
import re, sys, time
import z3
from mirparse import parse_file, split_top

U128 = 2 ** 128
U64 = 2 ** 64
INTMAX = {"u8": 2**8, "u16": 2**16, "u32": 2**32, "u64": U64, "u128": U128, "usize": U64}


# ---------------------------------------------------------------- values
class Struct:
    def __init__(self, ty, fields): self.ty, self.fields = ty, tuple(fields)
    def __repr__(self): return f"{self.ty}{self.fields}"

class EnumV:
    def __init__(self, ty, variant, fields=()): self.ty, self.variant, self.fields = ty, variant, tuple(fields)
    def __repr__(self): return f"{self.ty}::{self.variant}{self.fields}"

class Ref:
    def __init__(self, cell, path=()): self.cell, self.path = cell, tuple(path)
    def __repr__(self): return f"&{self.cell.name}{self.path}"

class Cell:
    def __init__(self, name, v=None): self.name, self.v = name, v

class Closure:
    def __init__(self, fn, caps): self.fn, self.caps = fn, tuple(caps)
    def __repr__(self): return f"closure<{self.fn}>{self.caps}"

class Opaque:
    def __init__(self, tag, data=None): self.tag, self.data = tag, data
    def __repr__(self): return f"<{self.tag}:{self.data}>"

class Panic(Exception): pass
class Infeasible(Exception): pass
class Unsupported(Exception): pass

VARIANTS = {
    "Option": ["None", "Some"], "Result": ["Ok", "Err"], "ControlFlow": ["Continue", "Break"],
}

def Ok(v): return EnumV("Result", "Ok", (v,))
def Err(e): return EnumV("Result", "Err", (e,))
def Some(v): return EnumV("Option", "Some", (v,))
NONE = EnumV("Option", "None", ())


# ---------------------------------------------------------------- context (one path)
class Ctx:
    def __init__(self, prog, decisions):
        self.prog = prog
        self.decisions = list(decisions)
        self.taken = []
        self.pending = []       # alternative decision prefixes discovered
        self.pc = []
        self.solver = z3.Solver()
        self.storage = {}
        self.nfresh = 0
        self.log = []

    def fresh(self, name, lo=0, hi=None):
        self.nfresh += 1
        v = z3.Int(f"{name}!{self.nfresh}")
        self.assume(v >= lo)
        if hi is not None: self.assume(v < hi)
        return v

    def assume(self, c):
        if c is True: return
        if c is False: raise Infeasible()
        self.pc.append(c); self.solver.add(c)

    def feasible(self, c):
        if c is True: return True
        if c is False: return False
        self.solver.push(); self.solver.add(c)
        r = self.solver.check()
        self.solver.pop()
        return r == z3.sat

    def choose(self, options):
        """options: list of (label, cond). Returns chosen index; records alternatives."""
        feas = [i for i, (_, c) in enumerate(options) if self.feasible(c)]
        if not feas: raise Infeasible()
        k = len(self.taken)
        if k < len(self.decisions):
            i = self.decisions[k]
        else:
            i = feas[0]
            for j in feas[1:]:
                self.pending.append(self.taken + [j])
        self.taken.append(i)
        self.assume(options[i][1])
        return i

    def branch(self, cond):
        if cond is True or cond is False: return cond
        cond = z3.simplify(cond)
        if z3.is_true(cond): return True
        if z3.is_false(cond): return False
        return self.choose([("T", cond), ("F", z3.Not(cond))]) == 0


# ---------------------------------------------------------------- interpreter
class Frame:
    def __init__(self, fn): self.fn, self.cells = fn, {}
    def cell(self, l):
        if l not in self.cells: self.cells[l] = Cell(f"{self.fn.name}:{l}")
        return self.cells[l]


def get_path(v, path):
    for p in path:
        if p[0] == "f":
            if isinstance(v, (Struct, EnumV, Closure)):
                v = (v.caps if isinstance(v, Closure) else v.fields)[p[1]]
            elif isinstance(v, tuple): v = v[p[1]]
            elif z3.is_expr(v) or isinstance(v, (int, str)):
                assert p[1] == 0, (v, p)   # newtype wrapper (Uint128.0, Addr.0)
            else: raise Unsupported(f"field of {v!r}")
        elif p[0] == "d":
            assert isinstance(v, EnumV) and v.variant == p[1], (v, p)
        elif p[0] == "*":
            assert isinstance(v, Ref), v
            v = get_path(v.cell.v, v.path)
        else: raise Unsupported(p)
    return v


def set_path(v, path, new):
    if not path: return new
    p = path[0]
    if p[0] == "f":
        if isinstance(v, Struct):
            f = list(v.fields); f[p[1]] = set_path(f[p[1]], path[1:], new); return Struct(v.ty, f)
        if isinstance(v, EnumV):
            f = list(v.fields); f[p[1]] = set_path(f[p[1]], path[1:], new); return EnumV(v.ty, v.variant, f)
        if isinstance(v, tuple):
            f = list(v); f[p[1]] = set_path(f[p[1]], path[1:], new); return tuple(f)
        if p[1] == 0: return set_path(v, path[1:], new)   # newtype
        raise Unsupported(f"set field of {v!r}")
    if p[0] == "d": return set_path(v, path[1:], new)
    if p[0] == "*":
        assert isinstance(v, Ref)
        v.cell.v = set_path(v.cell.v, v.path + tuple(path[1:]), new)
        return v
    raise Unsupported(p)


PLACE_RE = re.compile(r"^_\d+$")

def parse_place(s):
    """returns (local, path)"""
    s = s.strip()
    if PLACE_RE.match(s): return s, ()
    if s.startswith("(*") and s.endswith(")"):
        l, p = parse_place(s[2:-1]); return l, p + (("*",),)
    if s.startswith("*"):
        l, p = parse_place(s[1:]); return l, p + (("*",),)
    if s.startswith("(") and s.endswith(")"):
        inner = s[1:-1]
        # "(X as Variant)" or "(X.N: type)"
        m = re.match(r"^(.*) as ([A-Za-z_0-9]+)$", inner)
        if m and ":" not in m.group(2):
            l, p = parse_place(m.group(1)); return l, p + (("d", m.group(2)),)
        # field: split at last ".N: "
        m = re.match(r"^(.*)\.(\d+): (.*)$", inner)
        if m:
            # base could itself contain ': ' so be greedy-safe: find the split where base parses
            base = m.group(1)
            l, p = parse_place(base); return l, p + (("f", int(m.group(2))),)
    m = re.match(r"^(.*)\[(_\d+|\d+ of \d+)\]$", s)
    if m:
        l, p = parse_place(m.group(1)); return l, p + (("i", m.group(2)),)
    raise Unsupported(f"place {s}")


class Interp:
    def __init__(self, prog, models):
        self.prog = prog; self.models = models

    # ---- operands
    def read_place(self, fr, s):
        l, p = parse_place(s)
        return get_path(fr.cell(l).v, p)

    def write_place(self, fr, s, v):
        l, p = parse_place(s)
        c = fr.cell(l)
        c.v = set_path(c.v, p, v)

    def operand(self, ctx, fr, s):
        s = s.strip()
        if s.startswith("copy ") or s.startswith("move "):
            return self.read_place(fr, s[5:])
        if s.startswith("const "):
            return self.const(ctx, s[6:])
        if s.startswith("no_retag "): return self.operand(ctx, fr, s[9:])
        # bare fn item
        return Opaque("fnitem", s)

    def const(self, ctx, s):
        s = s.strip()
        m = re.match(r"^(-?[\d_]+)_?(u8|u16|u32|u64|u128|usize|i8|i16|i32|i64|i128|isize)$", s)
        if m: return int(m.group(1).replace("_", ""))
        if s in ("true", "false"): return s == "true"
        if s.startswith('"'): return eval(s)
        if s == "()": return ()
        # named const: evaluate body
        f = self.prog.resolve(s)
        if f is not None and f.kind == "constval":
            return self.const(ctx, f.src)
        if f is not None and f.kind in ("const", "static"):
            if f.blocks: return self.call_mir(ctx, f, [])
        return Opaque("const", s)

    # ---- rvalues
    def rvalue(self, ctx, fr, s, dest_ty):
        s = s.strip()
        if s.startswith("&mut ") or s.startswith("&raw ") or (s.startswith("&") and not s.startswith("&&")):
            body = re.sub(r"^&(mut |raw const |raw mut )?", "", s)
            l, p = parse_place(body)
            # reborrow through deref: &(*_x) == same ref extended
            if p and p[-1] == ("*",) :
                base = get_path(fr.cell(l).v, p[:-1])
                return base
            # &(*_1).f  -> Ref(cell-of-target, path)
            for k, el in enumerate(p):
                if el == ("*",):
                    base = get_path(fr.cell(l).v, p[:k])
                    assert isinstance(base, Ref)
                    return Ref(base.cell, base.path + p[k + 1:])
            return Ref(fr.cell(l), p)
        m = re.match(r"^(\w+)\((.*)\)$", s)
        if m and m.group(1) in BINOPS:
            a, b = [self.operand(ctx, fr, x) for x in split_top(m.group(2))]
            return BINOPS[m.group(1)](ctx, a, b, dest_ty)
        if m and m.group(1) in ("Not", "Neg"):
            a = self.operand(ctx, fr, m.group(2))
            if m.group(1) == "Not":
                return (not a) if isinstance(a, bool) else z3.Not(a)
            return -a
        if s.startswith("discriminant("):
            v = self.read_place(fr, s[len("discriminant("):-1])
            assert isinstance(v, EnumV), v
            return self.prog.variant_index(v)
        m = re.match(r"^(.*) as (.*) \((\w+)(\(.*\))?\)$", s)
        if m:
            v = self.operand(ctx, fr, m.group(1))
            kind = m.group(3)
            if kind == "IntToInt":
                ty = m.group(2)
                if isinstance(v, bool): return int(v)
                if isinstance(v, int): return v % INTMAX[ty]
                return v % INTMAX[ty]
            return v   # pointer coercions etc: identity
        if s.startswith(("copy ", "move ", "const ", "no_retag ")):
            return self.operand(ctx, fr, s)
        # aggregates
        if s.startswith("{closure@"):
            k = s.index("}") + 1
            loc = s[:k]
            caps = []
            rest = s[k:].strip()
            if rest.startswith("{"):
                for a in split_top(rest[1:-1]):
                    caps.append(self.operand(ctx, fr, a.split(":", 1)[1]))
            return Closure(loc, caps)
        if s.startswith("(") and s.endswith(")"):
            return tuple(self.operand(ctx, fr, a) for a in split_top(s[1:-1]))
        if s.startswith("[") and s.endswith("]"):
            return Opaque("array", [self.operand(ctx, fr, a) for a in split_top(s[1:-1])])
        m = re.match(r"^([\w:]+?)(::<.*>)?::(\w+)(\((.*)\))?$", s)
        if m and m.group(1).split("::")[-1] in ("Result", "Option", "ControlFlow") :
            args = [self.operand(ctx, fr, a) for a in split_top(m.group(5))] if m.group(5) else []
            return EnumV(m.group(1).split("::")[-1], m.group(3), args)
        m = re.match(r"^([\w:<>', &]+?) \{ (.*) \}$", s)
        if m:
            ty = m.group(1)
            fields = []
            names = []
            for a in split_top(m.group(2)):
                n, o = a.split(": ", 1)
                names.append(n); fields.append(self.operand(ctx, fr, o))
            return self.prog.make_struct(ty, names, fields)
        m = re.match(r"^([\w:]+)(::<.*>)?(\((.*)\))?$", s)
        if m:   # enum variant / tuple struct constructor
            path = m.group(1)
            args = [self.operand(ctx, fr, a) for a in split_top(m.group(4))] if m.group(4) else []
            parts = path.split("::")
            if len(parts) >= 2 and self.prog.is_enum(parts[-2]):
                return EnumV(parts[-2], parts[-1], args)
            return Struct(parts[-1], args)
        raise Unsupported(f"rvalue {s}")

    # ---- calls
    def call_mir(self, ctx, fn, args):
        fr = Frame(fn)
        for (l, _), a in zip(fn.params, args):
            fr.cell(l).v = a
        bb = "bb0"
        steps = 0
        while True:
            steps += 1
            if steps > 5000: raise Unsupported("step budget")
            stmts, term = fn.blocks[bb]
            for st in stmts:
                self.stmt(ctx, fr, st)
            nxt = self.terminator(ctx, fr, term)
            if nxt is None:
                return fr.cell("_0").v
            bb = nxt

    def stmt(self, ctx, fr, st):
        if st.startswith(("StorageLive", "StorageDead", "nop", "FakeRead", "AscribeUserType", "PlaceMention",
                          "ConstEvalCounter", "Retag", "Coverage", "Deinit")):
            return
        if st.startswith("discriminant("):
            raise Unsupported(st)
        lhs, rhs = st.split(" = ", 1)
        l, _ = parse_place(lhs)
        v = self.rvalue(ctx, fr, rhs, fr.fn.locals.get(l))
        self.write_place(fr, lhs, v)

    def terminator(self, ctx, fr, t):
        if t == "return": return None
        if t.startswith("goto -> "): return t[8:]
        if t in ("unreachable", "resume"): raise Unsupported(t)
        if t.startswith("switchInt("):
            m = re.match(r"^switchInt\((.*)\) -> \[(.*)\]$", t)
            v = self.operand(ctx, fr, m.group(1))
            targets = []
            for a in split_top(m.group(2)):
                k, b = a.split(": ")
                targets.append((k, b))
            if isinstance(v, bool): v = int(v)
            if isinstance(v, int):
                for k, b in targets:
                    if k != "otherwise" and int(k) == v: return b
                return dict(targets)["otherwise"]
            if z3.is_bool(v): v = z3.If(v, 1, 0)
            opts, others = [], []
            for k, b in targets:
                if k == "otherwise": continue
                opts.append((b, v == int(k))); others.append(v != int(k))
            if "otherwise" in dict(targets):
                opts.append((dict(targets)["otherwise"], z3.And(others) if others else True))
            return opts[ctx.choose(opts)][0]
        if t.startswith("drop("):
            m = re.match(r"^drop\(.*\) -> \[return: (bb\d+)", t)
            return m.group(1)
        if t.startswith("assert("):
            m = re.match(r"^assert\((!?)(.*?), \".*\) -> \[success: (bb\d+)", t)
            c = self.operand(ctx, fr, m.group(2))
            if m.group(1): c = (not c) if isinstance(c, bool) else z3.Not(c)
            if ctx.branch(c): return m.group(3)
            raise Panic(t)
        # call
        m = re.match(r"^(?:(.*?) = )?(.*) -> (\[return: (bb\d+).*\]|unwind.*)$", t)
        if not m: raise Unsupported(f"terminator {t}")
        dest, call, ret = m.group(1), m.group(2), m.group(4)
        # split callee / args at last balanced paren group
        assert call.endswith(")")
        d = 0
        for idx in range(len(call) - 1, -1, -1):
            if call[idx] == ")": d += 1
            elif call[idx] == "(":
                d -= 1
                if d == 0: break
        callee, argstr = call[:idx], call[idx + 1:-1]
        args = [self.operand(ctx, fr, a) for a in split_top(argstr)]
        r = self.call(ctx, callee, args)
        if ret is None: raise Panic(f"diverging call {callee}")
        if dest: self.write_place(fr, dest, r)
        return ret

    def call(self, ctx, callee, args):
        if callee.startswith("move ") or callee.startswith("copy "):
            raise Unsupported("indirect call " + callee)
        h = self.models.lookup(callee)
        if h is not None:
            return h(self, ctx, callee, args)
        f = self.prog.resolve(callee)
        if f is not None:
            return self.call_mir(ctx, f, args)
        raise Unsupported(f"no model for {callee}")

    def call_closure(self, ctx, clo, args):
        if isinstance(clo, Closure):
            f = self.prog.closure_fn(clo.fn)
            return self.call_mir(ctx, f, [clo] + list(args))
        if isinstance(clo, Opaque) and clo.tag == "fnitem":
            return self.call(ctx, clo.data, list(args))
        raise Unsupported(f"call_closure {clo!r}")


def _arith(op):
    def f(ctx, a, b, ty):
        return op(a, b)
    return f

def _with_overflow(op):
    def f(ctx, a, b, ty):
        r = op(a, b)
        # dest type is "(T, bool)"
        t = ty.strip("()").split(",")[0].strip()
        hi = INTMAX[t]
        if isinstance(r, int): return (r % hi, not (0 <= r < hi))
        return (r, z3.Or(r < 0, r >= hi))   # value only meaningful when no overflow (assert follows)
    return f

def _div(ctx, a, b, ty):
    if isinstance(a, int) and isinstance(b, int): return a // b
    return a / b     # z3 Int division (euclidean; equal to trunc for non-negatives)

BINOPS = {
    "Add": _arith(lambda a, b: a + b), "Sub": _arith(lambda a, b: a - b), "Mul": _arith(lambda a, b: a * b),
    "Div": _div, "Rem": _arith(lambda a, b: a % b),
    "Eq": _arith(lambda a, b: a == b), "Ne": _arith(lambda a, b: a != b), "Lt": _arith(lambda a, b: a < b),
    "Le": _arith(lambda a, b: a <= b), "Gt": _arith(lambda a, b: a > b), "Ge": _arith(lambda a, b: a >= b),
    "AddWithOverflow": _with_overflow(lambda a, b: a + b), "SubWithOverflow": _with_overflow(lambda a, b: a - b),
    "MulWithOverflow": _with_overflow(lambda a, b: a * b),
    "BitAnd": _arith(lambda a, b: (a and b) if isinstance(a, bool) and isinstance(b, bool) else z3.And(a, b)),
    "BitOr": _arith(lambda a, b: (a or b) if isinstance(a, bool) and isinstance(b, bool) else z3.Or(a, b)),
}
