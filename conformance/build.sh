#!/usr/bin/env bash
# Offline build of the mirconf conformance corpus.
# Quiet on success; prints the cargo output only if the build fails.
# Binary: /verif/.work/target-conf/debug/mirconf
set -u
cd "$(dirname "$0")"
export CARGO_NET_OFFLINE=true
export CARGO_TARGET_DIR=/verif/.work/target-conf
log="$(mktemp)"
if cargo build --offline >"$log" 2>&1; then
    rm -f "$log"
    exit 0
else
    status=$?
    cat "$log" >&2
    rm -f "$log"
    exit "$status"
fi
