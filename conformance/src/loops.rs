//! Theme 5: loops and control flow (small, bounded trip counts).

#[inline(never)]
pub fn for_range(a: u64, b: u64, c: u64) -> i128 {
    let n = a % 6;
    let mut acc: u64 = 0;
    for i in 0..n {
        acc += i * (b % 10) + c % 3;
    }
    acc as i128
}

#[inline(never)]
pub fn for_range_inclusive(a: u64, b: u64, c: u64) -> i128 {
    let lo = a % 4;
    let hi = lo + b % 5;
    let mut acc: i128 = 0;
    for i in lo..=hi {
        if i % 2 == c % 2 {
            acc += i as i128;
        } else {
            acc -= 1;
        }
    }
    acc
}

#[inline(never)]
pub fn for_range_rev_step(a: u64, b: u64, c: u64) -> i128 {
    let n = a % 7 + 1;
    let mut acc: i128 = 0;
    for i in (0..n).rev() {
        acc = acc * 2 + (i ^ (b % 4)) as i128;
    }
    for j in (0..n).step_by((c % 3 + 1) as usize) {
        acc += j as i128 * 100;
    }
    acc
}

#[inline(never)]
pub fn loop_break_value(a: u64, b: u64, c: u64) -> i128 {
    let mut x = a % 50 + 1;
    let mut steps = 0u64;
    let found = loop {
        if x == 1 {
            break steps as i128;
        }
        if steps >= 8 {
            break -(x as i128);
        }
        x = if x % 2 == 0 { x / 2 } else { x * 3 + 1 };
        steps += 1;
    };
    found * 10 + ((b ^ c) % 3) as i128
}

#[inline(never)]
pub fn labeled_break_continue(a: u64, b: u64, c: u64) -> i128 {
    let n = a % 5 + 1;
    let m = b % 4 + 1;
    let target = c % 12;
    let mut visited: i128 = 0;
    let mut hit: i128 = -1;
    'outer: for i in 0..n {
        for j in 0..m {
            if j > i {
                continue 'outer;
            }
            visited += 1;
            if i * m + j == target {
                hit = (i * 10 + j) as i128;
                break 'outer;
            }
        }
    }
    visited * 100 + hit
}

#[inline(never)]
pub fn while_counter(a: u64, b: u64, c: u64) -> i128 {
    let mut i = 0u64;
    let mut rem = a % 200;
    let d = b % 7 + 2;
    while rem >= d && i < 8 {
        rem -= d;
        i += 1;
    }
    i as i128 * 1000 + rem as i128 + (c % 2) as i128
}

fn find_pair(limit: u64, target: u64) -> Option<(u64, u64)> {
    for i in 0..limit {
        for j in i..limit {
            if i * j == target {
                return Some((i, j));
            }
        }
    }
    None
}

#[inline(never)]
pub fn early_return_nested(a: u64, b: u64, c: u64) -> i128 {
    match find_pair(a % 5 + 1, b % 10) {
        Some((i, j)) => i as i128 * 10 + j as i128 + c as i128 % 2,
        None => -1,
    }
}

#[inline(never)]
pub fn loop_with_overflow(a: u64, b: u64, c: u64) -> i128 {
    // repeated doubling; panics on overflow when a is large
    let mut x = a;
    for _ in 0..(b % 5) {
        x = x * 2 + c % 2;
    }
    x as i128
}

#[inline(never)]
pub fn while_true_flags(a: u64, b: u64, c: u64) -> i128 {
    let mut done = false;
    let mut i = 0u64;
    let mut acc = 0u64;
    while !done {
        acc += (a >> i) & 1;
        i += 1;
        done = i >= b % 8 || acc > c % 4;
    }
    acc as i128 * 10 + i as i128
}

#[inline(never)]
pub fn for_over_array_refs(a: u64, b: u64, c: u64) -> i128 {
    let arr = [a % 9, b % 9, c % 9];
    let mut best = 0u64;
    let mut idx: i128 = -1;
    for (i, x) in arr.iter().enumerate() {
        if *x > best {
            best = *x;
            idx = i as i128;
        }
    }
    let mut total = 0u64;
    for x in arr {
        if x == 0 {
            continue;
        }
        total += x;
    }
    best as i128 * 100 + idx * 10 + total as i128
}

#[inline(never)]
pub fn block_expression_break(a: u64, b: u64, c: u64) -> i128 {
    let v = 'blk: {
        if a % 2 == 0 {
            break 'blk 1i128;
        }
        if b > c {
            break 'blk 2;
        }
        3
    };
    let w = if a > b { if b > c { 10 } else { 20 } } else if a == b { 30 } else { 40 };
    v + w
}

crate::cases!(loops:
    for_range, for_range_inclusive, for_range_rev_step, loop_break_value,
    labeled_break_continue, while_counter, early_return_nested, loop_with_overflow,
    while_true_flags, for_over_array_refs, block_expression_break,
);
