//! Theme 3: Result combinators and error conversion with `?`.

use std::fmt;

#[derive(Debug, Clone, PartialEq)]
pub enum MathErr {
    Overflow,
    DivZero,
    Negative(u64),
}

#[derive(Debug, Clone, PartialEq)]
pub enum AppErr {
    Math(MathErr),
    Unauthorized { who: u64 },
    Parse(u8),
    Empty,
}

// hand-written From, used by `?`
impl From<MathErr> for AppErr {
    fn from(e: MathErr) -> Self {
        AppErr::Math(e)
    }
}

#[derive(Debug, Clone, PartialEq)]
pub struct ParseFail {
    pub code: u8,
}

// manual Display + Error impls (no thiserror)
impl fmt::Display for ParseFail {
    fn fmt(&self, f: &mut fmt::Formatter<'_>) -> fmt::Result {
        write!(f, "parse failure {}", self.code)
    }
}

impl std::error::Error for ParseFail {}

impl From<ParseFail> for AppErr {
    fn from(e: ParseFail) -> Self {
        AppErr::Parse(e.code)
    }
}

fn safe_div(x: u64, y: u64) -> Result<u64, MathErr> {
    if y == 0 {
        Err(MathErr::DivZero)
    } else {
        Ok(x / y)
    }
}

fn safe_sub(x: u64, y: u64) -> Result<u64, MathErr> {
    x.checked_sub(y).ok_or(MathErr::Negative(y.wrapping_sub(x) % 1000))
}

fn safe_add(x: u64, y: u64) -> Result<u64, MathErr> {
    x.checked_add(y).ok_or(MathErr::Overflow)
}

fn parse_small(x: u64) -> Result<u8, ParseFail> {
    if x < 200 {
        Ok(x as u8)
    } else {
        Err(ParseFail { code: (x % 251) as u8 })
    }
}

fn enc_math(e: &MathErr) -> i128 {
    match e {
        MathErr::Overflow => -1,
        MathErr::DivZero => -2,
        MathErr::Negative(n) => -(*n as i128) - 10,
    }
}

fn enc_app(e: &AppErr) -> i128 {
    match e {
        AppErr::Math(m) => enc_math(m) - 10000,
        AppErr::Unauthorized { who } => -(*who as i128 % 1000) - 20000,
        AppErr::Parse(c) => -(*c as i128) - 30000,
        AppErr::Empty => -40000,
    }
}

#[inline(never)]
pub fn map_and_map_err(a: u64, b: u64, c: u64) -> i128 {
    let r: Result<i128, i128> = safe_div(a, b)
        .map(|q| q as i128 + c as i128)
        .map_err(|e| enc_math(&e) * 2);
    match r {
        Ok(v) => v,
        Err(e) => e,
    }
}

#[inline(never)]
pub fn and_then_chain(a: u64, b: u64, c: u64) -> i128 {
    let r = safe_sub(a, b)
        .and_then(|d| safe_div(d, c))
        .and_then(|q| safe_add(q, u64::MAX - 5));
    match r {
        Ok(v) => v as i128,
        Err(e) => enc_math(&e),
    }
}

#[inline(never)]
pub fn ok_and_err(a: u64, b: u64, c: u64) -> i128 {
    let r = safe_sub(a, b);
    let o: Option<u64> = r.clone().ok();
    let e: Option<MathErr> = r.err();
    let ov = o.map_or(-1, |v| v as i128);
    let ev = e.map_or(0, |x| enc_math(&x));
    ov * 3 + ev + (c % 2) as i128
}

#[inline(never)]
pub fn unwrap_or_variants(a: u64, b: u64, c: u64) -> i128 {
    let x = safe_div(a, b).unwrap_or(42);
    let y = safe_sub(b, c).unwrap_or_else(|e| match e {
        MathErr::Negative(n) => n,
        _ => 0,
    });
    let z = safe_add(a, c).unwrap_or_default();
    x as i128 + y as i128 * 3 + z as i128 * 5
}

#[inline(never)]
pub fn or_and_or_else(a: u64, b: u64, c: u64) -> i128 {
    let x: Result<u64, MathErr> = safe_div(a, b).or(Ok(1));
    let y: Result<u64, u8> = safe_sub(a, c).or_else(|e| match e {
        MathErr::Negative(n) if n < 100 => Ok(n),
        MathErr::Negative(_) => Err(1),
        _ => Err(2),
    });
    let xv = x.map_or(-1, |v| v as i128);
    let yv = match y {
        Ok(v) => v as i128,
        Err(k) => -(k as i128),
    };
    xv + yv * 2
}

#[inline(never)]
pub fn is_ok_is_err(a: u64, b: u64, c: u64) -> i128 {
    let r1 = safe_div(a, b);
    let r2 = safe_sub(b, c);
    let r3 = safe_add(a, c);
    r1.is_ok() as i128 + 2 * r2.is_err() as i128 + 4 * r3.is_ok() as i128
        + 8 * (r1 == Err(MathErr::DivZero)) as i128
}

fn pipeline(a: u64, b: u64, c: u64) -> Result<u64, AppErr> {
    if a % 11 == 0 {
        return Err(AppErr::Unauthorized { who: a });
    }
    let d = safe_sub(a, b)?; // MathErr -> AppErr via From
    let p = parse_small(c)?; // ParseFail -> AppErr via From
    let q = safe_div(d, p as u64)?;
    Ok(q + p as u64)
}

#[inline(never)]
pub fn question_mark_from(a: u64, b: u64, c: u64) -> i128 {
    match pipeline(a, b, c) {
        Ok(v) => v as i128,
        Err(e) => enc_app(&e),
    }
}

fn first_even(xs: &[u64]) -> Result<u64, AppErr> {
    let v = xs.iter().find(|x| **x % 2 == 0).ok_or(AppErr::Empty)?;
    let half = safe_div(*v, 2)?;
    Ok(half)
}

#[inline(never)]
pub fn ok_or_question(a: u64, b: u64, c: u64) -> i128 {
    match first_even(&[a, b, c]) {
        Ok(v) => v as i128,
        Err(e) => enc_app(&e),
    }
}

#[inline(never)]
pub fn collect_result_vec(a: u64, b: u64, c: u64) -> i128 {
    let inputs = [a, b, c];
    let r: Result<Vec<u8>, ParseFail> = inputs.iter().map(|x| parse_small(*x)).collect();
    match r {
        Ok(v) => v.iter().map(|x| *x as i128).sum::<i128>() + v.len() as i128 * 1000,
        Err(e) => -(e.code as i128) - 1,
    }
}

#[inline(never)]
pub fn expect_panic(a: u64, b: u64, c: u64) -> i128 {
    // panics when b == 0 or a < c
    let q = safe_div(a, b).expect("division must succeed");
    let d = safe_sub(a, c).unwrap();
    q as i128 * 2 + d as i128
}

#[inline(never)]
pub fn unwrap_err_case(a: u64, b: u64, c: u64) -> i128 {
    let r = safe_sub(a % 10, b % 10 + 10);
    let e = r.unwrap_err();
    let r2 = safe_div(c, a % 2);
    // panics when a is odd (r2 is Ok)
    let e2 = r2.expect_err("expected failure");
    enc_math(&e) * 5 + enc_math(&e2)
}

#[inline(never)]
pub fn as_ref_and_iter(a: u64, b: u64, c: u64) -> i128 {
    let r = safe_sub(a, b);
    let peek: Result<&u64, &MathErr> = r.as_ref();
    let bonus = match peek {
        Ok(v) => *v as i128 % 7,
        Err(e) => enc_math(e),
    };
    let mut total: i128 = 0;
    for v in r.iter() {
        total += *v as i128;
    }
    total + bonus * 3 + (c % 3) as i128
}

#[inline(never)]
pub fn and_case(a: u64, b: u64, c: u64) -> i128 {
    let r = safe_div(a, b).and(safe_sub(b, c));
    match r {
        Ok(v) => v as i128,
        Err(e) => enc_math(&e),
    }
}

#[inline(never)]
pub fn map_or_variants(a: u64, b: u64, c: u64) -> i128 {
    let x = safe_div(a, b).map_or(-9, |v| v as i128);
    let y = safe_sub(a, c).map_or_else(|e| enc_math(&e), |v| v as i128 * 2);
    x + y
}

#[inline(never)]
pub fn result_to_option_transpose(a: u64, b: u64, c: u64) -> i128 {
    let r: Result<Option<u64>, MathErr> = if a % 4 == 0 {
        Ok(None)
    } else {
        safe_div(b, c).map(Some)
    };
    let o: Option<Result<u64, MathErr>> = r.transpose();
    match o {
        None => -100,
        Some(Ok(v)) => v as i128,
        Some(Err(e)) => enc_math(&e),
    }
}

#[inline(never)]
pub fn nested_error_match(a: u64, b: u64, c: u64) -> i128 {
    let e: AppErr = match a % 4 {
        0 => AppErr::Math(MathErr::Negative(b % 100)),
        1 => AppErr::Unauthorized { who: c },
        2 => ParseFail { code: b as u8 }.into(),
        _ => MathErr::Overflow.into(),
    };
    match e {
        AppErr::Math(MathErr::Negative(n)) if n > 50 => n as i128,
        AppErr::Math(MathErr::Negative(_)) => 1,
        AppErr::Math(_) => 2,
        AppErr::Unauthorized { who } if who == 0 => 3,
        AppErr::Unauthorized { .. } => 4,
        AppErr::Parse(code) => code as i128 + 1000,
        AppErr::Empty => 5,
    }
}

#[inline(never)]
pub fn display_error_len(a: u64, b: u64, c: u64) -> i128 {
    let e = ParseFail { code: (a % 251) as u8 };
    let s = e.to_string();
    let dbg = format!("{:?}", MathErr::Negative(b % 10));
    s.len() as i128 * 100 + dbg.len() as i128 + (c % 2) as i128
}

crate::cases!(results:
    map_and_map_err, and_then_chain, ok_and_err, unwrap_or_variants, or_and_or_else,
    is_ok_is_err, question_mark_from, ok_or_question, collect_result_vec, expect_panic,
    unwrap_err_case, as_ref_and_iter, and_case, map_or_variants, result_to_option_transpose,
    nested_error_match, display_error_len,
);
