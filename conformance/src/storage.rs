//! Theme 13: cw-storage-plus on MockStorage.

use cosmwasm_std::testing::MockStorage;
use cosmwasm_std::{Order, StdError, StdResult, Storage};
use cw_storage_plus::{Bound, Deque, Item, Map, SnapshotMap, Strategy};
use serde::{Deserialize, Serialize};

const COUNT: Item<u64> = Item::new("count");
const BALANCES: Map<&str, u64> = Map::new("balances");
const ALLOWANCES: Map<(&str, &str), u64> = Map::new("allowances");
const BY_ID: Map<u64, u64> = Map::new("by_id");
const STAKES: SnapshotMap<&str, u64> =
    SnapshotMap::new("stakes", "stakes__checkpoints", "stakes__changelog", Strategy::EveryBlock);
const QUEUE: Deque<u64> = Deque::new("queue");

const NAMES: [&str; 4] = ["alice", "bob", "carol", "dave"];

fn name(x: u64) -> &'static str {
    NAMES[(x % 4) as usize]
}

fn opt_i(o: Option<u64>) -> i128 {
    o.map_or(-1, |v| v as i128)
}

fn err_code(e: &StdError) -> i128 {
    match e {
        StdError::NotFound { .. } => -2,
        StdError::Overflow { .. } => -3,
        StdError::GenericErr { .. } => -4,
        _ => -9,
    }
}

#[inline(never)]
pub fn item_save_load(a: u64, b: u64, c: u64) -> i128 {
    let mut store = MockStorage::new();
    let before = COUNT.may_load(&store).unwrap();
    if a % 3 != 0 {
        COUNT.save(&mut store, &b).unwrap();
    }
    let loaded = match COUNT.load(&store) {
        Ok(v) => v as i128,
        Err(e) => err_code(&e),
    };
    let exists = COUNT.exists(&store);
    opt_i(before) + loaded * 10 + exists as i128 * 3 + (c % 2) as i128
}

#[inline(never)]
pub fn item_update_remove(a: u64, b: u64, c: u64) -> i128 {
    let mut store = MockStorage::new();
    COUNT.save(&mut store, &a).unwrap();
    let r = COUNT.update(&mut store, |v| -> StdResult<u64> {
        v.checked_add(b).ok_or_else(|| StdError::generic_err("overflow"))
    });
    let after = COUNT.load(&store).unwrap();
    if c % 2 == 0 {
        COUNT.remove(&mut store);
    }
    let gone = COUNT.may_load(&store).unwrap().is_none();
    match r {
        Ok(v) => v as i128 * 4 + (after == v) as i128 * 2 + gone as i128,
        Err(e) => err_code(&e) * 4 - (after == a) as i128 * 2 - gone as i128,
    }
}

#[derive(Serialize, Deserialize, Clone, Debug, PartialEq)]
struct Config {
    owner: String,
    cap: u64,
    open: bool,
}

#[inline(never)]
pub fn item_struct_value(a: u64, b: u64, c: u64) -> i128 {
    let cfg_item: Item<Config> = Item::new("config");
    let mut store = MockStorage::new();
    let cfg = Config { owner: name(a).to_string(), cap: b, open: c % 2 == 0 };
    cfg_item.save(&mut store, &cfg).unwrap();
    let r: Result<Config, StdError> = cfg_item.update(&mut store, |mut cur| {
        if !cur.open {
            return Err(StdError::generic_err("closed"));
        }
        cur.cap /= 2;
        Ok(cur)
    });
    let stored = cfg_item.load(&store).unwrap();
    match r {
        Ok(n) => n.cap as i128 * 10 + (stored == n) as i128 + stored.owner.len() as i128 * 2,
        Err(e) => err_code(&e) * 10 - (stored == cfg) as i128,
    }
}

#[inline(never)]
pub fn map_str_save_load(a: u64, b: u64, c: u64) -> i128 {
    let mut store = MockStorage::new();
    BALANCES.save(&mut store, name(a), &(b % 1000)).unwrap();
    BALANCES.save(&mut store, name(a % 4 + 1), &(c % 1000)).unwrap();
    let x = BALANCES.may_load(&store, name(b)).unwrap();
    let y = match BALANCES.load(&store, name(c)) {
        Ok(v) => v as i128,
        Err(e) => err_code(&e),
    };
    let has = BALANCES.has(&store, "alice");
    opt_i(x) + y * 10000 + has as i128 * 100000000
}

#[inline(never)]
pub fn map_remove_update(a: u64, b: u64, c: u64) -> i128 {
    let mut store = MockStorage::new();
    BALANCES.save(&mut store, "alice", &(a % 100)).unwrap();
    BALANCES.save(&mut store, "bob", &(b % 100)).unwrap();
    let target = name(c);
    let r = BALANCES.update(&mut store, target, |cur| -> StdResult<u64> {
        match cur {
            Some(v) if v >= 10 => Ok(v - 10),
            Some(_) => Err(StdError::generic_err("insufficient")),
            None => Ok(1),
        }
    });
    BALANCES.remove(&mut store, name(a));
    let left = BALANCES.may_load(&store, "alice").unwrap();
    let rv = match r {
        Ok(v) => v as i128,
        Err(e) => err_code(&e),
    };
    rv * 1000 + opt_i(left) * 10 + BALANCES.has(&store, target) as i128
}

#[inline(never)]
pub fn map_tuple_key(a: u64, b: u64, c: u64) -> i128 {
    let mut store = MockStorage::new();
    ALLOWANCES.save(&mut store, (name(a), name(b)), &(c % 500)).unwrap();
    ALLOWANCES.save(&mut store, (name(a), "zed"), &7).unwrap();
    ALLOWANCES.save(&mut store, ("owner", name(c)), &9).unwrap();
    let direct = ALLOWANCES.may_load(&store, (name(a), name(b))).unwrap();
    let swapped = ALLOWANCES.may_load(&store, (name(b), name(a))).unwrap();
    let has = ALLOWANCES.has(&store, ("owner", "alice"));
    ALLOWANCES.remove(&mut store, (name(a), "zed"));
    let gone = !ALLOWANCES.has(&store, (name(a), "zed"));
    opt_i(direct) + opt_i(swapped) * 1000 + has as i128 * 1000000 + gone as i128 * 2000000
}

#[inline(never)]
pub fn map_u64_key(a: u64, b: u64, c: u64) -> i128 {
    let mut store = MockStorage::new();
    for i in 0..(a % 5) {
        BY_ID.save(&mut store, i * 300 + b % 7, &(i + c % 10)).unwrap();
    }
    let k = (c % 5) * 300 + b % 7;
    let got = BY_ID.may_load(&store, k).unwrap();
    let upd = BY_ID
        .update(&mut store, 0, |cur| -> StdResult<u64> { Ok(cur.unwrap_or(100) + 1) })
        .unwrap();
    let big = BY_ID.has(&store, u64::MAX);
    opt_i(got) + upd as i128 * 100 + big as i128 * 100000
}

fn seed_balances(store: &mut dyn Storage, a: u64, b: u64, c: u64) {
    BALANCES.save(store, "carol", &(c % 50)).unwrap();
    BALANCES.save(store, "alice", &(a % 50)).unwrap();
    if b % 3 != 0 {
        BALANCES.save(store, "bob", &(b % 50)).unwrap();
    }
    if a % 2 == 0 {
        BALANCES.save(store, "dave", &4).unwrap();
    }
}

fn enc_pairs(v: &[(String, u64)]) -> i128 {
    v.iter().fold(0i128, |acc, (k, x)| acc * 1000 + (k.as_bytes()[0] - b'a') as i128 * 100 + *x as i128)
}

#[inline(never)]
pub fn map_range_ascending(a: u64, b: u64, c: u64) -> i128 {
    let mut store = MockStorage::new();
    seed_balances(&mut store, a, b, c);
    let all: StdResult<Vec<(String, u64)>> = BALANCES.range(&store, None, None, Order::Ascending).collect();
    let all = all.unwrap();
    enc_pairs(&all) + all.len() as i128 * 1_000_000_000_000_000
}

#[inline(never)]
pub fn map_range_descending(a: u64, b: u64, c: u64) -> i128 {
    let mut store = MockStorage::new();
    seed_balances(&mut store, a, b, c);
    let all: Vec<(String, u64)> = BALANCES
        .range(&store, None, None, Order::Descending)
        .collect::<StdResult<Vec<_>>>()
        .unwrap();
    let total: u64 = all.iter().map(|(_, v)| *v).sum();
    enc_pairs(&all) + total as i128 * 1_000_000_000_000_000
}

#[inline(never)]
pub fn map_range_bounds(a: u64, b: u64, c: u64) -> i128 {
    let mut store = MockStorage::new();
    seed_balances(&mut store, a, b, c);
    let min = if a % 2 == 0 { Bound::inclusive(name(b)) } else { Bound::exclusive(name(b)) };
    let max = match c % 3 {
        0 => None,
        1 => Some(Bound::inclusive("carol")),
        _ => Some(Bound::exclusive("carol")),
    };
    let got: Vec<(String, u64)> = BALANCES
        .range(&store, Some(min), max, Order::Ascending)
        .collect::<StdResult<Vec<_>>>()
        .unwrap();
    enc_pairs(&got) + got.len() as i128 * 1_000_000_000_000_000
}

#[inline(never)]
pub fn map_u64_range_bounds(a: u64, b: u64, c: u64) -> i128 {
    let mut store = MockStorage::new();
    for i in 0..5u64 {
        BY_ID.save(&mut store, i * 2, &(i + a % 10)).unwrap();
    }
    let lo = b % 10;
    let hi = lo + c % 6;
    let got: Vec<(u64, u64)> = BY_ID
        .range(&store, Some(Bound::inclusive(lo)), Some(Bound::exclusive(hi)), Order::Descending)
        .collect::<StdResult<Vec<_>>>()
        .unwrap();
    got.iter().fold(got.len() as i128, |acc, (k, v)| acc * 1000 + *k as i128 * 20 + *v as i128)
}

#[inline(never)]
pub fn map_prefix_range(a: u64, b: u64, c: u64) -> i128 {
    let mut store = MockStorage::new();
    ALLOWANCES.save(&mut store, ("alice", "bob"), &(a % 100)).unwrap();
    ALLOWANCES.save(&mut store, ("alice", "carol"), &(b % 100)).unwrap();
    ALLOWANCES.save(&mut store, ("bob", "alice"), &(c % 100)).unwrap();
    if a % 2 == 1 {
        ALLOWANCES.save(&mut store, (name(b), "dave"), &5).unwrap();
    }
    let owner = name(c);
    let spenders: Vec<(String, u64)> = ALLOWANCES
        .prefix(owner)
        .range(&store, None, None, Order::Ascending)
        .collect::<StdResult<Vec<_>>>()
        .unwrap();
    let all = ALLOWANCES.range(&store, None, None, Order::Ascending).count();
    enc_pairs(&spenders) + spenders.len() as i128 * 1_000_000_000_000 + all as i128 * 10_000_000_000_000
}

#[inline(never)]
pub fn map_keys_take(a: u64, b: u64, c: u64) -> i128 {
    let mut store = MockStorage::new();
    seed_balances(&mut store, a, b, c);
    let keys: Vec<String> = BALANCES
        .keys(&store, None, None, Order::Ascending)
        .collect::<StdResult<Vec<_>>>()
        .unwrap();
    let limit = (c % 4) as usize;
    let page: Vec<(String, u64)> = BALANCES
        .range(&store, Some(Bound::exclusive(name(a))), None, Order::Ascending)
        .take(limit)
        .collect::<StdResult<Vec<_>>>()
        .unwrap();
    let key_code = keys.iter().fold(0i128, |acc, k| acc * 10 + (k.as_bytes()[0] - b'a') as i128 + 1);
    key_code + enc_pairs(&page) * 100000 + page.len() as i128 * 10000
}

#[inline(never)]
pub fn map_first_last(a: u64, b: u64, c: u64) -> i128 {
    let mut store = MockStorage::new();
    if a % 4 != 0 {
        seed_balances(&mut store, a, b, c);
    }
    let f = BALANCES.first(&store).unwrap();
    let l = BALANCES.last(&store).unwrap();
    let enc = |o: Option<(String, u64)>| o.map_or(-1, |(k, v)| k.len() as i128 * 100 + v as i128);
    enc(f) + enc(l) * 10000 + BALANCES.is_empty(&store) as i128 * 100000000
}

#[inline(never)]
pub fn map_clear_is_empty(a: u64, b: u64, c: u64) -> i128 {
    let mut store = MockStorage::new();
    seed_balances(&mut store, a, b, c);
    COUNT.save(&mut store, &1).unwrap();
    let before = BALANCES.range(&store, None, None, Order::Ascending).count();
    if b % 2 == 0 {
        BALANCES.clear(&mut store);
    }
    let empty = BALANCES.is_empty(&store);
    let count_kept = COUNT.exists(&store);
    before as i128 + empty as i128 * 10 + count_kept as i128 * 100
}

#[inline(never)]
pub fn snapshot_map_heights(a: u64, b: u64, c: u64) -> i128 {
    let mut store = MockStorage::new();
    STAKES.save(&mut store, "alice", &(a % 100), 10).unwrap();
    STAKES.save(&mut store, "alice", &(b % 100), 20).unwrap();
    if c % 2 == 0 {
        STAKES.remove(&mut store, "alice", 30).unwrap();
    }
    let h = 5 + (c % 7) * 5;
    let at = STAKES.may_load_at_height(&store, "alice", h).unwrap();
    let now = STAKES.may_load(&store, "alice").unwrap();
    let other = STAKES.may_load_at_height(&store, "bob", h).unwrap();
    opt_i(at) + opt_i(now) * 1000 + opt_i(other) * 1000000 + h as i128 * 10000000
}

#[inline(never)]
pub fn snapshot_map_update(a: u64, b: u64, c: u64) -> i128 {
    let mut store = MockStorage::new();
    STAKES.save(&mut store, "bob", &(a % 100), 1).unwrap();
    let r = STAKES.update(&mut store, "bob", 5, |cur| -> StdResult<u64> {
        let cur = cur.unwrap_or_default();
        cur.checked_sub(b % 100).ok_or_else(|| StdError::generic_err("underflow"))
    });
    let at3 = STAKES.may_load_at_height(&store, "bob", 3).unwrap();
    let at5 = STAKES.may_load_at_height(&store, "bob", 5).unwrap();
    let at6 = STAKES.may_load_at_height(&store, "bob", 6 + c % 3).unwrap();
    let rv = match r {
        Ok(v) => v as i128,
        Err(e) => err_code(&e),
    };
    rv + opt_i(at3) * 1000 + opt_i(at5) * 1000000 + opt_i(at6) * 1000000000
}

#[inline(never)]
pub fn deque_ops(a: u64, b: u64, c: u64) -> i128 {
    let mut store = MockStorage::new();
    for i in 0..(a % 4) {
        if i % 2 == 0 {
            QUEUE.push_back(&mut store, &(b % 10 + i)).unwrap();
        } else {
            QUEUE.push_front(&mut store, &(c % 10 + i)).unwrap();
        }
    }
    let front = QUEUE.front(&store).unwrap();
    let popped = QUEUE.pop_back(&mut store).unwrap();
    let len = QUEUE.len(&store).unwrap();
    let items: Vec<u64> = QUEUE.iter(&store).unwrap().collect::<StdResult<Vec<_>>>().unwrap();
    opt_i(front) + opt_i(popped) * 100 + len as i128 * 10000 + items.iter().sum::<u64>() as i128 * 100000
}

crate::cases!(storage:
    item_save_load, item_update_remove, item_struct_value, map_str_save_load,
    map_remove_update, map_tuple_key, map_u64_key, map_range_ascending, map_range_descending,
    map_range_bounds, map_u64_range_bounds, map_prefix_range, map_keys_take, map_first_last,
    map_clear_is_empty, snapshot_map_heights, snapshot_map_update, deque_ops,
);
