//! mirconf: conformance corpus for a MIR-level symbolic interpreter.
//!
//! Every case has the signature `fn(u64, u64, u64) -> i128` and is marked
//! `#[inline(never)]`.  Cases are grouped in modules by theme and listed in a
//! single registry under the name `<module>::<case_name>`.

pub type CaseFn = fn(u64, u64, u64) -> i128;

/// Declares the `CASES` table of a module: `cases!(module: f1, f2, ...)`.
#[macro_export]
macro_rules! cases {
    ($m:ident : $($f:ident),* $(,)?) => {
        pub const CASES: &[(&str, $crate::CaseFn)] = &[
            $( (concat!(stringify!($m), "::", stringify!($f)), $f as $crate::CaseFn), )*
        ];
    };
}

pub mod arith;
pub mod closures;
pub mod collections;
pub mod cwstd;
pub mod cwutils;
pub mod extras;
pub mod iters;
pub mod loops;
pub mod options;
pub mod patterns;
pub mod results;
pub mod storage;
pub mod strings;
pub mod vecs;

/// All modules with their case tables, in a fixed order.
pub fn modules() -> Vec<(&'static str, &'static [(&'static str, CaseFn)])> {
    vec![
        ("arith", arith::CASES),
        ("options", options::CASES),
        ("results", results::CASES),
        ("patterns", patterns::CASES),
        ("loops", loops::CASES),
        ("iters", iters::CASES),
        ("vecs", vecs::CASES),
        ("strings", strings::CASES),
        ("closures", closures::CASES),
        ("collections", collections::CASES),
        ("cwstd", cwstd::CASES),
        ("cwutils", cwutils::CASES),
        ("storage", storage::CASES),
        ("extras", extras::CASES),
    ]
}

/// Every case as `(<module>::<case_name>, fn)`.
pub fn registry() -> Vec<(&'static str, CaseFn)> {
    let mut v: Vec<(&'static str, CaseFn)> = Vec::new();
    for (_, cases) in modules() {
        v.extend_from_slice(cases);
    }
    v
}
