//! Theme 8: strings.

fn denom_of(x: u64) -> &'static str {
    match x % 4 {
        0 => "uatom",
        1 => "ujuno",
        2 => "ibc/ABC123",
        _ => "",
    }
}

#[inline(never)]
pub fn format_integers(a: u64, b: u64, c: u64) -> i128 {
    let s = format!("{}-{}", a, b % 1000);
    let t = format!("{}{}", c % 10, denom_of(c));
    let u = format!("id={} amount={} denom={}", a % 100, b, denom_of(a));
    s.len() as i128 * 10000 + t.len() as i128 * 100 + u.len() as i128
}

#[inline(never)]
pub fn to_string_roundtrip(a: u64, b: u64, c: u64) -> i128 {
    let s = a.to_string();
    let back: u64 = s.parse().unwrap();
    let t = (b % 2 == 0).to_string();
    let u = denom_of(c).to_string();
    (back == a) as i128 + s.len() as i128 * 10 + t.len() as i128 * 1000 + u.len() as i128 * 10000
}

#[inline(never)]
pub fn push_str_and_plus(a: u64, b: u64, c: u64) -> i128 {
    let mut s = String::new();
    s.push_str(denom_of(a));
    s.push(':');
    if b % 2 == 0 {
        s.push_str(&(b % 100).to_string());
    }
    let t = s.clone() + "/" + denom_of(c);
    let mut u = String::from("x");
    u += &t;
    s.len() as i128 * 10000 + t.len() as i128 * 100 + u.len() as i128
}

#[inline(never)]
pub fn len_is_empty(a: u64, b: u64, c: u64) -> i128 {
    let d = denom_of(a);
    let e = denom_of(b).to_string();
    let mut r = 0i128;
    if d.is_empty() {
        r += 1;
    }
    if e.is_empty() {
        r += 2;
    }
    r + d.len() as i128 * 10 + e.len() as i128 * 1000 + "".len() as i128 + (c % 2) as i128 * 4
}

#[inline(never)]
pub fn starts_ends_contains(a: u64, b: u64, c: u64) -> i128 {
    let d = denom_of(a);
    let e = format!("{}{}", denom_of(b), c % 10);
    let p = d.starts_with("u");
    let q = d.starts_with("ibc/");
    let r = e.ends_with("3");
    let s = e.contains("jun");
    let t = e.contains('/');
    p as i128 + 2 * q as i128 + 4 * r as i128 + 8 * s as i128 + 16 * t as i128
}

#[inline(never)]
pub fn strip_prefix_suffix(a: u64, b: u64, c: u64) -> i128 {
    let d = denom_of(a);
    let x = match d.strip_prefix("ibc/") {
        Some(hash) => hash.len() as i128,
        None => -1,
    };
    let y = match denom_of(b).strip_prefix('u') {
        Some(rest) if rest == "atom" => 1,
        Some(_) => 2,
        None => -1,
    };
    let z = denom_of(c).strip_suffix("123").map_or(-1, |s| s.len() as i128);
    x * 100 + y * 10 + z
}

#[inline(never)]
pub fn split_collect(a: u64, b: u64, c: u64) -> i128 {
    let s = format!("{}:{}:{}", a % 100, denom_of(b), c % 7);
    let parts: Vec<&str> = s.split(':').collect();
    let first: u64 = parts[0].parse().unwrap_or(999);
    let path = format!("wasm/{}/{}/extra/{}", denom_of(a), b % 10, c % 10);
    let segs: Vec<&str> = path.splitn(3, '/').collect();
    parts.len() as i128 * 100000 + first as i128 * 1000 + parts[1].len() as i128 * 100 + segs.len() as i128 * 10 + (segs[2].len() as i128 % 10)
}

#[inline(never)]
pub fn split_once_case(a: u64, b: u64, c: u64) -> i128 {
    let s = if a % 3 == 0 {
        format!("{}", b % 1000)
    } else {
        format!("{}{}", b % 1000, denom_of(c))
    };
    let idx = s.find(|ch: char| !ch.is_ascii_digit());
    let (num, denom) = match idx {
        Some(i) => s.split_at(i),
        None => (s.as_str(), ""),
    };
    let kv = "key=value=more";
    let so = kv.split_once('=').map_or(0, |(k, v)| k.len() * 10 + v.len());
    num.len() as i128 * 1000 + denom.len() as i128 * 10 + so as i128 * 10000 + idx.is_some() as i128
}

#[inline(never)]
pub fn parse_u64(a: u64, b: u64, c: u64) -> i128 {
    let s = match a % 5 {
        0 => b.to_string(),
        1 => format!("{}x", b % 10),
        2 => String::new(),
        3 => format!("{}{}", u64::MAX, c % 10),
        _ => format!("-{}", c % 100),
    };
    match s.parse::<u64>() {
        Ok(v) => v as i128,
        Err(_) => -1 - (a % 5) as i128,
    }
}

#[inline(never)]
pub fn parse_other_ints(a: u64, b: u64, c: u64) -> i128 {
    let s = (a % 400).to_string();
    let x = s.parse::<u8>().map_or(-1, |v| v as i128);
    let t = format!("-{}", b % 200);
    let y = t.parse::<i64>().map_or(-9999, |v| v as i128);
    let z = " 7".parse::<u32>().is_err();
    let w = (c % 1000).to_string().parse::<u128>().unwrap();
    x * 1000000 + y * 1000 + z as i128 + w as i128 * 2
}

#[inline(never)]
pub fn as_bytes_case(a: u64, b: u64, c: u64) -> i128 {
    let d = denom_of(a);
    let bytes = d.as_bytes();
    let first = bytes.first().copied().unwrap_or(0);
    let s = (b % 1000).to_string();
    let sum: u64 = s.as_bytes().iter().map(|x| (*x - b'0') as u64).sum();
    let owned: Vec<u8> = denom_of(c).as_bytes().to_vec();
    bytes.len() as i128 * 10000 + first as i128 * 10 + sum as i128 * 1000000 + owned.len() as i128 % 10
}

#[inline(never)]
pub fn str_comparison(a: u64, b: u64, c: u64) -> i128 {
    let x = denom_of(a);
    let y = denom_of(b).to_string();
    let z = denom_of(c);
    let eq = x == y;
    let lt = x < z;
    let ge = y.as_str() >= z;
    let ord = x.cmp(z) as i8;
    eq as i128 + 2 * lt as i128 + 4 * ge as i128 + (ord as i128 + 1) * 8
}

#[inline(never)]
pub fn chars_count(a: u64, b: u64, c: u64) -> i128 {
    let s = format!("{}{}", denom_of(a), b % 100000);
    let n = s.chars().count();
    let digits = s.chars().filter(|ch| ch.is_ascii_digit()).count();
    let last = s.chars().last().map_or(0, |ch| ch as u32);
    let rev: String = s.chars().rev().collect();
    n as i128 * 10000 + digits as i128 * 1000 + last as i128 + (rev.len() == s.len()) as i128 * 500 + (c % 2) as i128
}

#[inline(never)]
pub fn trim_case(a: u64, b: u64, c: u64) -> i128 {
    let pad_l = " ".repeat((a % 3) as usize);
    let pad_r = "\t".repeat((b % 3) as usize);
    let s = format!("{}{}{}", pad_l, denom_of(c), pad_r);
    let t = s.trim();
    let l = s.trim_start();
    let r = s.trim_end();
    s.len() as i128 * 1000000 + t.len() as i128 * 10000 + l.len() as i128 * 100 + r.len() as i128
}

#[inline(never)]
pub fn concat_join_strs(a: u64, b: u64, c: u64) -> i128 {
    let parts: [&str; 3] = [denom_of(a), denom_of(b), denom_of(c)];
    let cat: String = parts.concat();
    let joined: String = parts.join("-");
    let owned: Vec<String> = parts.iter().filter(|p| !p.is_empty()).map(|p| p.to_string()).collect();
    let j2 = owned.join(", ");
    cat.len() as i128 * 10000 + joined.len() as i128 * 100 + j2.len() as i128
}

#[inline(never)]
pub fn string_match(a: u64, b: u64, c: u64) -> i128 {
    let action = match a % 4 {
        0 => "transfer",
        1 => "burn",
        2 => "mint",
        _ => "other",
    };
    let owned = action.to_string();
    let code = match owned.as_str() {
        "transfer" => 1,
        "burn" | "mint" => 2,
        s if s.len() > 4 => 3,
        _ => 4,
    };
    code + (b % 2) as i128 * 10 + (c % 2) as i128 * 100
}

#[inline(never)]
pub fn string_mutation(a: u64, b: u64, c: u64) -> i128 {
    let mut s = format!("{}{}", denom_of(a), b % 100);
    let popped = s.pop();
    s.insert(0, '#');
    s.truncate((c % 8) as usize);
    let rep = s.replace("u", "UU");
    let t = std::mem::take(&mut s);
    popped.map_or(0, |ch| ch as i128) * 10000 + rep.len() as i128 * 100 + t.len() as i128 * 10 + s.len() as i128
}

crate::cases!(strings:
    format_integers, to_string_roundtrip, push_str_and_plus, len_is_empty,
    starts_ends_contains, strip_prefix_suffix, split_collect, split_once_case, parse_u64,
    parse_other_ints, as_bytes_case, str_comparison, chars_count, trim_case,
    concat_join_strs, string_match, string_mutation,
);
