//! Runner: reads `<name> <a> <b> <c>` lines from stdin and prints
//! `<name> <a> <b> <c> => <result>|panic|unknown` for each.  `--list` prints all case names.

use std::collections::BTreeMap;
use std::io::{self, BufRead, Write};
use std::panic;

use mirconf::{registry, CaseFn};

fn main() {
    let args: Vec<String> = std::env::args().skip(1).collect();
    let reg = registry();

    if args.len() == 1 && args[0] == "--list" {
        let stdout = io::stdout();
        let mut out = stdout.lock();
        for (name, _) in &reg {
            writeln!(out, "{}", name).unwrap();
        }
        return;
    }
    if !args.is_empty() {
        eprintln!("usage: mirconf [--list]   (case lines `<name> <a> <b> <c>` are read from stdin)");
        std::process::exit(2);
    }

    // silent panic hook: nothing is printed to stderr for caught panics
    panic::set_hook(Box::new(|_| {}));

    let table: BTreeMap<&'static str, CaseFn> = reg.into_iter().collect();

    let stdin = io::stdin();
    let stdout = io::stdout();
    let mut out = stdout.lock();
    for line in stdin.lock().lines() {
        let line = match line {
            Ok(l) => l,
            Err(_) => break,
        };
        let parts: Vec<&str> = line.split_whitespace().collect();
        if parts.is_empty() {
            continue;
        }
        let name = parts[0];
        let nums: Vec<Option<u64>> = parts[1..].iter().map(|p| p.parse::<u64>().ok()).collect();
        let (a, b, c) = match (parts.len(), nums.as_slice()) {
            (4, [Some(a), Some(b), Some(c)]) => (*a, *b, *c),
            _ => {
                writeln!(out, "{} => unknown", line.trim()).unwrap();
                continue;
            }
        };
        let verdict = match table.get(name) {
            None => "unknown".to_string(),
            Some(f) => {
                let f = *f;
                match panic::catch_unwind(move || f(a, b, c)) {
                    Ok(v) => v.to_string(),
                    Err(_) => "panic".to_string(),
                }
            }
        };
        writeln!(out, "{} {} {} {} => {}", name, a, b, c, verdict).unwrap();
    }
    out.flush().unwrap();
}
