//! Theme 7: Vec / slice operations.

fn base(a: u64, b: u64, c: u64) -> Vec<u64> {
    vec![a % 10, b % 10, c % 10, (a % 10 + 1) % 10]
}

fn digits(v: &[u64]) -> i128 {
    // positional fold; values are < 100 and length small
    v.iter().fold(0i128, |acc, x| acc * 100 + *x as i128)
}

#[inline(never)]
pub fn push_pop(a: u64, b: u64, c: u64) -> i128 {
    let mut v: Vec<u64> = Vec::new();
    for i in 0..(a % 4) {
        v.push(i + b % 5);
    }
    let top = v.pop();
    let second = v.pop();
    v.push(c % 7);
    top.map_or(-1, |x| x as i128) * 1000 + second.map_or(-1, |x| x as i128) * 100 + digits(&v)
}

#[inline(never)]
pub fn insert_remove(a: u64, b: u64, c: u64) -> i128 {
    let mut v = base(a, b, c);
    // insert panics when index > len, remove panics when index >= len
    v.insert((a % 6) as usize, 77);
    let removed = v.remove((b % 6) as usize);
    digits(&v) * 100 + removed as i128
}

#[inline(never)]
pub fn swap_remove_case(a: u64, b: u64, c: u64) -> i128 {
    let mut v = base(a, b, c);
    let r = v.swap_remove((c % 4) as usize);
    digits(&v) * 10 + r as i128
}

#[inline(never)]
pub fn retain_case(a: u64, b: u64, c: u64) -> i128 {
    let mut v = base(a, b, c);
    let limit = c % 10;
    v.retain(|x| *x != limit && *x % 2 == a % 2);
    v.len() as i128 * 10000 + digits(&v)
}

#[inline(never)]
pub fn sort_variants(a: u64, b: u64, c: u64) -> i128 {
    let mut v = base(a, b, c);
    let mut w = v.clone();
    let mut u = v.clone();
    v.sort();
    w.sort_by(|x, y| y.cmp(x));
    u.sort_unstable();
    let agree = (v == u) as i128;
    digits(&v) * 100000000 + digits(&w) * 10 + agree
}

#[inline(never)]
pub fn sort_by_key_case(a: u64, b: u64, c: u64) -> i128 {
    let mut pairs = vec![(a % 5, 1u64), (b % 5, 2), (c % 5, 3), (2, 4)];
    pairs.sort_by_key(|p| p.0);
    let order: Vec<u64> = pairs.iter().map(|p| p.1).collect();
    let mut rev = pairs.clone();
    rev.sort_by_key(|p| std::cmp::Reverse(p.0));
    digits(&order) * 10 + rev[0].1 as i128
}

#[inline(never)]
pub fn dedup_contains(a: u64, b: u64, c: u64) -> i128 {
    let mut v = vec![a % 3, b % 3, b % 3, c % 3, c % 3, a % 3];
    v.dedup();
    let has = v.contains(&(c % 4));
    v.len() as i128 * 1000 + digits(&v) % 1000 + has as i128 * 100000
}

#[inline(never)]
pub fn extend_variants(a: u64, b: u64, c: u64) -> i128 {
    let mut v = vec![a % 10];
    v.extend_from_slice(&[b % 10, c % 10]);
    v.extend((0..(a % 3)).map(|i| i + 1));
    v.extend(vec![9u64; (b % 2) as usize]);
    let mut w = vec![5u64];
    w.append(&mut v);
    w.len() as i128 * 100000000000000 + digits(&w) + v.len() as i128
}

#[inline(never)]
pub fn truncate_swap(a: u64, b: u64, c: u64) -> i128 {
    let mut v = base(a, b, c);
    // swap panics when an index is out of range
    v.swap((a % 4) as usize, (b % 5) as usize);
    v.truncate((c % 6) as usize);
    v.len() as i128 * 100000000 + digits(&v)
}

#[inline(never)]
pub fn first_last(a: u64, b: u64, c: u64) -> i128 {
    let v = base(a, b, c);
    let s = &v[..(a % 5) as usize];
    let f = s.first().map_or(-1, |x| *x as i128);
    let l = s.last().map_or(-1, |x| *x as i128);
    let mut m = v.clone();
    if let Some(x) = m.first_mut() {
        *x += 10;
    }
    if let Some(x) = m.last_mut() {
        *x *= 2;
    }
    f * 100 + l * 10 + digits(&m) * 1000
}

#[inline(never)]
pub fn split_first_last(a: u64, b: u64, c: u64) -> i128 {
    let v = base(a, b, c);
    let s = &v[..(b % 5) as usize];
    let x = match s.split_first() {
        Some((h, rest)) => *h as i128 * 10 + rest.len() as i128,
        None => -1,
    };
    let y = match s.split_last() {
        Some((t, init)) => *t as i128 * 10 + init.iter().sum::<u64>() as i128,
        None => -1,
    };
    let (l, r) = v.split_at((c % 5) as usize);
    x * 10000 + y * 100 + l.len() as i128 * 10 + r.len() as i128
}

#[inline(never)]
pub fn concat_join_vecs(a: u64, b: u64, c: u64) -> i128 {
    let parts: Vec<Vec<u64>> = vec![vec![a % 10], vec![], vec![b % 10, c % 10]];
    let flat: Vec<u64> = parts.concat();
    let arrs = [[1u64, 2], [a % 5, b % 5]];
    let flat2 = arrs.concat();
    let joined: Vec<u64> = parts.join(&0);
    digits(&flat) * 100000000 + digits(&flat2) * 100 + joined.len() as i128
}

#[inline(never)]
pub fn binary_search_case(a: u64, b: u64, c: u64) -> i128 {
    let mut v = base(a, b, c);
    v.sort();
    v.dedup();
    match v.binary_search(&(c % 12)) {
        Ok(i) => i as i128,
        Err(i) => -(i as i128) - 1,
    }
}

#[inline(never)]
pub fn index_panic(a: u64, b: u64, c: u64) -> i128 {
    let v = base(a, b, c);
    // panics when a % 6 >= 4
    let x = v[(a % 6) as usize];
    let s = &v[1..(b % 6) as usize];
    x as i128 * 100 + s.len() as i128
}

#[inline(never)]
pub fn get_variants(a: u64, b: u64, c: u64) -> i128 {
    let mut v = base(a, b, c);
    let g = v.get((a % 7) as usize).copied();
    let r = v.get(1..(b % 7) as usize).map(|s| s.len());
    if let Some(x) = v.get_mut((c % 7) as usize) {
        *x = 55;
    }
    g.map_or(-1, |x| x as i128) * 1000 + r.map_or(-1, |n| n as i128) * 100 + v.iter().filter(|x| **x == 55).count() as i128
}

#[inline(never)]
pub fn to_vec_with_capacity(a: u64, b: u64, c: u64) -> i128 {
    let arr = [a % 10, b % 10, c % 10];
    let copy = arr[..(a % 4) as usize].to_vec();
    let mut w: Vec<u64> = Vec::with_capacity(8);
    let empty_before = w.is_empty();
    for x in &copy {
        w.push(*x * 2);
    }
    let cap_ok = w.capacity() >= 8;
    digits(&w) * 100 + w.len() as i128 * 10 + empty_before as i128 + 2 * cap_ok as i128
}

#[inline(never)]
pub fn vec_repeat_macro(a: u64, b: u64, c: u64) -> i128 {
    let n = (a % 5) as usize;
    let mut v = vec![b % 10; n];
    if let Some(x) = v.get_mut(0) {
        *x = c % 10;
    }
    let z = vec![0u8; 3];
    digits(&v) * 10 + z.len() as i128 + v.is_empty() as i128 * 5
}

#[inline(never)]
pub fn drain_clear(a: u64, b: u64, c: u64) -> i128 {
    let mut v = base(a, b, c);
    let drained: Vec<u64> = v.drain(..).collect();
    let was_empty = v.is_empty();
    let mut w = drained.clone();
    let k = (a % 5) as usize;
    let mid: Vec<u64> = w.drain(k.min(2)..k.max(2).min(4)).collect();
    let mut u = drained.clone();
    u.clear();
    digits(&drained) * 10000 + digits(&w) % 10000 * 10 + mid.len() as i128 + was_empty as i128 * 5 + u.len() as i128
}

#[inline(never)]
pub fn reverse_and_rev_iter(a: u64, b: u64, c: u64) -> i128 {
    let mut v = base(a, b, c);
    let r: Vec<u64> = v.iter().rev().copied().collect();
    v.reverse();
    let same = v == r;
    digits(&v) * 10 + same as i128
}

#[inline(never)]
pub fn starts_ends_with(a: u64, b: u64, c: u64) -> i128 {
    let v = base(a, b, c);
    let p = v.starts_with(&[a % 10, b % 10]);
    let q = v.starts_with(&[c % 10]);
    let r = v.ends_with(&[1]);
    let e = v.starts_with(&[]);
    p as i128 + 2 * q as i128 + 4 * r as i128 + 8 * e as i128
}

#[inline(never)]
pub fn join_strings(a: u64, b: u64, c: u64) -> i128 {
    let names: Vec<String> = base(a, b, c)
        .iter()
        .take((a % 5) as usize)
        .map(|x| format!("n{}", x * x))
        .collect();
    let joined = names.join(",");
    let cat = names.concat();
    joined.len() as i128 * 100 + cat.len() as i128
}

#[inline(never)]
pub fn iter_mut_case(a: u64, b: u64, c: u64) -> i128 {
    let mut v = base(a, b, c);
    for x in v.iter_mut() {
        if *x % 2 == 0 {
            *x += 1;
        } else {
            *x *= 3;
        }
    }
    for x in &mut v {
        *x %= 50;
    }
    digits(&v)
}

#[inline(never)]
pub fn vec_of_structs(a: u64, b: u64, c: u64) -> i128 {
    #[derive(Clone, Debug, PartialEq)]
    struct Voter {
        addr: String,
        weight: u64,
    }
    let mut voters = vec![
        Voter { addr: "alice".to_string(), weight: a % 10 },
        Voter { addr: "bob".to_string(), weight: b % 10 },
        Voter { addr: "carol".to_string(), weight: c % 10 },
    ];
    voters.retain(|v| v.weight > 0);
    voters.sort_by(|x, y| y.weight.cmp(&x.weight).then_with(|| x.addr.cmp(&y.addr)));
    let total: u64 = voters.iter().map(|v| v.weight).sum();
    let top = voters.first().map_or(0, |v| v.addr.len());
    total as i128 * 100 + top as i128 * 10 + voters.len() as i128
}

#[inline(never)]
pub fn slice_copy_fill(a: u64, b: u64, c: u64) -> i128 {
    let mut arr = [0u64; 4];
    arr[..2].copy_from_slice(&[a % 10, b % 10]);
    arr[2..].fill(c % 10);
    let total: u64 = arr.iter().sum();
    let rotated = {
        let mut r = arr;
        r.rotate_left((a % 4) as usize);
        r
    };
    digits(&rotated) * 100 + total as i128
}

crate::cases!(vecs:
    push_pop, insert_remove, swap_remove_case, retain_case, sort_variants, sort_by_key_case,
    dedup_contains, extend_variants, truncate_swap, first_last, split_first_last,
    concat_join_vecs, binary_search_case, index_panic, get_variants, to_vec_with_capacity,
    vec_repeat_macro, drain_clear, reverse_and_rev_iter, starts_ends_with, join_strings,
    iter_mut_case, vec_of_structs, slice_copy_fill,
);
