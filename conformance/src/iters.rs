//! Theme 6: iterator adaptors over small Vecs / arrays (length at most 5).

/// Up to five small values derived from the inputs; length is `a % 6`.
fn small(a: u64, b: u64, c: u64) -> Vec<u64> {
    let all = [b % 20, c % 20, (a / 6) % 20, (b % 1000 + c % 1000) % 20, (a % 1000 + b % 1000 + 7) % 20];
    all[..(a % 6) as usize].to_vec()
}

fn opt_i(o: Option<u64>) -> i128 {
    o.map_or(-1, |v| v as i128)
}

#[inline(never)]
pub fn map_sum(a: u64, b: u64, c: u64) -> i128 {
    let v = small(a, b, c);
    let s: u64 = v.iter().map(|x| x * 3 + 1).sum();
    s as i128
}

#[inline(never)]
pub fn filter_count(a: u64, b: u64, c: u64) -> i128 {
    let v = small(a, b, c);
    let evens = v.iter().filter(|x| **x % 2 == 0).count();
    let big: Vec<u64> = v.iter().copied().filter(|x| *x > 10).collect();
    evens as i128 * 100 + big.len() as i128 * 10 + big.first().map_or(0, |x| *x as i128)
}

#[inline(never)]
pub fn filter_map_case(a: u64, b: u64, c: u64) -> i128 {
    let v = small(a, b, c);
    let r: Vec<u64> = v.iter().filter_map(|x| x.checked_sub(5)).collect();
    r.iter().sum::<u64>() as i128 + r.len() as i128 * 1000
}

#[inline(never)]
pub fn product_case(a: u64, b: u64, c: u64) -> i128 {
    // product of raw values: panics on overflow for big inputs
    let v = [a, b, c];
    let n = (a % 4) as usize;
    let p: u64 = v.iter().take(n).product();
    p as i128
}

#[inline(never)]
pub fn fold_case(a: u64, b: u64, c: u64) -> i128 {
    let v = small(a, b, c);
    let (lo, hi) = v.iter().fold((u64::MAX, 0u64), |(lo, hi), x| (lo.min(*x), hi.max(*x)));
    let acc = v.iter().fold(0i128, |acc, x| acc * 21 + *x as i128);
    acc + (hi as i128) * 7 + (lo == u64::MAX) as i128
}

#[inline(never)]
pub fn try_fold_case(a: u64, b: u64, c: u64) -> i128 {
    let v = [a, b, c, a];
    let n = (c % 5) as usize;
    let r: Option<u64> = v.iter().take(n).try_fold(0u64, |acc, x| acc.checked_add(*x));
    opt_i(r)
}

#[inline(never)]
pub fn try_for_each_case(a: u64, b: u64, c: u64) -> i128 {
    let v = small(a, b, c);
    let mut seen = 0u64;
    let r: Result<(), u64> = v.iter().try_for_each(|x| {
        if *x == 13 || *x == 7 {
            Err(*x)
        } else {
            seen += 1;
            Ok(())
        }
    });
    match r {
        Ok(()) => seen as i128,
        Err(e) => -(e as i128) * 10 - seen as i128,
    }
}

#[inline(never)]
pub fn any_all(a: u64, b: u64, c: u64) -> i128 {
    let v = small(a, b, c);
    let any_zero = v.iter().any(|x| *x == 0);
    let all_small = v.iter().all(|x| *x < 15);
    let any_eq = v.iter().any(|x| *x == c % 20);
    any_zero as i128 + 2 * all_small as i128 + 4 * any_eq as i128
}

#[inline(never)]
pub fn position_find(a: u64, b: u64, c: u64) -> i128 {
    let v = small(a, b, c);
    let p = v.iter().position(|x| *x > 9);
    let rp = v.iter().rposition(|x| *x % 2 == 1);
    let f = v.iter().find(|x| **x % 3 == 0);
    p.map_or(-1, |i| i as i128) + rp.map_or(-1, |i| i as i128) * 10 + f.map_or(-1, |x| *x as i128) * 100
}

#[inline(never)]
pub fn find_map_case(a: u64, b: u64, c: u64) -> i128 {
    let v = small(a, b, c);
    let r = v.iter().find_map(|x| if *x > 4 { x.checked_mul(*x) } else { None });
    opt_i(r)
}

#[inline(never)]
pub fn rev_zip(a: u64, b: u64, c: u64) -> i128 {
    let v = small(a, b, c);
    let w = [1u64, 2, 3];
    let dot: u64 = v.iter().rev().zip(w.iter()).map(|(x, y)| x * y).sum();
    let pairs = v.iter().zip(v.iter().skip(1)).filter(|(x, y)| x <= y).count();
    dot as i128 * 10 + pairs as i128
}

#[inline(never)]
pub fn enumerate_case(a: u64, b: u64, c: u64) -> i128 {
    let v = small(a, b, c);
    let mut acc: i128 = 0;
    for (i, x) in v.iter().enumerate() {
        if i % 2 == 0 {
            acc += *x as i128 * (i as i128 + 1);
        } else {
            acc -= *x as i128;
        }
    }
    acc
}

#[inline(never)]
pub fn chain_take_skip(a: u64, b: u64, c: u64) -> i128 {
    let v = small(a, b, c);
    let extra = [100u64, 200];
    let joined: Vec<u64> = v.iter().chain(extra.iter()).copied().collect();
    let t: u64 = joined.iter().take((b % 4) as usize).sum();
    let s: u64 = joined.iter().skip((c % 4) as usize).sum();
    joined.len() as i128 * 10000 + t as i128 * 3 + s as i128
}

#[inline(never)]
pub fn take_skip_while(a: u64, b: u64, c: u64) -> i128 {
    let v = small(a, b, c);
    let head: Vec<&u64> = v.iter().take_while(|x| **x < 12).collect();
    let tail: Vec<u64> = v.iter().skip_while(|x| **x < 12).cloned().collect();
    head.len() as i128 * 100 + tail.len() as i128 * 10 + tail.first().map_or(0, |x| *x as i128 % 10)
}

#[inline(never)]
pub fn map_while_case(a: u64, b: u64, c: u64) -> i128 {
    let v = small(a, b, c);
    let r: Vec<u64> = v.iter().map_while(|x| x.checked_sub(3)).collect();
    r.len() as i128 * 100 + r.iter().sum::<u64>() as i128
}

#[inline(never)]
pub fn step_by_case(a: u64, b: u64, c: u64) -> i128 {
    let v = [a % 7, b % 7, c % 7, 3, 5];
    let step = (a % 3 + 1) as usize;
    let s: u64 = v.iter().step_by(step).sum();
    let n = (0..(b % 9)).step_by(2).count();
    s as i128 * 10 + n as i128
}

#[inline(never)]
pub fn flat_map_flatten(a: u64, b: u64, c: u64) -> i128 {
    let v = small(a, b, c);
    let fm: Vec<u64> = v.iter().take(3).flat_map(|x| vec![*x, *x + 1]).collect();
    let nested = vec![vec![a % 5], vec![], vec![b % 5, c % 5]];
    let flat: Vec<u64> = nested.into_iter().flatten().collect();
    let opts = [Some(a % 3), None, Some(c % 3)];
    let somes: u64 = opts.iter().flatten().sum();
    fm.iter().sum::<u64>() as i128 + flat.len() as i128 * 1000 + flat.iter().sum::<u64>() as i128 * 100 + somes as i128 * 10000
}

#[inline(never)]
pub fn windows_case(a: u64, b: u64, c: u64) -> i128 {
    let v = small(a, b, c);
    let rising = v.windows(2).filter(|w| w[0] < w[1]).count();
    let max_gap = v.windows(2).map(|w| w[0].abs_diff(w[1])).max();
    rising as i128 * 100 + opt_i(max_gap)
}

#[inline(never)]
pub fn chunks_case(a: u64, b: u64, c: u64) -> i128 {
    let v = small(a, b, c);
    let sums: Vec<u64> = v.chunks(2).map(|ch| ch.iter().sum()).collect();
    let last_len = v.chunks(2).last().map_or(0, |ch| ch.len());
    sums.len() as i128 * 1000 + sums.iter().max().map_or(0, |x| *x as i128) * 10 + last_len as i128
}

#[inline(never)]
pub fn min_max(a: u64, b: u64, c: u64) -> i128 {
    let v = small(a, b, c);
    let mn = v.iter().min();
    let mx = v.iter().copied().max();
    mn.map_or(-1, |x| *x as i128) * 100 + opt_i(mx)
}

#[derive(Debug, Clone, PartialEq)]
struct Bid {
    bidder: u64,
    price: u64,
}

#[inline(never)]
pub fn min_max_by_key(a: u64, b: u64, c: u64) -> i128 {
    let bids: Vec<Bid> = small(a, b, c)
        .into_iter()
        .enumerate()
        .map(|(i, p)| Bid { bidder: i as u64 + 1, price: p })
        .collect();
    let hi = bids.iter().max_by_key(|x| x.price);
    let lo = bids.iter().min_by_key(|x| x.price);
    let mb = bids.iter().max_by(|x, y| (x.price % 5).cmp(&(y.price % 5)));
    hi.map_or(-1, |x| x.bidder as i128) * 100 + lo.map_or(-1, |x| x.bidder as i128) * 10 + mb.map_or(-1, |x| x.bidder as i128)
}

#[inline(never)]
pub fn last_nth_count(a: u64, b: u64, c: u64) -> i128 {
    let v = small(a, b, c);
    let l = v.iter().last().copied();
    let n = v.iter().nth((b % 5) as usize).copied();
    let cnt = v.iter().count();
    opt_i(l) * 100 + opt_i(n) * 10 + cnt as i128
}

#[inline(never)]
pub fn collect_result_vec(a: u64, b: u64, c: u64) -> i128 {
    let v = small(a, b, c);
    let r: Result<Vec<u64>, String> = v
        .iter()
        .map(|x| if *x == 19 { Err(format!("bad {}", x)) } else { Ok(x * 2) })
        .collect();
    match r {
        Ok(w) => w.iter().sum::<u64>() as i128,
        Err(e) => -(e.len() as i128),
    }
}

#[inline(never)]
pub fn collect_option_vec(a: u64, b: u64, c: u64) -> i128 {
    let v = small(a, b, c);
    let r: Option<Vec<u64>> = v.iter().map(|x| x.checked_sub(2)).collect();
    match r {
        Some(w) => w.len() as i128 * 100 + w.iter().sum::<u64>() as i128,
        None => -1,
    }
}

#[inline(never)]
pub fn unzip_partition(a: u64, b: u64, c: u64) -> i128 {
    let v = small(a, b, c);
    let (idx, vals): (Vec<usize>, Vec<u64>) = v.iter().enumerate().map(|(i, x)| (i, *x)).unzip();
    let (even, odd): (Vec<u64>, Vec<u64>) = v.iter().partition(|x| **x % 2 == 0);
    idx.iter().sum::<usize>() as i128 * 1000 + vals.len() as i128 * 100 + even.len() as i128 * 10 + odd.iter().sum::<u64>() as i128
}

#[inline(never)]
pub fn peekable_case(a: u64, b: u64, c: u64) -> i128 {
    let v = small(a, b, c);
    let mut it = v.iter().peekable();
    let mut groups = 0i128;
    let mut acc = 0i128;
    while let Some(x) = it.next() {
        acc += *x as i128;
        match it.peek() {
            Some(nx) if **nx == *x => {}
            Some(_) => groups += 1,
            None => groups += 10,
        }
    }
    let mut it2 = v.iter().peekable();
    let skipped = it2.next_if(|x| **x < 10).is_some();
    acc * 100 + groups + skipped as i128 * 100000
}

#[inline(never)]
pub fn by_ref_case(a: u64, b: u64, c: u64) -> i128 {
    let v = small(a, b, c);
    let mut it = v.iter();
    let head: u64 = it.by_ref().take(2).sum();
    let rest: Vec<u64> = it.copied().collect();
    head as i128 * 100 + rest.len() as i128 * 10 + rest.last().map_or(0, |x| *x as i128 % 10)
}

fn checked_total(xs: &[u64], scale: u64) -> Option<u64> {
    let mut total = 0u64;
    for x in xs {
        let scaled = x.checked_mul(scale)?;
        total = total.checked_add(scaled)?;
    }
    Some(total)
}

#[inline(never)]
pub fn checked_sum_question(a: u64, b: u64, c: u64) -> i128 {
    let r = checked_total(&[a, b, c], c % 4 + 1);
    let s: Option<u64> = [a, b].iter().map(|x| x.checked_add(c)).sum();
    opt_i(r) + if s.is_some() { 1 } else { -1 }
}

#[inline(never)]
pub fn sum_result_items(a: u64, b: u64, c: u64) -> i128 {
    let v = small(a, b, c);
    let r: Result<u64, u8> = v.iter().map(|x| if *x > 17 { Err(*x as u8) } else { Ok(*x) }).sum();
    match r {
        Ok(s) => s as i128,
        Err(e) => -(e as i128),
    }
}

#[inline(never)]
pub fn into_iter_owned(a: u64, b: u64, c: u64) -> i128 {
    let v: Vec<String> = small(a, b, c).into_iter().map(|x| x.to_string()).collect();
    let total_len: usize = v.iter().map(|s| s.len()).sum();
    let two_digit = v.into_iter().filter(|s| s.len() == 2).count();
    total_len as i128 * 10 + two_digit as i128
}

#[inline(never)]
pub fn array_iter_by_value(a: u64, b: u64, c: u64) -> i128 {
    let arr = [a % 100, b % 100, c % 100];
    let doubled: Vec<u64> = arr.into_iter().map(|x| x * 2).collect();
    let arr2: [u64; 3] = arr.map(|x| x + 1);
    doubled.iter().sum::<u64>() as i128 * 1000 + arr2.iter().product::<u64>() as i128
}

#[inline(never)]
pub fn scan_inspect_cycle(a: u64, b: u64, c: u64) -> i128 {
    let v = small(a, b, c);
    let running: Vec<u64> = v
        .iter()
        .scan(0u64, |st, x| {
            *st += *x;
            Some(*st)
        })
        .collect();
    let mut touched = 0;
    let n = v.iter().inspect(|_| touched += 1).filter(|x| **x > 3).count();
    let cyc: u64 = [1u64, 2].iter().cycle().take((b % 5) as usize).sum();
    running.last().map_or(0, |x| *x as i128) * 1000 + touched as i128 * 100 + n as i128 * 10 + cyc as i128
}

#[inline(never)]
pub fn iter_eq_cmp(a: u64, b: u64, c: u64) -> i128 {
    let v = small(a, b, c);
    let w = small(a, c, b);
    let same = v.iter().eq(w.iter());
    let lt = v.iter().lt(w.iter());
    let veq = v == w;
    same as i128 + 2 * lt as i128 + 4 * veq as i128
}

crate::cases!(iters:
    map_sum, filter_count, filter_map_case, product_case, fold_case, try_fold_case,
    try_for_each_case, any_all, position_find, find_map_case, rev_zip, enumerate_case,
    chain_take_skip, take_skip_while, map_while_case, step_by_case, flat_map_flatten,
    windows_case, chunks_case, min_max, min_max_by_key, last_nth_count, collect_result_vec,
    collect_option_vec, unzip_partition, peekable_case, by_ref_case, checked_sum_question,
    sum_result_items, into_iter_owned, array_iter_by_value, scan_inspect_cycle, iter_eq_cmp,
);
