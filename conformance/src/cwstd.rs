//! Theme 11: cosmwasm-std value types.

use cosmwasm_std::{
    attr, coin, coins, from_json, has_coins, to_json_binary, to_json_vec, Addr, Attribute, BankMsg,
    Binary, BlockInfo, Coin, CosmosMsg, Decimal, DistributionMsg, Empty, Event, OverflowError,
    OverflowOperation, ReplyOn, Response, StakingMsg, StdError, StdResult, SubMsg, Timestamp,
    Uint128, Uint64, WasmMsg,
};
use serde::{Deserialize, Serialize};

fn u128_i(x: Uint128) -> i128 {
    // only used on values known to fit comfortably
    x.u128() as i128
}

#[inline(never)]
pub fn uint128_new_and_from(a: u64, b: u64, c: u64) -> i128 {
    let x = Uint128::new(a as u128);
    let y = Uint128::from(b);
    let z: Uint128 = (c as u128).into();
    let w = Uint128::from(7u32);
    let zero = Uint128::zero();
    let eq = x == y;
    u128_i(x) + u128_i(y) * 2 + u128_i(z) * 3 + u128_i(w) + zero.is_zero() as i128 + eq as i128 * 100
}

#[inline(never)]
pub fn uint128_checked_add_sub(a: u64, b: u64, c: u64) -> i128 {
    let x = Uint128::new(a as u128);
    let y = Uint128::new(b as u128);
    let s = match x.checked_add(y) {
        Ok(v) => v,
        Err(_) => return -1,
    };
    match s.checked_sub(Uint128::new(c as u128 * 3)) {
        Ok(v) => u128_i(v),
        Err(OverflowError { operation: OverflowOperation::Sub, .. }) => -2,
        Err(_) => -3,
    }
}

#[inline(never)]
pub fn uint128_checked_mul_div(a: u64, b: u64, c: u64) -> i128 {
    let big = Uint128::new(a as u128) * Uint128::new(u64::MAX as u128);
    let p = match big.checked_mul(Uint128::new(b as u128)) {
        Ok(v) => v,
        Err(e) => return -1 - (e.operation == OverflowOperation::Mul) as i128,
    };
    match p.checked_div(Uint128::new(c as u128)) {
        Ok(q) => (q.u128() % 1_000_000_007) as i128,
        Err(_) => -10,
    }
}

#[inline(never)]
pub fn uint128_saturating(a: u64, b: u64, c: u64) -> i128 {
    let x = Uint128::new(a as u128);
    let y = Uint128::new(b as u128);
    let d = x.saturating_sub(y);
    let m = Uint128::MAX.saturating_add(Uint128::new(c as u128));
    let top = m == Uint128::MAX;
    let sm = Uint128::MAX.saturating_mul(Uint128::new(c as u128 % 2));
    u128_i(d) + top as i128 + sm.is_zero() as i128 * 2
}

#[inline(never)]
pub fn uint128_operators_panic(a: u64, b: u64, c: u64) -> i128 {
    let x = Uint128::new(a as u128);
    let y = Uint128::new(b as u128);
    // `-` panics on underflow
    let d = x - y;
    let mut acc = d + Uint128::new(c as u128);
    acc += Uint128::one();
    // `+` panics on overflow when a == u64::MAX and c is odd (top is Uint128::MAX, acc >= 1)
    let top = if c % 2 == 1 && a == u64::MAX { Uint128::MAX } else { Uint128::zero() };
    let t = top + acc;
    (t.u128() % (1u128 << 100)) as i128
}

#[inline(never)]
pub fn uint128_multiply_ratio(a: u64, b: u64, c: u64) -> i128 {
    let x = Uint128::new(a as u128);
    // panics when c == 0
    let r = x.multiply_ratio(b as u128, c as u128);
    let r2 = match x.checked_multiply_ratio(c as u128, b as u128) {
        Ok(v) => (v.u128() % 1000) as i128,
        Err(_) => -1,
    };
    (r.u128() % (1u128 << 90)) as i128 * 10000 + r2
}

#[inline(never)]
pub fn uint128_mul_floor(a: u64, b: u64, c: u64) -> i128 {
    let amount = Uint128::new(a as u128);
    let fee = Decimal::percent(b % 150);
    let f = amount.mul_floor(fee);
    let g = amount.mul_ceil(Decimal::permille(c % 1000));
    u128_i(f) + u128_i(g) * 3
}

#[inline(never)]
pub fn uint128_comparisons(a: u64, b: u64, c: u64) -> i128 {
    let x = Uint128::new(a as u128);
    let y = Uint128::new(b as u128);
    let z = Uint128::new(c as u128);
    let lt = x < y;
    let ge = y >= z;
    let mx = x.max(y).max(z);
    let is_max = Uint128::new(a as u128 * b as u128 + c as u128) == Uint128::MAX;
    lt as i128 + 2 * ge as i128 + 4 * is_max as i128 + u128_i(mx) * 8 + x.abs_diff(z).is_zero() as i128 * 3
}

#[inline(never)]
pub fn uint128_sum_and_try_into(a: u64, b: u64, c: u64) -> i128 {
    let parts = vec![Uint128::new(a as u128), Uint128::new(b as u128), Uint128::new(c as u128)];
    let total: Uint128 = parts.iter().sum();
    let back: Result<Uint64, _> = u64::try_from(total.u128()).map(Uint64::new);
    let s = total.to_string();
    match back {
        Ok(v) => v.u64() as i128 + s.len() as i128,
        Err(_) => -(s.len() as i128),
    }
}

#[inline(never)]
pub fn uint64_ops(a: u64, b: u64, c: u64) -> i128 {
    let x = Uint64::new(a);
    let y = Uint64::from(b as u32);
    let s = x.checked_add(y).map(|v| v.u64() as i128).unwrap_or(-1);
    let d = x.checked_sub(Uint64::new(c)).map(|v| v.u64() as i128).unwrap_or(-1);
    let w = x.wrapping_add(Uint64::new(c)).u64();
    let wide: Uint128 = x.full_mul(y);
    s + d * 2 + w as i128 + (wide.u128() % 1000) as i128 + Uint64::MAX.u64() as i128 * (a == 0) as i128
}

#[inline(never)]
pub fn decimal_constructors(a: u64, b: u64, c: u64) -> i128 {
    let p = Decimal::percent(a % 500);
    let m = Decimal::permille(b % 5000);
    let one = Decimal::one();
    let zero = Decimal::zero();
    let bps = Decimal::bps(c % 20000);
    let k = (p > one) as i128 + 2 * (m == p) as i128 + 4 * zero.is_zero() as i128 + 8 * (bps >= m) as i128;
    u128_i(p.atomics()) / 1_000_000_000_000 + u128_i(m.atomics()) / 1_000_000_000_000_000 * 1_000_000 + k * 1_000_000_000_000
}

#[inline(never)]
pub fn decimal_from_ratio(a: u64, b: u64, c: u64) -> i128 {
    // panics when b % 10 == 0
    let r = Decimal::from_ratio(a % 1000, b % 10);
    let chk = Decimal::checked_from_ratio(a, c);
    let k = match chk {
        Ok(d) => (d.atomics().u128() % 1000) as i128,
        Err(_) => -1,
    };
    u128_i(r.atomics()) + k
}

#[inline(never)]
pub fn decimal_checked_ops(a: u64, b: u64, c: u64) -> i128 {
    let x = Decimal::from_ratio(a, 1u64);
    let y = Decimal::percent(b % 1000);
    let s = x.checked_add(y).map(|d| (d.atomics().u128() % 1_000_003) as i128).unwrap_or(-1);
    let d = y.checked_sub(Decimal::percent(c % 1000)).map(|d| u128_i(d.atomics())).unwrap_or(-2);
    let m = x.checked_mul(x).map(|d| (d.atomics().u128() % 1_000_003) as i128).unwrap_or(-3);
    let q = y.checked_div(Decimal::percent(c % 4)).map(|d| (d.atomics().u128() % 1_000_003) as i128).unwrap_or(-4);
    s + d * 2 + m * 3 + q * 5
}

#[inline(never)]
pub fn decimal_operators(a: u64, b: u64, c: u64) -> i128 {
    let x = Decimal::percent(a % 300);
    let y = Decimal::permille(b % 3000);
    let prod = x * y;
    let sum = x + y;
    // `-` panics on underflow
    let diff = sum - Decimal::percent(c % 700);
    let fl = prod.floor().atomics();
    let up = diff.to_uint_ceil();
    u128_i(prod.atomics()) % 1_000_000_007 + u128_i(fl) / 1_000_000_000_000_000_000 * 10 + u128_i(up) * 1_000_000_000_000
}

#[inline(never)]
pub fn decimal_threshold_check(a: u64, b: u64, c: u64) -> i128 {
    let total = a % 1000 + 1;
    let yes = b % (total + 1);
    let threshold = Decimal::percent(c % 101);
    let needed = Uint128::new(total as u128).mul_ceil(threshold);
    let passed = Uint128::new(yes as u128) >= needed;
    let ratio = Decimal::from_ratio(yes, total);
    passed as i128 + (ratio >= threshold) as i128 * 2 + u128_i(needed) * 10
}

#[inline(never)]
pub fn coin_construction(a: u64, b: u64, c: u64) -> i128 {
    let c1 = coin(a as u128, "uatom");
    let c2 = Coin { denom: if b % 2 == 0 { "uatom".to_string() } else { "ujuno".to_string() }, amount: Uint128::new(a as u128) };
    let c3 = Coin::new(c as u128, "uatom");
    let v = coins(b as u128, "ujuno");
    let same = c1 == c2;
    let same_denom = c1.denom == c3.denom;
    let bigger = c1.amount > c3.amount;
    let disp = c1.to_string().len();
    same as i128 + 2 * same_denom as i128 + 4 * bigger as i128 + v.len() as i128 * 8 + u128_i(v[0].amount) % 1000 * 100 + disp as i128 * 1000000
}

#[inline(never)]
pub fn coins_lookup(a: u64, b: u64, c: u64) -> i128 {
    let funds = vec![coin(a as u128 % 1000, "uatom"), coin(b as u128 % 1000, "ujuno")];
    let want = coin(c as u128 % 1000, if c % 2 == 0 { "uatom" } else { "uosmo" });
    let has = has_coins(&funds, &want);
    let found = funds.iter().find(|x| x.denom == want.denom).map(|x| x.amount);
    let total: Uint128 = funds.iter().map(|x| x.amount).sum();
    has as i128 + found.map_or(-1, u128_i) * 10 + u128_i(total) * 100000
}

#[inline(never)]
pub fn addr_equality(a: u64, b: u64, c: u64) -> i128 {
    let x = Addr::unchecked(format!("addr{}", a % 5));
    let y = Addr::unchecked(format!("addr{}", b % 5));
    let owner = Addr::unchecked("addr0");
    let eq = x == y;
    let is_owner = x == owner;
    let s_eq = y.as_str() == "addr1";
    let lt = x < y;
    let st: String = x.clone().into_string();
    eq as i128 + 2 * is_owner as i128 + 4 * s_eq as i128 + 8 * lt as i128 + st.len() as i128 * 100 + x.as_bytes().len() as i128 * 10000 + (c % 2) as i128 * 16
}

#[inline(never)]
pub fn timestamp_ops(a: u64, b: u64, c: u64) -> i128 {
    let t = Timestamp::from_seconds(a % 1_000_000_000);
    let later = t.plus_seconds(b % 100_000);
    // panics when subtracting past zero
    let earlier = t.minus_seconds(c % 1_000_000_000);
    let n = Timestamp::from_nanos(b % 5_000_000_000);
    let cmp = (later > t) as i128 + 2 * (earlier <= t) as i128 + 4 * (n < t) as i128;
    later.seconds() as i128 + earlier.seconds() as i128 * 3 + (later.nanos() % 1000) as i128 + n.subsec_nanos() as i128 % 1000 + cmp * 10_000_000_000_000
}

#[inline(never)]
pub fn timestamp_overflow(a: u64, b: u64, c: u64) -> i128 {
    // from_seconds multiplies by 1e9: panics for big a
    let t = Timestamp::from_seconds(a);
    let u = t.plus_nanos(b % 1000).plus_minutes(c % 10);
    u.seconds() as i128 * 1000 + (u.subsec_nanos() % 1000) as i128
}

#[inline(never)]
pub fn block_info_struct(a: u64, b: u64, c: u64) -> i128 {
    let block = BlockInfo {
        height: a % 1_000_000,
        time: Timestamp::from_seconds(b % 1_000_000),
        chain_id: format!("chain-{}", c % 10),
    };
    let next = BlockInfo { height: block.height + 1, time: block.time.plus_seconds(5), ..block.clone() };
    let same_chain = next.chain_id == block.chain_id;
    next.height as i128 + next.time.seconds() as i128 * 10_000_000 + same_chain as i128 * 100_000_000_000_000 + (block == next) as i128
}

fn risky(a: u64, b: u64) -> StdResult<Uint128> {
    if a % 5 == 0 {
        return Err(StdError::generic_err(format!("bad input {}", a % 100)));
    }
    if a % 5 == 1 {
        return Err(StdError::not_found("config"));
    }
    let x = Uint128::new(a as u128).checked_sub(Uint128::new(b as u128))?; // OverflowError -> StdError
    let y = x.checked_div(Uint128::new((a % 5 - 2) as u128))?; // DivideByZeroError -> StdError
    Ok(y)
}

#[inline(never)]
pub fn std_error_variants(a: u64, b: u64, c: u64) -> i128 {
    let r = if c % 7 == 0 { Err(StdError::overflow(OverflowError::new(OverflowOperation::Add))) } else { risky(a, b) };
    match r {
        Ok(v) => u128_i(v),
        Err(StdError::GenericErr { msg, .. }) => -(msg.len() as i128),
        Err(StdError::NotFound { kind, .. }) => -100 - kind.len() as i128,
        Err(StdError::Overflow { source, .. }) => match source.operation {
            OverflowOperation::Add => -200,
            OverflowOperation::Sub => -201,
            _ => -202,
        },
        Err(StdError::DivideByZero { .. }) => -300,
        Err(e) => -400 - e.to_string().len() as i128,
    }
}

#[inline(never)]
pub fn binary_len(a: u64, b: u64, c: u64) -> i128 {
    let v: Vec<u8> = (0..(a % 6)).map(|i| (i + b) as u8).collect();
    let bin = Binary::from(v.clone());
    let arr = Binary::from([c as u8, 2, 3]);
    let empty = Binary::default();
    let eq = bin == v;
    let first = bin.as_slice().first().copied().unwrap_or(0);
    let b64 = bin.to_base64();
    bin.len() as i128 + arr.len() as i128 * 10 + empty.is_empty() as i128 * 100 + eq as i128 * 1000 + first as i128 * 10000 + b64.len() as i128 * 10000000
}

#[derive(Serialize, Deserialize, Clone, Debug, PartialEq)]
struct Cfg {
    owner: String,
    limit: u64,
    amount: Uint128,
    memo: Option<String>,
}

#[derive(Serialize, Deserialize, Clone, Debug, PartialEq)]
#[serde(rename_all = "snake_case")]
enum ExecMsg {
    Deposit {},
    Withdraw { amount: Uint128 },
    SetLimit { limit: u64 },
}

#[inline(never)]
pub fn json_round_trip_struct(a: u64, b: u64, c: u64) -> i128 {
    let cfg = Cfg {
        owner: format!("addr{}", a % 100),
        limit: b,
        amount: Uint128::new(c as u128 * 3),
        memo: if a % 2 == 0 { Some("hi".to_string()) } else { None },
    };
    let bin = to_json_binary(&cfg).unwrap();
    let back: Cfg = from_json(&bin).unwrap();
    let ok = back == cfg;
    bin.len() as i128 * 10 + ok as i128 + (back.limit % 1000) as i128 * 100000
}

#[inline(never)]
pub fn json_round_trip_enum(a: u64, b: u64, c: u64) -> i128 {
    let msg = match a % 3 {
        0 => ExecMsg::Deposit {},
        1 => ExecMsg::Withdraw { amount: Uint128::new(b as u128) },
        _ => ExecMsg::SetLimit { limit: c },
    };
    let bytes = to_json_vec(&msg).unwrap();
    let back: ExecMsg = from_json(&bytes).unwrap();
    let bad: StdResult<ExecMsg> = from_json(b"{\"unknown\":{}}");
    let k = match back {
        ExecMsg::Deposit {} => 1,
        ExecMsg::Withdraw { amount } => 2 + (amount.u128() % 100) as i128 * 10,
        ExecMsg::SetLimit { limit } => 3 + (limit % 100) as i128 * 10,
    };
    k + bytes.len() as i128 * 10000 + bad.is_err() as i128 * 10000000
}

#[inline(never)]
pub fn response_attributes(a: u64, b: u64, c: u64) -> i128 {
    let mut resp: Response = Response::new().add_attribute("action", "execute").add_attribute("sender", format!("addr{}", a % 10));
    if b % 2 == 0 {
        resp = resp.add_attribute("amount", (b % 1000).to_string());
    }
    let extra: Vec<Attribute> = (0..(c % 3)).map(|i| attr(format!("k{}", i), "v")).collect();
    resp = resp.add_attributes(extra);
    resp = resp.add_event(Event::new("custom").add_attribute("x", "y"));
    let amt = resp.attributes.iter().find(|at| at.key == "amount").map_or(0, |at| at.value.len());
    resp.attributes.len() as i128 + amt as i128 * 10 + resp.events.len() as i128 * 100 + resp.data.is_none() as i128 * 1000
}

#[inline(never)]
pub fn response_messages(a: u64, b: u64, c: u64) -> i128 {
    let mut resp: Response = Response::new();
    for i in 0..(a % 4) {
        resp = resp.add_message(BankMsg::Send { to_address: format!("addr{}", i), amount: coins((b % 100 + i) as u128, "uatom") });
    }
    if c % 2 == 0 {
        resp = resp.add_message(BankMsg::Burn { amount: coins(1, "uatom") });
    }
    let total: u128 = resp
        .messages
        .iter()
        .map(|m| match &m.msg {
            CosmosMsg::Bank(BankMsg::Send { amount, .. }) => amount[0].amount.u128(),
            _ => 0,
        })
        .sum();
    resp.messages.len() as i128 + total as i128 * 10 + (resp.messages.iter().all(|m| m.reply_on == ReplyOn::Never)) as i128 * 100000
}

#[inline(never)]
pub fn submsg_fields(a: u64, b: u64, c: u64) -> i128 {
    let send = BankMsg::Send { to_address: "bob".to_string(), amount: coins(a as u128, "uatom") };
    let sm: SubMsg = match b % 4 {
        0 => SubMsg::new(send),
        1 => SubMsg::reply_on_error(send, c),
        2 => SubMsg::reply_on_success(send, c),
        _ => SubMsg::reply_always(send, c).with_gas_limit(a % 1000),
    };
    let ro = match sm.reply_on {
        ReplyOn::Always => 1,
        ReplyOn::Error => 2,
        ReplyOn::Success => 3,
        ReplyOn::Never => 4,
    };
    let resp: Response = Response::new().add_submessage(sm.clone());
    sm.id as i128 * 10 + ro + sm.gas_limit.map_or(0, |g| g as i128) * 1_000_000_000_000_000_000_000 + resp.messages.len() as i128 * 5
}

fn make_msg(k: u64, amt: u64) -> CosmosMsg {
    match k % 5 {
        0 => CosmosMsg::Bank(BankMsg::Send { to_address: "alice".to_string(), amount: coins(amt as u128, "uatom") }),
        1 => BankMsg::Burn { amount: coins(amt as u128, "uatom") }.into(),
        2 => WasmMsg::Execute { contract_addr: "contract".to_string(), msg: Binary::from(vec![1u8, 2, 3]), funds: vec![] }.into(),
        3 => StakingMsg::Delegate { validator: "val".to_string(), amount: coin(amt as u128, "ustake") }.into(),
        _ => DistributionMsg::WithdrawDelegatorReward { validator: "val".to_string() }.into(),
    }
}

#[inline(never)]
pub fn cosmos_msg_match(a: u64, b: u64, c: u64) -> i128 {
    let msg: CosmosMsg<Empty> = make_msg(a, b);
    let k = match &msg {
        CosmosMsg::Bank(BankMsg::Send { to_address, amount }) => to_address.len() as i128 + (amount[0].amount.u128() % 1000) as i128 * 10,
        CosmosMsg::Bank(BankMsg::Burn { amount }) => -(amount.len() as i128),
        CosmosMsg::Bank(_) => -50,
        CosmosMsg::Wasm(WasmMsg::Execute { msg, funds, .. }) => 100000 + msg.len() as i128 * 10 + funds.is_empty() as i128,
        CosmosMsg::Wasm(_) => 200000,
        CosmosMsg::Staking(StakingMsg::Delegate { amount, .. }) => 300000 + (amount.amount.u128() % 100) as i128,
        CosmosMsg::Staking(_) => 400000,
        CosmosMsg::Distribution(_) => 500000,
        _ => 900000,
    };
    k + (msg == make_msg(c, b)) as i128 * 10000000
}

crate::cases!(cwstd:
    uint128_new_and_from, uint128_checked_add_sub, uint128_checked_mul_div, uint128_saturating,
    uint128_operators_panic, uint128_multiply_ratio, uint128_mul_floor, uint128_comparisons,
    uint128_sum_and_try_into, uint64_ops, decimal_constructors, decimal_from_ratio,
    decimal_checked_ops, decimal_operators, decimal_threshold_check, coin_construction,
    coins_lookup, addr_equality, timestamp_ops, timestamp_overflow, block_info_struct,
    std_error_variants, binary_len, json_round_trip_struct, json_round_trip_enum,
    response_attributes, response_messages, submsg_fields, cosmos_msg_match,
);
