//! Theme 1: integer arithmetic, casts, conversions.

use std::convert::TryFrom;
use std::convert::TryInto;

#[inline(never)]
pub fn checked_add_basic(a: u64, b: u64, c: u64) -> i128 {
    match a.checked_add(b) {
        Some(s) => match s.checked_add(c) {
            Some(t) => t as i128,
            None => -2,
        },
        None => -1,
    }
}

#[inline(never)]
pub fn checked_sub_chain(a: u64, b: u64, c: u64) -> i128 {
    match a.checked_sub(b).and_then(|x| x.checked_sub(c)) {
        Some(v) => v as i128,
        None => -1,
    }
}

#[inline(never)]
pub fn checked_mul_basic(a: u64, b: u64, c: u64) -> i128 {
    match a.checked_mul(b) {
        Some(p) => p as i128 + c as i128,
        None => -(c as i128) - 1,
    }
}

#[inline(never)]
pub fn checked_div_rem(a: u64, b: u64, c: u64) -> i128 {
    let q = match a.checked_div(b) {
        Some(q) => q as i128,
        None => -1,
    };
    let r = match a.checked_rem(c) {
        Some(r) => r as i128,
        None => -1,
    };
    q * 7 + r
}

#[inline(never)]
pub fn checked_pow_small(a: u64, b: u64, c: u64) -> i128 {
    let e = (b % 8) as u32;
    match a.checked_pow(e) {
        Some(p) => p as i128 + c as i128,
        None => -(e as i128),
    }
}

#[inline(never)]
pub fn saturating_ops(a: u64, b: u64, c: u64) -> i128 {
    let x = a.saturating_add(b) as i128;
    let y = a.saturating_sub(c) as i128;
    let z = a.saturating_mul(b) as i128;
    x * 3 + y * 5 + z
}

#[inline(never)]
pub fn saturating_pow_case(a: u64, b: u64, c: u64) -> i128 {
    let p = (a % 1000).saturating_pow((b % 9) as u32);
    if p == u64::MAX {
        -1
    } else {
        p as i128 - (c % 3) as i128
    }
}

#[inline(never)]
pub fn wrapping_ops(a: u64, b: u64, c: u64) -> i128 {
    let x = a.wrapping_add(b) as i128;
    let y = a.wrapping_sub(c) as i128;
    let z = a.wrapping_mul(b) as i128;
    x + y * 2 + z * 3
}

#[inline(never)]
pub fn wrapping_neg_pow(a: u64, b: u64, c: u64) -> i128 {
    let n = a.wrapping_neg() as i128;
    let p = b.wrapping_pow((c % 5) as u32) as i128;
    n * 2 + p
}

#[inline(never)]
pub fn overflowing_add_sub(a: u64, b: u64, c: u64) -> i128 {
    let (s, o1) = a.overflowing_add(b);
    let (d, o2) = s.overflowing_sub(c);
    let flags = (o1 as i128) + 2 * (o2 as i128);
    d as i128 * 4 + flags
}

#[inline(never)]
pub fn overflowing_mul_flag(a: u64, b: u64, c: u64) -> i128 {
    let (p, o) = a.overflowing_mul(b);
    if o {
        -((p % 1000) as i128) - 1
    } else {
        p as i128 + (c & 1) as i128
    }
}

#[inline(never)]
pub fn plain_add(a: u64, b: u64, c: u64) -> i128 {
    let s = a + b;
    let t = s + c;
    t as i128
}

#[inline(never)]
pub fn plain_sub(a: u64, b: u64, c: u64) -> i128 {
    if c > 100 {
        return -1;
    }
    let d = a - b;
    (d - c) as i128
}

#[inline(never)]
pub fn plain_mul(a: u64, b: u64, c: u64) -> i128 {
    let p = a * b;
    if p > c {
        p as i128
    } else {
        (p * 2) as i128
    }
}

#[inline(never)]
pub fn plain_div_rem(a: u64, b: u64, c: u64) -> i128 {
    let q = a / b;
    let r = if c == 0 { 0 } else { a % c };
    q as i128 * 11 + r as i128
}

#[inline(never)]
pub fn plain_rem_panic(a: u64, b: u64, c: u64) -> i128 {
    let m = b % 4;
    let r = a % m;
    (r + c % 2) as i128
}

#[inline(never)]
pub fn abs_diff_min_max(a: u64, b: u64, c: u64) -> i128 {
    let d = a.abs_diff(b);
    let lo = d.min(c);
    let hi = d.max(c);
    hi as i128 * 2 - lo as i128
}

#[inline(never)]
pub fn ord_min_max_fns(a: u64, b: u64, c: u64) -> i128 {
    let lo = std::cmp::min(a, std::cmp::min(b, c));
    let hi = std::cmp::max(a, std::cmp::max(b, c));
    (hi - lo) as i128
}

#[inline(never)]
pub fn clamp_sorted(a: u64, b: u64, c: u64) -> i128 {
    let (lo, hi) = if b <= c { (b, c) } else { (c, b) };
    a.clamp(lo, hi) as i128
}

#[inline(never)]
pub fn clamp_raw(a: u64, b: u64, c: u64) -> i128 {
    // panics when b > c
    a.clamp(b, c) as i128
}

#[inline(never)]
pub fn pow_plain(a: u64, b: u64, c: u64) -> i128 {
    let base = a % 1000;
    let e = (b % 8) as u32;
    let p = base.pow(e);
    p as i128 + (c % 10) as i128
}

#[inline(never)]
pub fn shifts_const(a: u64, b: u64, c: u64) -> i128 {
    let x = a << 3;
    let y = b >> 2;
    let z = (c << 63) >> 60;
    x as i128 + y as i128 * 2 + z as i128
}

#[inline(never)]
pub fn shifts_variable(a: u64, b: u64, c: u64) -> i128 {
    let l = a << (b % 64);
    // panics (overflow check) when c % 70 >= 64
    let r = a >> (c % 70);
    l as i128 - r as i128
}

#[inline(never)]
pub fn checked_shifts(a: u64, b: u64, c: u64) -> i128 {
    let l = a.checked_shl((b % 80) as u32);
    let r = a.checked_shr((c % 80) as u32);
    match (l, r) {
        (Some(x), Some(y)) => (x ^ y) as i128,
        (Some(x), None) => -(((x % 97) + 1) as i128),
        (None, Some(_)) => -1000,
        (None, None) => -2000,
    }
}

#[inline(never)]
pub fn bit_ops(a: u64, b: u64, c: u64) -> i128 {
    let x = a & b;
    let y = a | c;
    let z = b ^ c;
    let n = !a & 0xff;
    x as i128 + y as i128 * 2 + z as i128 * 3 + n as i128
}

#[inline(never)]
pub fn comparisons(a: u64, b: u64, c: u64) -> i128 {
    let mut r: i128 = 0;
    r += (a < b) as i128;
    r += 2 * (a <= c) as i128;
    r += 4 * (b > c) as i128;
    r += 8 * (b >= a) as i128;
    r += 16 * (a == c) as i128;
    r += 32 * (b != c) as i128;
    r
}

#[inline(never)]
pub fn cast_truncating(a: u64, b: u64, c: u64) -> i128 {
    let x = a as u8;
    let y = b as u16;
    let z = c as u32;
    x as i128 + (y as i128) * 256 + (z as i128) * 65536
}

#[inline(never)]
pub fn cast_sign_changing(a: u64, b: u64, c: u64) -> i128 {
    let x = a as i64;
    let y = b as i32;
    let z = c as i8;
    x as i128 + y as i128 * 3 + z as i128 * 5
}

#[inline(never)]
pub fn cast_signed_to_unsigned(a: u64, b: u64, c: u64) -> i128 {
    let d = a as i128 - b as i128;
    let u = d as u64;
    let w = d as i64;
    let s = (c as i32) as u32;
    u as i128 + w as i128 + s as i128
}

#[inline(never)]
pub fn cast_u128_wide(a: u64, b: u64, c: u64) -> i128 {
    let wide = a as u128 * b as u128 + c as u128;
    let lo = wide as u64;
    let hi = (wide >> 64) as u64;
    lo as i128 - hi as i128
}

#[inline(never)]
pub fn cast_usize_index(a: u64, b: u64, c: u64) -> i128 {
    let arr = [b, c, 17, 23];
    let i = (a % 4) as usize;
    let n = arr.len() as u64;
    arr[i] as i128 + n as i128 + (a as usize) as i128
}

#[inline(never)]
pub fn cast_widening_signed(a: u64, b: u64, c: u64) -> i128 {
    let x = (a as u8) as i8 as i32;
    let y = (b as u16) as i16 as i64;
    let z = (c as u32) as i32 as i128;
    x as i128 + y as i128 + z
}

#[inline(never)]
pub fn try_from_u128(a: u64, b: u64, c: u64) -> i128 {
    let wide = a as u128 * b as u128 + c as u128;
    match u64::try_from(wide) {
        Ok(v) => v as i128,
        Err(_) => -1,
    }
}

#[inline(never)]
pub fn try_from_u8(a: u64, b: u64, c: u64) -> i128 {
    let x = u8::try_from(a);
    let y = u8::try_from(b.wrapping_add(c));
    match (x, y) {
        (Ok(p), Ok(q)) => p as i128 * 256 + q as i128,
        (Ok(p), Err(_)) => -(p as i128) - 1,
        (Err(_), Ok(q)) => -(q as i128) - 1000,
        (Err(_), Err(_)) => -5000,
    }
}

#[inline(never)]
pub fn try_into_various(a: u64, b: u64, c: u64) -> i128 {
    let x: Result<u32, _> = a.try_into();
    let y: Result<i64, _> = b.try_into();
    let z: Result<usize, _> = c.try_into();
    let xv = x.map(|v| v as i128).unwrap_or(-1);
    let yv = y.map(|v| v as i128).unwrap_or(-1);
    let zv = z.map(|v| v as i128).unwrap_or(-1);
    xv * 3 + yv + zv
}

#[inline(never)]
pub fn try_from_signed(a: u64, b: u64, c: u64) -> i128 {
    let d = a as i128 - b as i128;
    match u64::try_from(d) {
        Ok(v) => v as i128 + c as i128,
        Err(_) => match i64::try_from(d) {
            Ok(n) => n as i128,
            Err(_) => -1,
        },
    }
}

#[inline(never)]
pub fn consts_max_min(a: u64, b: u64, c: u64) -> i128 {
    if a == u64::MAX {
        return (u64::MAX - b) as i128;
    }
    if b == u64::MIN {
        return i64::MAX as i128 - c as i128;
    }
    if c > u32::MAX as u64 {
        return u128::MAX as i128;
    }
    (u8::MAX as u64 + a % 2) as i128 + i32::MIN as i128
}

#[inline(never)]
pub fn signed_arith(a: u64, b: u64, c: u64) -> i128 {
    let x = (a % 100) as i64 - (b % 100) as i64;
    let d = (c % 7) as i64 - 3;
    let q = if d == 0 { 0 } else { x / d };
    let r = if d == 0 { 0 } else { x % d };
    let e = if d == 0 { 0 } else { x.rem_euclid(d) };
    x.abs() as i128 + x.signum() as i128 * 100 + q as i128 * 1000 + r as i128 * 10000 + e as i128
}

#[inline(never)]
pub fn signed_neg_overflow(a: u64, b: u64, c: u64) -> i128 {
    let x = a as i64;
    // panics when x == i64::MIN
    let n = -x;
    let m = (b as i64).checked_neg();
    let w = (c as i64).wrapping_abs();
    n as i128 + m.map(|v| v as i128).unwrap_or(-7) + w as i128
}

#[inline(never)]
pub fn i128_checked(a: u64, b: u64, c: u64) -> i128 {
    let x = a as i128;
    let y = b as i128;
    let p = match x.checked_mul(y) {
        Some(p) => p,
        None => return -1,
    };
    match p.checked_sub(c as i128 * 1000) {
        Some(v) => v,
        None => -2,
    }
}

#[inline(never)]
pub fn u128_mul_div(a: u64, b: u64, c: u64) -> i128 {
    let n = a as u128 * b as u128;
    // panics when c == 0
    let q = n / c as u128;
    let q64 = q as u64;
    q64 as i128 + (q > u64::MAX as u128) as i128
}

#[inline(never)]
pub fn u32_arith_overflow(a: u64, b: u64, c: u64) -> i128 {
    let x = a as u32;
    let y = b as u32;
    // panics on u32 overflow
    let s = x + y;
    let t = s.checked_mul(c as u32).unwrap_or(u32::MAX);
    s as i128 * 2 + t as i128
}

#[inline(never)]
pub fn u8_arith(a: u64, b: u64, c: u64) -> i128 {
    let x = a as u8;
    let y = b as u8;
    let s = x.checked_add(y);
    let w = x.wrapping_mul(y);
    let t = x.saturating_sub(c as u8);
    s.map(|v| v as i128).unwrap_or(-1) + w as i128 * 300 + t as i128 * 90000
}

#[inline(never)]
pub fn compound_assign(a: u64, b: u64, c: u64) -> i128 {
    let mut x = a % 1000;
    x += b % 1000;
    x *= 3;
    x -= c % 10;
    x /= 2;
    x %= 977;
    x <<= 2;
    x |= 1;
    x ^= b & 0xf;
    x >>= 1;
    x &= 0xffff;
    x as i128
}

#[inline(never)]
pub fn mixed_width_mul(a: u64, b: u64, c: u64) -> i128 {
    let x = (a as u32 as u64) * (b as u32 as u64);
    let y = (c as u16 as u32) * (c as u16 as u32);
    x as i128 - y as i128
}

#[inline(never)]
pub fn div_ceil_manual(a: u64, b: u64, c: u64) -> i128 {
    if b == 0 {
        return -1;
    }
    let q = a / b;
    let ceil = if a % b != 0 { q + 1 } else { q };
    let scaled = ceil.checked_mul(c % 5 + 1);
    scaled.map(|v| v as i128).unwrap_or(-2)
}

crate::cases!(arith:
    checked_add_basic, checked_sub_chain, checked_mul_basic, checked_div_rem, checked_pow_small,
    saturating_ops, saturating_pow_case, wrapping_ops, wrapping_neg_pow, overflowing_add_sub,
    overflowing_mul_flag, plain_add, plain_sub, plain_mul, plain_div_rem, plain_rem_panic,
    abs_diff_min_max, ord_min_max_fns, clamp_sorted, clamp_raw, pow_plain, shifts_const,
    shifts_variable, checked_shifts, bit_ops, comparisons, cast_truncating, cast_sign_changing,
    cast_signed_to_unsigned, cast_u128_wide, cast_usize_index, cast_widening_signed,
    try_from_u128, try_from_u8, try_into_various, try_from_signed, consts_max_min, signed_arith,
    signed_neg_overflow, i128_checked, u128_mul_div, u32_arith_overflow, u8_arith,
    compound_assign, mixed_width_mul, div_ceil_manual,
);
