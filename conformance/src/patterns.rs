//! Theme 4: pattern matching.

use std::cmp::Ordering;

#[inline(never)]
pub fn int_ranges_guards(a: u64, b: u64, c: u64) -> i128 {
    match a {
        0 => -1,
        1..=9 => a as i128 * 2,
        10 | 20 | 30 => 1000,
        n if n % 2 == 0 && b > c => (n / 2) as i128,
        n if n > u64::MAX - 10 => -2,
        100..=199 => 5,
        _ => (b % 10) as i128 + 7,
    }
}

#[inline(never)]
pub fn tuple_match(a: u64, b: u64, c: u64) -> i128 {
    match (a % 3, b % 2 == 0, c) {
        (0, true, _) => 1,
        (0, false, 0) => 2,
        (1, _, x) if x > 100 => x as i128,
        (1, e, _) => 3 + e as i128,
        (_, true, x @ 0..=5) => 10 + x as i128,
        _ => -1,
    }
}

#[inline(never)]
pub fn reference_match(a: u64, b: u64, c: u64) -> i128 {
    let pair = (a, b);
    let r = &pair;
    let s = match r {
        &(0, y) => y as i128,
        (x, 0) => *x as i128 * 2,
        (x, y) if x == y => -1,
        (x, y) => (*x % 100) as i128 - (*y % 100) as i128,
    };
    let cr = &c;
    match *cr {
        0 => s,
        ref n => s + (*n % 5) as i128,
    }
}

#[inline(never)]
pub fn slice_patterns(a: u64, b: u64, c: u64) -> i128 {
    let all = [a, b, c, a ^ b, b ^ c];
    let n = (a % 6) as usize;
    let s = &all[..n.min(5)];
    match s {
        [] => -1,
        [x] => *x as i128,
        [x, y] => *x as i128 - *y as i128,
        [first, .., last] if first == last => -2,
        [first, .., last] => *first as i128 + *last as i128 * 2,
    }
}

#[inline(never)]
pub fn slice_rest_pattern(a: u64, b: u64, c: u64) -> i128 {
    let v = vec![a % 50, b % 50, c % 50, 9];
    let s = &v[(a % 4) as usize..];
    match s {
        [x, rest @ ..] if !rest.is_empty() => *x as i128 * 10 + rest.len() as i128,
        [x, ..] => *x as i128,
        [] => -1,
    }
}

#[inline(never)]
pub fn array_pattern(a: u64, b: u64, c: u64) -> i128 {
    let arr = [a % 4, b % 4, c % 4];
    match arr {
        [0, 0, 0] => 0,
        [x, 0, _] | [0, x, _] => x as i128 + 10,
        [x, y, z] if x == y && y == z => 100,
        [_, mid, _] => mid as i128 + 20,
    }
}

#[inline(never)]
pub fn at_binding(a: u64, b: u64, c: u64) -> i128 {
    let x = a % 40;
    let base = match x {
        small @ 0..=9 => small as i128,
        mid @ (10..=19 | 30..=39) => mid as i128 * 2,
        other => -(other as i128),
    };
    match opt(b) {
        whole @ Some(1..=5) => base + whole.unwrap() as i128 + c as i128 % 3,
        Some(n) => base + n as i128 % 100,
        None => base - 1,
    }
}

fn opt(x: u64) -> Option<u64> {
    if x % 4 == 0 {
        None
    } else {
        Some(x % 16)
    }
}

#[derive(Debug, Clone, PartialEq)]
enum Asset {
    Native { denom_id: u8, amount: u64 },
    Token(u64, u64),
    Nft(u64),
    Nothing,
}

#[derive(Debug, Clone, PartialEq)]
enum Action {
    Transfer { to: u64, asset: Asset },
    Burn(Asset),
    Batch(Vec<Asset>),
    Noop,
}

fn make_asset(k: u64, v: u64) -> Asset {
    match k % 4 {
        0 => Asset::Native { denom_id: (v % 3) as u8, amount: v },
        1 => Asset::Token(k, v % 1000),
        2 => Asset::Nft(v),
        _ => Asset::Nothing,
    }
}

#[inline(never)]
pub fn nested_enum_match(a: u64, b: u64, c: u64) -> i128 {
    let act = match a % 4 {
        0 => Action::Transfer { to: c, asset: make_asset(b, c) },
        1 => Action::Burn(make_asset(b, c)),
        2 => Action::Batch(vec![make_asset(b, 1), make_asset(c, 2)]),
        _ => Action::Noop,
    };
    match act {
        Action::Transfer { to: 0, .. } => -1,
        Action::Transfer { asset: Asset::Native { denom_id: 0, amount }, .. } => amount as i128,
        Action::Transfer { to, asset: Asset::Token(_, amt) } => to as i128 + amt as i128,
        Action::Transfer { asset, .. } => (asset == Asset::Nothing) as i128 + 50,
        Action::Burn(Asset::Nft(id)) => id as i128 * 3,
        Action::Burn(Asset::Nothing) => -2,
        Action::Burn(_) => 77,
        Action::Batch(ref v) if v.len() == 2 && v[0] == v[1] => 200,
        Action::Batch(v) => v.len() as i128 + 300,
        Action::Noop => 0,
    }
}

#[inline(never)]
pub fn matches_macro(a: u64, b: u64, c: u64) -> i128 {
    let x = make_asset(a, b);
    let p = matches!(x, Asset::Native { .. } | Asset::Token(..));
    let q = matches!(x, Asset::Native { amount, .. } if amount > c);
    let r = matches!(opt(c), Some(n) if n > 3);
    let s = matches!(b % 10, 2..=4);
    p as i128 + 2 * q as i128 + 4 * r as i128 + 8 * s as i128
}

#[inline(never)]
pub fn if_let_else(a: u64, b: u64, c: u64) -> i128 {
    let x = make_asset(a, b);
    let v = if let Asset::Native { denom_id, amount } = &x {
        *denom_id as i128 * 1000 + (*amount % 1000) as i128
    } else if let Asset::Token(id, amt) = x {
        (id % 100) as i128 - amt as i128
    } else {
        -1
    };
    if let Some(n) = opt(c) {
        v + n as i128
    } else {
        v
    }
}

fn let_else_helper(o: Option<u64>, limit: u64) -> i128 {
    let Some(v) = o else {
        return -1;
    };
    let (lo, hi) = (v.min(limit), v.max(limit));
    let [x, y] = [lo, hi];
    y as i128 - x as i128
}

#[inline(never)]
pub fn let_else(a: u64, b: u64, c: u64) -> i128 {
    let Asset::Token(id, amt) = make_asset(a, b) else {
        return let_else_helper(opt(b), c % 20);
    };
    (id % 10) as i128 + amt as i128 + let_else_helper(opt(c), 3)
}

#[inline(never)]
pub fn while_let_iter(a: u64, b: u64, c: u64) -> i128 {
    let v = vec![a % 10, b % 10, c % 10, 4];
    let mut it = v.iter();
    let mut acc: i128 = 0;
    while let Some(x) = it.next() {
        if *x == 0 {
            break;
        }
        acc = acc * 10 + *x as i128;
    }
    let mut stack = vec![a % 3, b % 3];
    while let Some(top) = stack.pop() {
        acc += top as i128 * 1000;
    }
    acc
}

#[repr(u8)]
#[derive(Debug, Clone, Copy, PartialEq, Eq, PartialOrd, Ord)]
enum Status {
    Open = 1,
    Passed = 2,
    Executed = 5,
    Rejected = 9,
}

fn status_of(x: u64) -> Status {
    match x % 4 {
        0 => Status::Open,
        1 => Status::Passed,
        2 => Status::Executed,
        _ => Status::Rejected,
    }
}

#[inline(never)]
pub fn explicit_discriminant(a: u64, b: u64, c: u64) -> i128 {
    let s = status_of(a);
    let d = s as u8;
    let t = status_of(b) as u8 as u64;
    let m = match s {
        Status::Open => 10,
        Status::Passed => 20,
        Status::Executed => 30,
        Status::Rejected => 40,
    };
    d as i128 * 100 + t as i128 + m + (c % 2) as i128
}

#[inline(never)]
pub fn enum_eq(a: u64, b: u64, c: u64) -> i128 {
    let s = status_of(a);
    let t = status_of(b);
    let mut r = 0;
    if s == t {
        r += 1;
    }
    if s != Status::Open {
        r += 2;
    }
    if t == Status::Executed || status_of(c) == Status::Rejected {
        r += 4;
    }
    r
}

#[inline(never)]
pub fn enum_partial_ord(a: u64, b: u64, c: u64) -> i128 {
    let s = status_of(a);
    let t = status_of(b);
    let u = status_of(c);
    let lt = s < t;
    let ge = t >= u;
    let mx = s.max(u);
    lt as i128 + 2 * ge as i128 + (mx as u8) as i128 * 4
}

#[derive(Debug, Clone, Copy, PartialEq, Eq, PartialOrd, Ord)]
struct Version {
    major: u64,
    minor: u64,
}

#[inline(never)]
pub fn struct_partial_ord(a: u64, b: u64, c: u64) -> i128 {
    let v1 = Version { major: a % 3, minor: b % 5 };
    let v2 = Version { major: b % 3, minor: c % 5 };
    let lt = v1 < v2;
    let ge = v1 >= v2;
    let eq = v1 == v2;
    let tup = (a % 3, c % 2) <= (b % 3, a % 2);
    lt as i128 + 2 * ge as i128 + 4 * eq as i128 + 8 * tup as i128
}

#[inline(never)]
pub fn ordering_match(a: u64, b: u64, c: u64) -> i128 {
    let x = match a.cmp(&b) {
        Ordering::Less => -1,
        Ordering::Equal => 0,
        Ordering::Greater => 1,
    };
    let y = match b.partial_cmp(&c) {
        Some(Ordering::Less) => 10,
        Some(Ordering::Equal) => 20,
        Some(Ordering::Greater) => 30,
        None => 40,
    };
    let z = status_of(a).cmp(&status_of(c)) as i8;
    let w = a.cmp(&c).then(b.cmp(&c)).reverse().is_lt();
    x + y + z as i128 * 100 + w as i128 * 1000
}

#[derive(Debug, Clone, Copy, PartialEq, PartialOrd)]
enum Vote {
    Yes,
    No,
    Abstain,
    Veto,
}

fn vote_of(x: u64) -> Option<Vote> {
    match x % 5 {
        0 => Some(Vote::Yes),
        1 => Some(Vote::No),
        2 => Some(Vote::Abstain),
        3 => Some(Vote::Veto),
        _ => None,
    }
}

#[inline(never)]
pub fn option_enum_match(a: u64, b: u64, c: u64) -> i128 {
    let v = vote_of(a);
    let base = match v {
        Some(Vote::Yes) => b as i128,
        Some(Vote::No) | Some(Vote::Veto) => -(b as i128),
        Some(Vote::Abstain) => 0,
        None => -1,
    };
    let same = v == vote_of(c);
    let some_lt = vote_of(b) < vote_of(c);
    base + same as i128 * 3 + some_lt as i128 * 5
}

#[inline(never)]
pub fn fieldless_enum_cast(a: u64, b: u64, c: u64) -> i128 {
    let v = vote_of(a).unwrap_or(Vote::Abstain);
    let w = vote_of(b).unwrap_or(Vote::Yes);
    let i = v as u64;
    let j = w as i32;
    i as i128 * 10 + j as i128 + (v as u8 == (c % 4) as u8) as i128 * 100
}

#[derive(Debug, Clone, PartialEq)]
struct Proposal {
    id: u64,
    status: Status,
    votes: (u64, u64),
    tag: Option<u8>,
}

#[inline(never)]
pub fn struct_destructure(a: u64, b: u64, c: u64) -> i128 {
    let p = Proposal {
        id: a % 100,
        status: status_of(b),
        votes: (b % 50, c % 50),
        tag: if c % 2 == 0 { Some(c as u8) } else { None },
    };
    let Proposal { id, votes: (yes, no), .. } = p.clone();
    let k = match &p {
        Proposal { status: Status::Open, tag: Some(t), .. } => *t as i128,
        Proposal { status: Status::Open, tag: None, .. } => -1,
        Proposal { votes: (y, n), .. } if y > n => 500,
        Proposal { status, .. } => *status as u8 as i128,
    };
    id as i128 + yes as i128 * 2 - no as i128 + k * 1000
}

#[inline(never)]
pub fn bool_and_char_match(a: u64, b: u64, c: u64) -> i128 {
    let ch = (b'a' + (a % 26) as u8) as char;
    let kind = match ch {
        'a' | 'e' | 'i' | 'o' | 'u' => 1,
        'b'..='m' => 2,
        _ => 3,
    };
    let flag = match (b > c, b == c) {
        (true, _) => 10,
        (false, true) => 20,
        (false, false) => 30,
    };
    kind + flag
}

crate::cases!(patterns:
    int_ranges_guards, tuple_match, reference_match, slice_patterns, slice_rest_pattern,
    array_pattern, at_binding, nested_enum_match, matches_macro, if_let_else, let_else,
    while_let_iter, explicit_discriminant, enum_eq, enum_partial_ord, struct_partial_ord,
    ordering_match, option_enum_match, fieldless_enum_cast, struct_destructure,
    bool_and_char_match,
);
