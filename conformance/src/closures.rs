//! Theme 9: closures, ownership, mem::*, Default, Box, structs, arrays.

use std::mem;

#[inline(never)]
pub fn capture_by_ref(a: u64, b: u64, c: u64) -> i128 {
    let limit = b % 100;
    let table = vec![a % 100, c % 100, 50];
    let above = |x: &u64| *x > limit;
    let count = table.iter().filter(|x| above(x)).count();
    let lookup = |i: usize| table.get(i).copied().unwrap_or(0);
    count as i128 * 1000 + lookup((a % 4) as usize) as i128 + table.len() as i128 * 100000
}

#[inline(never)]
pub fn capture_by_mut_ref(a: u64, b: u64, c: u64) -> i128 {
    let mut counter = 0u64;
    let mut log: Vec<u64> = Vec::new();
    let mut bump = |x: u64| {
        counter += 1;
        if x % 2 == 0 {
            log.push(x);
        }
        counter
    };
    let r1 = bump(a % 10);
    let r2 = bump(b % 10);
    let r3 = if c % 2 == 0 { bump(c % 10) } else { 0 };
    r1 as i128 + r2 as i128 * 10 + r3 as i128 * 100 + counter as i128 * 1000 + log.len() as i128 * 10000
}

#[inline(never)]
pub fn capture_by_move(a: u64, b: u64, c: u64) -> i128 {
    let names = vec![format!("k{}", a % 10), format!("key{}", b % 100)];
    let extra = c % 5;
    let total_len = move || names.iter().map(|s| s.len() as u64).sum::<u64>() + extra;
    let once = total_len();
    let twice = total_len();
    once as i128 + twice as i128 * 100 + extra as i128 * 10000
}

fn apply_fn(f: impl Fn(u64) -> u64, x: u64) -> u64 {
    f(f(x))
}

fn apply_fn_mut(mut f: impl FnMut(u64) -> u64, n: u64) -> u64 {
    let mut last = 0;
    for i in 0..n {
        last = f(i);
    }
    last
}

fn apply_fn_once(f: impl FnOnce() -> Vec<u64>) -> usize {
    f().len()
}

fn apply_generic<F>(f: F, x: u64, y: u64) -> Option<u64>
where
    F: Fn(u64, u64) -> Option<u64>,
{
    f(x, y).and_then(|v| f(v, y))
}

fn apply_dyn(f: &dyn Fn(u64) -> u64, x: u64) -> u64 {
    f(x) + 1
}

#[inline(never)]
pub fn pass_impl_fn(a: u64, b: u64, c: u64) -> i128 {
    let k = b % 7 + 1;
    let r = apply_fn(|x| x % 1000 * k + c % 3, a);
    let g = apply_generic(|x, y| x.checked_add(y), a, b);
    r as i128 + g.map_or(-1, |v| v as i128 % 1000) * 100000
}

#[inline(never)]
pub fn pass_impl_fn_mut(a: u64, b: u64, c: u64) -> i128 {
    let mut acc = a % 50;
    let last = apply_fn_mut(
        |i| {
            acc += i * (b % 4);
            acc
        },
        c % 6,
    );
    last as i128 * 1000 + acc as i128
}

#[inline(never)]
pub fn pass_impl_fn_once(a: u64, b: u64, c: u64) -> i128 {
    let mut data = vec![a % 10, b % 10];
    if c % 2 == 0 {
        data.push(c % 10);
    }
    let sum: u64 = data.iter().sum();
    let n = apply_fn_once(move || {
        let mut d = data;
        d.retain(|x| *x > 2);
        d
    });
    n as i128 * 100 + sum as i128
}

#[inline(never)]
pub fn pass_dyn_fn(a: u64, b: u64, c: u64) -> i128 {
    let add = |x: u64| x % 1000 + b % 10;
    let mul = |x: u64| x % 1000 * (c % 10);
    let f: &dyn Fn(u64) -> u64 = if a % 2 == 0 { &add } else { &mul };
    let fp: fn(u64) -> u64 = if b % 2 == 0 { double } else { halve };
    apply_dyn(f, a) as i128 * 10000 + fp(c % 1000) as i128
}

fn double(x: u64) -> u64 {
    x * 2
}

fn halve(x: u64) -> u64 {
    x / 2
}

#[derive(Debug, Clone, Default, PartialEq)]
struct Config {
    owner: String,
    max_voters: u64,
    threshold: u64,
    paused: bool,
    tags: Vec<u8>,
}

#[inline(never)]
pub fn struct_update_default(a: u64, b: u64, c: u64) -> i128 {
    let d = Config::default();
    let cfg = Config { max_voters: a % 100, threshold: b % 10, ..Default::default() };
    let cfg2 = Config { paused: c % 2 == 0, owner: "admin".to_string(), ..cfg.clone() };
    d.max_voters as i128
        + cfg.threshold as i128 * 10
        + cfg2.max_voters as i128 * 100
        + cfg2.paused as i128 * 100000
        + cfg2.owner.len() as i128 * 1000000
        + (cfg == cfg2) as i128 * 10000000
        + d.tags.len() as i128
}

#[inline(never)]
pub fn mem_swap_replace_take(a: u64, b: u64, c: u64) -> i128 {
    let mut x = a % 1000;
    let mut y = b % 1000;
    if x > y {
        mem::swap(&mut x, &mut y);
    }
    let old = mem::replace(&mut x, c % 1000);
    let mut v = vec![x, y, old];
    let taken = mem::take(&mut v);
    let mut s = String::from("abc");
    let t = mem::take(&mut s);
    x as i128 + y as i128 * 1000 + old as i128 * 1000000 + taken.len() as i128 * 1000000000 + v.len() as i128 + (t.len() + s.len()) as i128 * 10000000000
}

#[derive(Debug, Clone, Default)]
struct Ledger {
    total: u64,
    entries: Vec<(u64, u64)>,
    stats: Stats,
}

#[derive(Debug, Clone, Copy, Default, PartialEq)]
struct Stats {
    deposits: u32,
    rejects: u32,
}

impl Ledger {
    fn deposit(&mut self, who: u64, amt: u64) -> Result<u64, u8> {
        if amt == 0 {
            self.stats.rejects += 1;
            return Err(1);
        }
        self.total = self.total.checked_add(amt).ok_or(2u8)?;
        self.entries.push((who, amt));
        self.stats.deposits += 1;
        Ok(self.total)
    }

    fn balance_of(&self, who: u64) -> u64 {
        self.entries.iter().filter(|e| e.0 == who).map(|e| e.1).sum()
    }

    fn into_total(self) -> u64 {
        self.total
    }
}

#[inline(never)]
pub fn method_mut_self(a: u64, b: u64, c: u64) -> i128 {
    let mut l = Ledger::default();
    let r1 = l.deposit(1, a % 100);
    let r2 = l.deposit(2, b);
    let r3 = l.deposit(1, c);
    let enc = |r: Result<u64, u8>| r.map_or_else(|e| -(e as i128), |v| (v % 1000) as i128);
    let bal = l.balance_of(1) % 1000;
    let st = l.stats;
    enc(r1) + enc(r2) * 10 + enc(r3) * 100 + bal as i128 * 100000 + st.deposits as i128 * 100000000 + st.rejects as i128 * 1000000000
        + (l.into_total() % 7) as i128
}

#[derive(Debug, Clone, Default)]
struct Outer {
    inner: Inner,
    count: u64,
}

#[derive(Debug, Clone, Default)]
struct Inner {
    pos: (u64, u64),
    hist: [u64; 3],
    leaf: Option<Box<Inner>>,
}

#[inline(never)]
pub fn nested_field_mutation(a: u64, b: u64, c: u64) -> i128 {
    let mut o = Outer::default();
    o.inner.pos.0 = a % 100;
    o.inner.pos.1 += b % 100;
    o.inner.hist[(c % 3) as usize] = 7;
    o.count += 1;
    if a % 2 == 0 {
        o.inner.leaf = Some(Box::new(Inner { pos: (1, 2), ..Default::default() }));
    }
    if let Some(leaf) = o.inner.leaf.as_mut() {
        leaf.pos.1 += c % 10;
        leaf.hist[0] = 9;
    }
    let leaf_v = o.inner.leaf.as_ref().map_or(0, |l| l.pos.0 + l.pos.1 + l.hist[0]);
    let h = &mut o.inner.hist;
    h[0] += 1;
    o.inner.pos.0 as i128 + o.inner.pos.1 as i128 * 100 + o.inner.hist.iter().sum::<u64>() as i128 * 10000 + leaf_v as i128 * 1000000 + o.count as i128 * 100000000
}

#[inline(never)]
pub fn box_value(a: u64, b: u64, c: u64) -> i128 {
    let mut bx: Box<u64> = Box::new(a % 1000);
    *bx += b % 1000;
    let pair: Box<(u64, String)> = Box::new((c % 10, "boxed".to_string()));
    let (n, s) = *pair;
    let bs: Box<[u64]> = vec![a % 3, b % 3].into_boxed_slice();
    let unboxed: u64 = *bx;
    unboxed as i128 + n as i128 * 10000 + s.len() as i128 * 100000 + bs.iter().sum::<u64>() as i128 * 1000000
}

fn div_mod(x: u64, y: u64) -> (u64, u64, bool) {
    if y == 0 {
        (0, 0, false)
    } else {
        (x / y, x % y, true)
    }
}

#[inline(never)]
pub fn tuple_returns(a: u64, b: u64, c: u64) -> i128 {
    let (q, r, ok) = div_mod(a, b % 10);
    let t = div_mod(c, 3);
    let nested = ((a % 2, b % 2), c % 2);
    let ((x, y), z) = nested;
    if !ok {
        return -1 - t.1 as i128;
    }
    (q % 1000) as i128 + r as i128 * 1000 + t.0 as i128 % 100 * 10000 + (x + y * 2 + z * 4) as i128 * 1000000
}

fn sum_by_value(arr: [u64; 3]) -> u64 {
    let mut local = arr;
    local[0] = 0;
    local.iter().sum()
}

fn bump_by_ref(arr: &mut [u64; 3], i: usize) {
    arr[i] += 100;
}

fn max_by_ref(arr: &[u64; 3]) -> u64 {
    *arr.iter().max().unwrap()
}

#[inline(never)]
pub fn arrays_value_and_ref(a: u64, b: u64, c: u64) -> i128 {
    let mut arr = [a % 50, b % 50, c % 50];
    let s = sum_by_value(arr);
    // panics when a % 4 == 3
    bump_by_ref(&mut arr, (a % 4) as usize);
    let m = max_by_ref(&arr);
    let copy = arr;
    let eq = copy == arr;
    s as i128 + m as i128 * 1000 + arr[0] as i128 * 1000000 + eq as i128 * 1000000000
}

#[inline(never)]
pub fn shadowing(a: u64, b: u64, c: u64) -> i128 {
    let x = a % 100;
    let x = x * 2 + 1;
    let y = {
        let x = b % 10;
        x + 1
    };
    let x = if c % 2 == 0 { x as i128 } else { -(x as i128) };
    let c = c % 3;
    let b = (b % 5) as i128;
    x * 100 + y as i128 * 10 + c as i128 + b * 100000
}

#[inline(never)]
pub fn clone_independence(a: u64, b: u64, c: u64) -> i128 {
    let original = Config { max_voters: a % 10, tags: vec![b as u8, c as u8], ..Default::default() };
    let mut copy = original.clone();
    copy.tags.push(1);
    copy.max_voters += 1;
    copy.owner.push_str("x");
    let moved = copy;
    original.tags.len() as i128 + moved.tags.len() as i128 * 10 + original.max_voters as i128 * 100 + moved.max_voters as i128 * 10000 + (original == moved) as i128 * 1000000
}

trait Weighted {
    fn weight(&self) -> u64;
    fn doubled(&self) -> u64 {
        self.weight() * 2
    }
}

struct Flat(u64);
struct Scaled {
    base: u64,
    factor: u64,
}

impl Weighted for Flat {
    fn weight(&self) -> u64 {
        self.0
    }
}

impl Weighted for Scaled {
    fn weight(&self) -> u64 {
        self.base * self.factor
    }
    fn doubled(&self) -> u64 {
        self.weight() * 2 + 1
    }
}

fn total_weight<W: Weighted>(items: &[W]) -> u64 {
    items.iter().map(|w| w.weight()).sum()
}

#[inline(never)]
pub fn trait_dispatch(a: u64, b: u64, c: u64) -> i128 {
    let flats = [Flat(a % 100), Flat(b % 100)];
    let st = total_weight(&flats);
    let obj: Box<dyn Weighted> = if c % 2 == 0 {
        Box::new(Flat(c % 100))
    } else {
        Box::new(Scaled { base: a % 100, factor: b % 10 })
    };
    st as i128 + obj.weight() as i128 * 1000 + obj.doubled() as i128 * 1000000
}

crate::cases!(closures:
    capture_by_ref, capture_by_mut_ref, capture_by_move, pass_impl_fn, pass_impl_fn_mut,
    pass_impl_fn_once, pass_dyn_fn, struct_update_default, mem_swap_replace_take,
    method_mut_self, nested_field_mutation, box_value, tuple_returns, arrays_value_and_ref,
    shadowing, clone_independence, trait_dispatch,
);
