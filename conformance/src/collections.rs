//! Theme 10: BTreeMap / BTreeSet.

use std::collections::btree_map::Entry;
use std::collections::{BTreeMap, BTreeSet};

fn seed_map(a: u64, b: u64, c: u64) -> BTreeMap<u64, u64> {
    let mut m = BTreeMap::new();
    m.insert(a % 8, 10);
    m.insert(b % 8, 20);
    m.insert(c % 8, 30);
    m.insert(4, 40);
    m
}

fn opt_i(o: Option<u64>) -> i128 {
    o.map_or(-1, |v| v as i128)
}

#[inline(never)]
pub fn map_insert_get(a: u64, b: u64, c: u64) -> i128 {
    let mut m: BTreeMap<u64, u64> = BTreeMap::new();
    let r1 = m.insert(a % 5, 1);
    let r2 = m.insert(b % 5, 2);
    let r3 = m.insert(c % 5, 3);
    let g = m.get(&(a % 5)).copied();
    let miss = m.get(&9).is_none();
    opt_i(r1) + opt_i(r2) * 10 + opt_i(r3) * 100 + opt_i(g) * 1000 + m.len() as i128 * 10000 + miss as i128 * 100000
}

#[inline(never)]
pub fn map_remove_contains(a: u64, b: u64, c: u64) -> i128 {
    let mut m = seed_map(a, b, c);
    let had = m.contains_key(&(a % 10));
    let removed = m.remove(&(b % 10));
    let again = m.remove(&(b % 10));
    let still = m.contains_key(&(c % 8));
    had as i128 + opt_i(removed) * 10 + opt_i(again) * 1000 + still as i128 * 100000 + m.len() as i128 * 1000000 + m.is_empty() as i128
}

#[inline(never)]
pub fn map_entry_or_insert(a: u64, b: u64, c: u64) -> i128 {
    let mut tally: BTreeMap<u64, u64> = BTreeMap::new();
    for k in [a % 4, b % 4, c % 4, a % 4] {
        *tally.entry(k).or_insert(0) += 1;
    }
    let d = *tally.entry(9).or_insert_with(|| b % 7);
    let e = *tally.entry(3).or_default();
    let max = tally.values().copied().max().unwrap_or(0);
    tally.len() as i128 * 1000 + max as i128 * 100 + d as i128 * 10 + e as i128
}

#[inline(never)]
pub fn map_entry_and_modify(a: u64, b: u64, c: u64) -> i128 {
    let mut m = seed_map(a, b, c);
    m.entry(a % 10).and_modify(|v| *v += 5).or_insert(1);
    m.entry(b % 10).and_modify(|v| *v *= 2).or_insert(2);
    let kind = match m.entry(c % 10) {
        Entry::Occupied(mut o) => {
            let old = o.insert(99);
            old as i128
        }
        Entry::Vacant(v) => {
            v.insert(7);
            -1
        }
    };
    m.values().sum::<u64>() as i128 * 1000 + kind
}

#[inline(never)]
pub fn map_iteration_order(a: u64, b: u64, c: u64) -> i128 {
    let m = seed_map(a, b, c);
    let mut acc: i128 = 0;
    for (k, v) in &m {
        acc = acc * 100 + *k as i128 * 10 + (*v / 10) as i128;
    }
    let keys: Vec<u64> = m.keys().copied().collect();
    let sorted = keys.windows(2).all(|w| w[0] < w[1]);
    let rev_first = m.iter().rev().next().map(|(k, _)| *k);
    acc * 100 + sorted as i128 * 10 + opt_i(rev_first)
}

#[inline(never)]
pub fn map_range(a: u64, b: u64, c: u64) -> i128 {
    let m = seed_map(a, b, c);
    let lo = a % 5;
    let hi = lo + b % 5;
    let in_range: Vec<u64> = m.range(lo..hi).map(|(k, _)| *k).collect();
    let incl = m.range(lo..=hi).count();
    let tail: u64 = m.range(hi..).map(|(_, v)| *v).sum();
    let below = m.range(..lo).next_back().map(|(k, _)| *k);
    in_range.len() as i128 + incl as i128 * 10 + tail as i128 * 100 + opt_i(below) * 100000
}

#[inline(never)]
pub fn map_first_last(a: u64, b: u64, c: u64) -> i128 {
    let mut m = seed_map(a, b, c);
    if a % 7 == 0 {
        m.clear();
    }
    let f = m.first_key_value().map(|(k, v)| k * 100 + v);
    let l = m.last_key_value().map(|(k, v)| k * 100 + v);
    let popped = m.pop_first().map(|(k, _)| k);
    opt_i(f) + opt_i(l) * 1000 + opt_i(popped) * 1000000 + m.len() as i128 * 10000000
}

#[inline(never)]
pub fn map_get_mut_values_mut(a: u64, b: u64, c: u64) -> i128 {
    let mut m = seed_map(a, b, c);
    if let Some(v) = m.get_mut(&(a % 10)) {
        *v += 1;
    }
    for v in m.values_mut() {
        *v += b % 3;
    }
    m.retain(|k, _| *k != c % 10);
    m.values().sum::<u64>() as i128 * 10 + m.len() as i128
}

#[inline(never)]
pub fn map_with_string_keys(a: u64, b: u64, c: u64) -> i128 {
    let mut m: BTreeMap<String, u64> = BTreeMap::new();
    for (i, x) in [a, b, c].iter().enumerate() {
        let key = format!("addr{}", x % 4);
        let slot = m.entry(key).or_insert(0);
        *slot += i as u64 + 1;
    }
    let first = m.iter().next().map(|(k, v)| k.len() as u64 * 10 + v);
    let got = m.get("addr2").copied();
    opt_i(first) + opt_i(got) * 1000 + m.len() as i128 * 100000
}

#[inline(never)]
pub fn set_insert_contains(a: u64, b: u64, c: u64) -> i128 {
    let mut s: BTreeSet<u64> = BTreeSet::new();
    let n1 = s.insert(a % 6);
    let n2 = s.insert(b % 6);
    let n3 = s.insert(c % 6);
    let has = s.contains(&3);
    let removed = s.remove(&(a % 3));
    n1 as i128 + n2 as i128 * 2 + n3 as i128 * 4 + has as i128 * 8 + removed as i128 * 16 + s.len() as i128 * 100
}

#[inline(never)]
pub fn set_iter_ops(a: u64, b: u64, c: u64) -> i128 {
    let s1: BTreeSet<u64> = [a % 5, b % 5, 1].into_iter().collect();
    let s2: BTreeSet<u64> = [b % 5, c % 5, 2].into_iter().collect();
    let mut acc: i128 = 0;
    for x in s1.iter() {
        acc = acc * 10 + *x as i128;
    }
    let inter = s1.intersection(&s2).count();
    let uni: Vec<u64> = s1.union(&s2).copied().collect();
    let diff = s1.difference(&s2).count();
    acc + inter as i128 * 1000 + uni.len() as i128 * 10000 + diff as i128 * 100000 + opt_i(s2.first().copied()) * 1000000 + s1.is_subset(&s2) as i128 * 10000000
}

#[inline(never)]
pub fn map_of_vecs(a: u64, b: u64, c: u64) -> i128 {
    let mut groups: BTreeMap<u8, Vec<u64>> = BTreeMap::new();
    for x in [a % 9, b % 9, c % 9, 4, 8] {
        groups.entry((x % 3) as u8).or_default().push(x);
    }
    let biggest = groups.iter().max_by_key(|(_, v)| v.len()).map(|(k, _)| *k as u64);
    let zero_sum: u64 = groups.get(&0).map_or(0, |v| v.iter().sum());
    opt_i(biggest) + zero_sum as i128 * 10 + groups.len() as i128 * 1000
}

crate::cases!(collections:
    map_insert_get, map_remove_contains, map_entry_or_insert, map_entry_and_modify,
    map_iteration_order, map_range, map_first_last, map_get_mut_values_mut,
    map_with_string_keys, set_insert_contains, set_iter_ops, map_of_vecs,
);
