//! Theme 2: Option combinators.

fn opt_of(x: u64) -> Option<u64> {
    if x % 3 == 0 {
        None
    } else {
        Some(x)
    }
}

fn enc(o: Option<u64>) -> i128 {
    match o {
        Some(v) => v as i128,
        None => -1,
    }
}

#[inline(never)]
pub fn map_and_then(a: u64, b: u64, c: u64) -> i128 {
    let r = opt_of(a)
        .map(|x| x % 1000 + 1)
        .and_then(|x| x.checked_mul(b))
        .and_then(|x| if x > c { Some(x - c) } else { None });
    enc(r)
}

#[inline(never)]
pub fn filter_case(a: u64, b: u64, c: u64) -> i128 {
    let r = Some(a).filter(|x| *x > b).filter(|x| x % 2 == c % 2);
    enc(r)
}

#[inline(never)]
pub fn unwrap_or_variants(a: u64, b: u64, c: u64) -> i128 {
    let x = opt_of(a).unwrap_or(7);
    let y = opt_of(b).unwrap_or_default();
    let z = opt_of(c).unwrap_or_else(|| a % 10 + 100);
    x as i128 + y as i128 * 3 + z as i128 * 5
}

#[derive(Debug, PartialEq)]
enum LookupErr {
    Missing,
    TooBig(u64),
}

#[inline(never)]
pub fn ok_or_variants(a: u64, b: u64, c: u64) -> i128 {
    let x: Result<u64, LookupErr> = opt_of(a).ok_or(LookupErr::Missing);
    let y: Result<u64, LookupErr> = opt_of(b).ok_or_else(|| LookupErr::TooBig(c % 50));
    let xv = match x {
        Ok(v) => v as i128,
        Err(LookupErr::Missing) => -1,
        Err(LookupErr::TooBig(_)) => -2,
    };
    let yv = match y {
        Ok(v) => v as i128,
        Err(LookupErr::TooBig(n)) => -(n as i128) - 10,
        Err(LookupErr::Missing) => -3,
    };
    xv * 2 + yv
}

#[inline(never)]
pub fn zip_case(a: u64, b: u64, c: u64) -> i128 {
    match opt_of(a).zip(opt_of(b)) {
        Some((x, y)) => x as i128 - y as i128 + c as i128,
        None => -(c as i128 % 5) - 1,
    }
}

#[inline(never)]
pub fn xor_or_case(a: u64, b: u64, c: u64) -> i128 {
    let x = opt_of(a).xor(opt_of(b));
    let y = opt_of(a).or(opt_of(c));
    let z = opt_of(b).or_else(|| if c > 10 { Some(c / 2) } else { None });
    enc(x) + enc(y) * 3 + enc(z) * 7
}

#[inline(never)]
pub fn and_case(a: u64, b: u64, c: u64) -> i128 {
    let x = opt_of(a).and(opt_of(b));
    let y = opt_of(c).and(Some(a ^ b));
    enc(x) * 2 + enc(y)
}

#[inline(never)]
pub fn take_replace(a: u64, b: u64, c: u64) -> i128 {
    let mut slot = opt_of(a);
    let taken = slot.take();
    let was_none = slot.is_none();
    let old = slot.replace(b);
    let old2 = slot.replace(c);
    enc(taken) + (was_none as i128) * 10 + enc(old) * 100 + enc(old2) * 3 + enc(slot) * 5
}

#[inline(never)]
pub fn is_some_and_case(a: u64, b: u64, c: u64) -> i128 {
    let p = opt_of(a).is_some_and(|x| x > b);
    let q = opt_of(c).is_some();
    let r = opt_of(b).is_none();
    p as i128 + 2 * q as i128 + 4 * r as i128
}

#[inline(never)]
pub fn map_or_variants(a: u64, b: u64, c: u64) -> i128 {
    let x = opt_of(a).map_or(-5i128, |v| v as i128 * 2);
    let y = opt_of(b).map_or_else(|| -(c as i128 % 9), |v| v as i128 + 1);
    x + y
}

#[derive(Clone, Debug, Default, PartialEq)]
struct Account {
    owner: u64,
    balance: u64,
}

#[inline(never)]
pub fn as_ref_as_mut(a: u64, b: u64, c: u64) -> i128 {
    let mut acct = if a % 2 == 0 {
        Some(Account { owner: a, balance: b % 1000 })
    } else {
        None
    };
    let before = acct.as_ref().map(|x| x.balance).unwrap_or(0);
    if let Some(x) = acct.as_mut() {
        x.balance += c % 1000;
    }
    let after = acct.as_ref().map_or(0, |x| x.balance);
    let owner = acct.map(|x| x.owner);
    before as i128 + after as i128 * 3 + enc(owner)
}

#[inline(never)]
pub fn cloned_copied(a: u64, b: u64, c: u64) -> i128 {
    let vals = [a, b, c];
    let first: Option<&u64> = vals.iter().find(|x| **x % 2 == 1);
    let copied: Option<u64> = first.copied();
    let acct = Account { owner: b, balance: c };
    let r: Option<&Account> = if a > 5 { Some(&acct) } else { None };
    let cl: Option<Account> = r.cloned();
    enc(copied) + cl.map_or(-1, |x| x.owner as i128 - x.balance as i128) * 2
}

#[inline(never)]
pub fn get_or_insert_with_case(a: u64, b: u64, c: u64) -> i128 {
    let mut cache = opt_of(a);
    let mut calls = 0u64;
    {
        let v = cache.get_or_insert_with(|| {
            calls += 1;
            b % 100
        });
        *v += c % 10;
    }
    let w = *cache.get_or_insert(999);
    w as i128 * 2 + calls as i128
}

#[inline(never)]
pub fn insert_case(a: u64, b: u64, c: u64) -> i128 {
    let mut o = opt_of(a);
    let r = o.insert(b % 77);
    *r += 1;
    enc(o) + (c % 2) as i128
}

#[inline(never)]
pub fn unwrap_panic(a: u64, b: u64, c: u64) -> i128 {
    // panics when a % 3 == 0
    let x = opt_of(a).unwrap();
    x as i128 + (b ^ c) as i128
}

#[inline(never)]
pub fn expect_panic(a: u64, b: u64, c: u64) -> i128 {
    let d = a.checked_sub(b).expect("a must be at least b");
    let e = opt_of(c).expect("c must not be a multiple of three");
    d as i128 * 2 + e as i128
}

fn sum_if_all(a: u64, b: u64, c: u64) -> Option<u64> {
    let x = opt_of(a)?;
    let y = opt_of(b)?;
    let z = (x % 1000).checked_add(y % 1000)?;
    z.checked_sub(c % 100)
}

#[inline(never)]
pub fn question_mark(a: u64, b: u64, c: u64) -> i128 {
    enc(sum_if_all(a, b, c))
}

#[inline(never)]
pub fn transpose_case(a: u64, b: u64, c: u64) -> i128 {
    let o: Option<Result<u64, u8>> = match a % 3 {
        0 => None,
        1 => Some(Ok(b)),
        _ => Some(Err(c as u8)),
    };
    let r: Result<Option<u64>, u8> = o.transpose();
    match r {
        Ok(Some(v)) => v as i128,
        Ok(None) => -1,
        Err(e) => -(e as i128) - 2,
    }
}

#[inline(never)]
pub fn flatten_case(a: u64, b: u64, c: u64) -> i128 {
    let oo: Option<Option<u64>> = if a > b { Some(opt_of(c)) } else { None };
    let tag = match &oo {
        None => 0,
        Some(None) => 1,
        Some(Some(_)) => 2,
    };
    enc(oo.flatten()) * 4 + tag
}

#[inline(never)]
pub fn option_ordering(a: u64, b: u64, c: u64) -> i128 {
    let x = opt_of(a);
    let y = opt_of(b);
    let lt = x < y;
    let eq = x == opt_of(c);
    let mx = x.max(y);
    lt as i128 + 2 * eq as i128 + enc(mx) * 4
}

#[inline(never)]
pub fn option_of_struct_match(a: u64, b: u64, c: u64) -> i128 {
    let acct = opt_of(a).map(|owner| Account { owner, balance: b % 500 });
    match acct {
        Some(Account { owner, balance }) if balance > c % 500 => owner as i128 + balance as i128,
        Some(Account { balance: 0, .. }) => -2,
        Some(ref x) => -(x.balance as i128) - 3,
        None => -1,
    }
}

#[inline(never)]
#[allow(for_loops_over_fallibles)]
pub fn iter_over_option(a: u64, b: u64, c: u64) -> i128 {
    let mut total: u64 = 0;
    for x in opt_of(a).iter() {
        total += x % 100;
    }
    for y in opt_of(b) {
        total += y % 100 * 2;
    }
    let n = opt_of(c).into_iter().count();
    total as i128 + n as i128 * 1000
}

crate::cases!(options:
    map_and_then, filter_case, unwrap_or_variants, ok_or_variants, zip_case, xor_or_case,
    and_case, take_replace, is_some_and_case, map_or_variants, as_ref_as_mut, cloned_copied,
    get_or_insert_with_case, insert_case, unwrap_panic, expect_panic, question_mark,
    transpose_case, flatten_case, option_ordering, option_of_struct_match, iter_over_option,
);
