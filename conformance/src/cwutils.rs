//! Theme 12: cw-utils (Expiration, Duration, Scheduled, Threshold, NativeBalance, payment helpers).

use std::cmp::Ordering;

use cosmwasm_std::{coin, Addr, BlockInfo, Coin, Decimal, MessageInfo, StdError, Timestamp};
use cw_utils::{
    may_pay, must_pay, nonpayable, one_coin, Duration, Expiration, NativeBalance, PaymentError,
    Scheduled, Threshold, ThresholdError, ThresholdResponse, DAY, HOUR,
};

fn block(height: u64, secs: u64) -> BlockInfo {
    BlockInfo {
        height: height % 1_000_000,
        time: Timestamp::from_seconds(secs % 1_000_000),
        chain_id: "conf-1".to_string(),
    }
}

fn expiration_of(kind: u64, v: u64) -> Expiration {
    match kind % 3 {
        0 => Expiration::AtHeight(v % 1_000_000),
        1 => Expiration::AtTime(Timestamp::from_seconds(v % 1_000_000)),
        _ => Expiration::Never {},
    }
}

fn enc_exp(e: &Expiration) -> i128 {
    match e {
        Expiration::AtHeight(h) => *h as i128 * 10 + 1,
        Expiration::AtTime(t) => t.seconds() as i128 * 10 + 2,
        Expiration::Never {} => 3,
    }
}

#[inline(never)]
pub fn expiration_is_expired(a: u64, b: u64, c: u64) -> i128 {
    let blk = block(a, b);
    let e1 = Expiration::AtHeight(c % 1_000_000);
    let e2 = Expiration::AtTime(Timestamp::from_seconds(c % 1_000_000));
    let e3 = Expiration::Never {};
    e1.is_expired(&blk) as i128 + 2 * e2.is_expired(&blk) as i128 + 4 * e3.is_expired(&blk) as i128
}

#[inline(never)]
pub fn expiration_partial_cmp(a: u64, b: u64, c: u64) -> i128 {
    let x = expiration_of(a, b);
    let y = expiration_of(b, c);
    let ord = match x.partial_cmp(&y) {
        Some(Ordering::Less) => 1,
        Some(Ordering::Equal) => 2,
        Some(Ordering::Greater) => 3,
        None => 4,
    };
    let lt = x < y;
    let ge = x >= y;
    let eq = x == y;
    ord + 10 * lt as i128 + 20 * ge as i128 + 40 * eq as i128
}

#[inline(never)]
pub fn expiration_default_and_display(a: u64, b: u64, c: u64) -> i128 {
    let d = Expiration::default();
    let e = if a % 2 == 0 { d } else { expiration_of(b, c) };
    let s = e.to_string();
    enc_exp(&e) + s.len() as i128 * 100_000_000 + (d == Expiration::Never {}) as i128 * 10_000_000_000
}

#[inline(never)]
pub fn expiration_add_duration(a: u64, b: u64, c: u64) -> i128 {
    let e = expiration_of(a, b);
    let d = if c % 2 == 0 { Duration::Height(c % 1000) } else { Duration::Time(c % 1000) };
    match e + d {
        Ok(x) => enc_exp(&x),
        Err(StdError::GenericErr { msg, .. }) => -(msg.len() as i128),
        Err(_) => -1000,
    }
}

#[inline(never)]
pub fn duration_after(a: u64, b: u64, c: u64) -> i128 {
    let blk = block(a, b);
    let d = if c % 2 == 0 { Duration::Height(c % 5000) } else { Duration::Time(c % 5000) };
    let e = d.after(&blk);
    let e1 = d.plus_one().after(&blk);
    let next = block(a % 1_000_000 + 1, b % 1_000_000 + 6);
    enc_exp(&e) + e.is_expired(&blk) as i128 * 1_000_000_000 + e1.is_expired(&next) as i128 * 2_000_000_000 + (e < e1) as i128 * 4_000_000_000
}

#[inline(never)]
pub fn duration_add_mul(a: u64, b: u64, c: u64) -> i128 {
    let x = if a % 2 == 0 { Duration::Height(a % 1000) } else { Duration::Time(a % 1000) };
    let y = if b % 2 == 0 { Duration::Height(b % 1000) } else { Duration::Time(b % 1000) };
    let scaled = x * (c % 5);
    let sv = match scaled {
        Duration::Height(h) => h as i128,
        Duration::Time(t) => -(t as i128),
    };
    let sum = match x + y {
        Ok(Duration::Height(h)) => h as i128,
        Ok(Duration::Time(t)) => 10000 + t as i128,
        Err(_) => -1,
    };
    let consts = match (HOUR, DAY) {
        (Duration::Time(h), Duration::Time(d)) => (d / h) as i128,
        _ => 0,
    };
    sv + sum * 100000 + consts * 10_000_000_000
}

#[inline(never)]
pub fn duration_overflow(a: u64, b: u64, c: u64) -> i128 {
    // Duration * u64 and Duration + Duration use plain arithmetic: panics on overflow
    let d = Duration::Height(a) * (b % 4);
    match d + Duration::Height(c) {
        Ok(Duration::Height(h)) => h as i128,
        _ => -1,
    }
}

#[inline(never)]
pub fn scheduled_case(a: u64, b: u64, c: u64) -> i128 {
    let blk = block(a, b);
    let s = if c % 2 == 0 { Scheduled::AtHeight(c % 1_000_000) } else { Scheduled::AtTime(Timestamp::from_seconds(c % 1_000_000)) };
    let trig = s.is_triggered(&blk);
    let later = s + Duration::Height(10);
    let cmp = s.partial_cmp(&Scheduled::AtHeight(a % 1_000_000));
    trig as i128 + later.is_ok() as i128 * 2 + match cmp {
        Some(Ordering::Less) => 10,
        Some(Ordering::Equal) => 20,
        Some(Ordering::Greater) => 30,
        None => 40,
    }
}

#[inline(never)]
pub fn threshold_validate(a: u64, b: u64, c: u64) -> i128 {
    let t = match a % 3 {
        0 => Threshold::AbsoluteCount { weight: b % 20 },
        1 => Threshold::AbsolutePercentage { percentage: Decimal::percent(b % 130) },
        _ => Threshold::ThresholdQuorum { threshold: Decimal::percent(50 + b % 60), quorum: Decimal::percent(c % 120) },
    };
    match t.validate(c % 25) {
        Ok(()) => 0,
        Err(ThresholdError::ZeroWeight {}) => -1,
        Err(ThresholdError::UnreachableWeight {}) => -2,
        Err(ThresholdError::InvalidThreshold {}) => -3,
        Err(ThresholdError::ZeroQuorumThreshold {}) => -4,
        Err(ThresholdError::UnreachableQuorumThreshold {}) => -5,
        Err(_) => -6,
    }
}

#[inline(never)]
pub fn threshold_to_response(a: u64, b: u64, c: u64) -> i128 {
    let t = match a % 3 {
        0 => Threshold::AbsoluteCount { weight: b % 20 },
        1 => Threshold::AbsolutePercentage { percentage: Decimal::percent(b % 100) },
        _ => Threshold::ThresholdQuorum { threshold: Decimal::percent(b % 100), quorum: Decimal::percent(c % 100) },
    };
    match t.to_response(c % 50) {
        ThresholdResponse::AbsoluteCount { weight, total_weight } => weight as i128 * 100 + total_weight as i128,
        ThresholdResponse::AbsolutePercentage { percentage, total_weight } => 10000 + (percentage.atomics().u128() / 10_000_000_000_000_000) as i128 * 100 + total_weight as i128,
        ThresholdResponse::ThresholdQuorum { threshold, quorum, total_weight } => {
            20000 + (threshold > quorum) as i128 * 1000 + total_weight as i128
        }
    }
}

fn enc_balance(b: &NativeBalance) -> i128 {
    // up to three coins with amounts < 1000 each
    b.0.iter().fold(b.0.len() as i128, |acc, c| acc * 10000 + c.amount.u128() as i128 * 10 + c.denom.len() as i128 % 10)
}

#[inline(never)]
pub fn native_balance_add(a: u64, b: u64, c: u64) -> i128 {
    let bal = NativeBalance(vec![coin(a as u128 % 500, "btc"), coin(7, "eth")]);
    let bal = bal + coin(b as u128 % 500, if b % 2 == 0 { "btc" } else { "atom" });
    let mut bal = bal + NativeBalance(vec![coin(c as u128 % 400, "eth")]);
    bal += coin(1, "zzz");
    enc_balance(&bal) % 1_000_000_000_000_000_000 + bal.0.len() as i128 * 1_000_000_000_000_000_000_000
}

#[inline(never)]
pub fn native_balance_sub(a: u64, b: u64, c: u64) -> i128 {
    let bal = NativeBalance(vec![coin(a as u128 % 100, "btc"), coin(50, "eth")]);
    let denom = match c % 3 {
        0 => "btc",
        1 => "eth",
        _ => "doge",
    };
    match bal - coin(b as u128 % 100, denom) {
        Ok(rest) => enc_balance(&rest),
        Err(StdError::Overflow { .. }) => -1,
        Err(_) => -2,
    }
}

#[inline(never)]
pub fn native_balance_sub_vec_saturating(a: u64, b: u64, c: u64) -> i128 {
    let bal = NativeBalance(vec![coin(a as u128 % 100, "btc"), coin(50, "eth")]);
    let sat = bal.clone().sub_saturating(coin(b as u128 % 200, if c % 2 == 0 { "btc" } else { "xrp" }));
    let sv = match sat {
        Ok(rest) => enc_balance(&rest),
        Err(_) => -1,
    };
    let many: Vec<Coin> = vec![coin(b as u128 % 60, "eth"), coin(c as u128 % 100, "btc")];
    let mv = match bal - many {
        Ok(rest) => rest.into_vec().len() as i128,
        Err(_) => -1,
    };
    sv * 10 + mv
}

#[inline(never)]
pub fn native_balance_has_empty_normalize(a: u64, b: u64, c: u64) -> i128 {
    let mut bal = NativeBalance(vec![
        coin(a as u128 % 10, "eth"),
        coin(b as u128 % 10, "btc"),
        coin(c as u128 % 10, "eth"),
        coin(0, "atom"),
    ]);
    let has = bal.has(&coin(5, "eth"));
    let empty = bal.is_empty();
    bal.normalize();
    let sorted = bal.0.windows(2).all(|w| w[0].denom < w[1].denom);
    has as i128 + 2 * empty as i128 + 4 * sorted as i128 + enc_balance(&bal) * 10 + NativeBalance::default().is_empty() as i128 * 8
}

fn info_with(funds: Vec<Coin>) -> MessageInfo {
    MessageInfo { sender: Addr::unchecked("sender"), funds }
}

fn funds_of(a: u64, b: u64) -> Vec<Coin> {
    match a % 4 {
        0 => vec![],
        1 => vec![coin(b as u128 % 1000, "uatom")],
        2 => vec![coin(b as u128 % 1000, "ujuno")],
        _ => vec![coin(b as u128 % 1000 + 1, "uatom"), coin(5, "ujuno")],
    }
}

fn enc_pay(e: &PaymentError) -> i128 {
    match e {
        PaymentError::MissingDenom(d) => -10 - d.len() as i128,
        PaymentError::ExtraDenom(d) => -30 - d.len() as i128,
        PaymentError::MultipleDenoms {} => -1,
        PaymentError::NoFunds {} => -2,
        PaymentError::NonPayable {} => -3,
    }
}

#[inline(never)]
pub fn payment_must_pay(a: u64, b: u64, c: u64) -> i128 {
    let info = info_with(funds_of(a, b));
    let denom = if c % 2 == 0 { "uatom" } else { "ujuno" };
    match must_pay(&info, denom) {
        Ok(amount) => amount.u128() as i128,
        Err(e) => enc_pay(&e),
    }
}

#[inline(never)]
pub fn payment_one_coin_nonpayable(a: u64, b: u64, c: u64) -> i128 {
    let info = info_with(funds_of(a, b));
    let one = match one_coin(&info) {
        Ok(cn) => cn.amount.u128() as i128 * 10 + cn.denom.len() as i128,
        Err(e) => enc_pay(&e),
    };
    let np = match nonpayable(&info_with(funds_of(c, b))) {
        Ok(()) => 0,
        Err(e) => enc_pay(&e),
    };
    one * 10 + np
}

#[inline(never)]
pub fn payment_may_pay(a: u64, b: u64, c: u64) -> i128 {
    let info = info_with(funds_of(a, b));
    let denom = if c % 2 == 0 { "uatom" } else { "ujuno" };
    match may_pay(&info, denom) {
        Ok(amount) => amount.u128() as i128 + (info.sender.as_str().len() as i128) * 10000,
        Err(e) => enc_pay(&e),
    }
}

crate::cases!(cwutils:
    expiration_is_expired, expiration_partial_cmp, expiration_default_and_display,
    expiration_add_duration, duration_after, duration_add_mul, duration_overflow,
    scheduled_case, threshold_validate, threshold_to_response, native_balance_add,
    native_balance_sub, native_balance_sub_vec_saturating, native_balance_has_empty_normalize,
    payment_must_pay, payment_one_coin_nonpayable, payment_may_pay,
);
