//! Constructs that behaviour-preserving refactors of the contracts were seen to introduce (second corpus batch):
//! marker-type generics without a receiver, `&dyn Trait` tables, `bool::then`, slice-pattern loops, `let-else`,
//! fn-pointer parameters, `impl From<(A, B)>`, byte prefixes, zipped attribute lists, storage-capturing closures.

use cosmwasm_std::testing::MockStorage;
use cosmwasm_std::{Addr, Attribute, OverflowError, OverflowOperation, Response, StdError, StdResult, Storage, Uint128};
use cw_storage_plus::{Item, Map};
use std::collections::BTreeSet;

// ---------------------------------------------------------------- marker-type generics (no receiver)
trait Standing {
    fn admits(weight: u64) -> bool;
    const CODE: i128;
}
struct Listed;
struct Weighted;
impl Standing for Listed {
    fn admits(_weight: u64) -> bool {
        true
    }
    const CODE: i128 = 1;
}
impl Standing for Weighted {
    fn admits(weight: u64) -> bool {
        weight >= 1
    }
    const CODE: i128 = 2;
}

fn sender_weight<S: Standing>(w: Option<u64>) -> Result<u64, i128> {
    match w {
        Some(x) if S::admits(x) => Ok(x),
        Some(_) => Err(-10 - S::CODE),
        None => Err(-S::CODE),
    }
}

#[inline(never)]
pub fn marker_generic_dispatch(a: u64, b: u64, c: u64) -> i128 {
    let w = if a % 3 == 0 { None } else { Some(b % 3) };
    let l = sender_weight::<Listed>(w).map_or_else(|e| e, |v| v as i128);
    let v = sender_weight::<Weighted>(w).map_or_else(|e| e, |v| v as i128 + 100);
    l * 1000 + v + (c % 2) as i128
}

fn nested_generic<S: Standing>(w: u64) -> i128 {
    // a generic helper calling another generic helper with its own parameter
    sender_weight::<S>(Some(w)).map_or(-1, |x| x as i128) + S::CODE * 10
}

#[inline(never)]
pub fn marker_generic_nested(a: u64, b: u64, _c: u64) -> i128 {
    nested_generic::<Listed>(a % 2) * 100 + nested_generic::<Weighted>(b % 2)
}

// ---------------------------------------------------------------- &dyn Trait legs driven by try_for_each
trait BalanceOp {
    fn apply(&self, held: Uint128) -> StdResult<Uint128>;
}
struct Debit(Uint128);
struct Credit(Uint128);
impl BalanceOp for Debit {
    fn apply(&self, held: Uint128) -> StdResult<Uint128> {
        held.checked_sub(self.0).map_err(StdError::from)
    }
}
impl BalanceOp for Credit {
    fn apply(&self, held: Uint128) -> StdResult<Uint128> {
        Ok(held + self.0)
    }
}
const BAL: Map<&Addr, Uint128> = Map::new("balance");

fn adjust(storage: &mut dyn Storage, who: &Addr, op: &dyn BalanceOp) -> StdResult<Uint128> {
    let held = BAL.may_load(storage, who)?.unwrap_or_default();
    let next = op.apply(held)?;
    BAL.save(storage, who, &next)?;
    Ok(next)
}

#[inline(never)]
pub fn dyn_legs_try_for_each(a: u64, b: u64, c: u64) -> i128 {
    let mut store = MockStorage::new();
    let alice = Addr::unchecked("alice");
    let bob = Addr::unchecked(if c % 2 == 0 { "bob" } else { "alice" });
    BAL.save(&mut store, &alice, &Uint128::new((a % 100) as u128)).unwrap();
    let amount = Uint128::new((b % 100) as u128);
    let legs: [(&Addr, &dyn BalanceOp); 2] = [(&alice, &Debit(amount)), (&bob, &Credit(amount))];
    let r = legs.into_iter().try_for_each(|(who, op)| adjust(&mut store, who, op).map(|_| ()));
    let fa = BAL.may_load(&store, &alice).unwrap().unwrap_or_default().u128() as i128;
    let fb = BAL.may_load(&store, &bob).unwrap().unwrap_or_default().u128() as i128;
    match r {
        Ok(()) => fa * 1000 + fb,
        Err(StdError::Overflow { source, .. }) if source.operation == OverflowOperation::Sub => -(fa * 1000 + fb) - 1,
        Err(_) => -999_999,
    }
}

// ---------------------------------------------------------------- bool::then / then_some / ok_or chains
#[inline(never)]
pub fn bool_then_chains(a: u64, b: u64, c: u64) -> i128 {
    let x = (a % 4 != 0).then_some(a % 10);
    let y = (b % 3 == 0).then(|| b % 7 + 1);
    let z: Result<(), i128> = (c % 5 < 3).then_some(()).ok_or(-5);
    let w = (a > b).then(|| a.checked_sub(b)).flatten();
    x.map_or(-1, |v| v as i128) + y.map_or(-10, |v| v as i128 * 10) + z.map_or_else(|e| e * 100, |_| 300) + w.map_or(0, |v| (v % 9) as i128 * 1000)
}

#[inline(never)]
pub fn then_transpose_lazy_division(a: u64, b: u64, c: u64) -> i128 {
    // division only happens when the guard holds (same panic inputs as an if/else)
    let stake = a % 50;
    let min = b % 50;
    let per = c % 4;
    let r: StdResult<Option<u64>> = (stake >= min).then(|| u64::try_from(stake as u128 / per as u128).map_err(|_| StdError::generic_err("wide"))).transpose();
    match r {
        Ok(Some(w)) => w as i128,
        Ok(None) => -1,
        Err(_) => -2,
    }
}

// ---------------------------------------------------------------- slice-pattern loops, let-else, labeled continue
#[inline(never)]
pub fn while_let_slice_rest(a: u64, b: u64, c: u64) -> i128 {
    let all = [a % 7, b % 7, c % 7, (a + b) % 7];
    let mut rest: &[u64] = &all[..(c % 5) as usize];
    let mut acc = 0i128;
    while let [first, tail @ ..] = rest {
        if *first == 3 {
            break;
        }
        acc = acc * 10 + *first as i128;
        rest = tail;
    }
    acc * 10 + rest.len() as i128
}

#[inline(never)]
pub fn loop_match_slice_is_admin(a: u64, b: u64, c: u64) -> i128 {
    let admins = ["alice", "bob", "carol"];
    let who = ["alice", "bob", "carol", "dave"][(a % 4) as usize];
    let mut slice: &[&str] = &admins[..(b % 4) as usize];
    let found = loop {
        match slice {
            [] => break false,
            [first, ..] if *first == who => break true,
            [_, rest @ ..] => slice = rest,
        }
    };
    found as i128 * 10 + (c % 2) as i128
}

#[inline(never)]
pub fn let_else_labeled_continue(a: u64, b: u64, c: u64) -> i128 {
    let items = [Some(a % 5), None, Some(b % 5), Some(c % 5)];
    let mut sum = 0i128;
    'outer: for (i, it) in items.iter().enumerate() {
        let Some(v) = it else { continue 'outer };
        for k in 0..3u64 {
            if k == *v {
                continue 'outer;
            }
            sum += (i as i128 + 1) * (k as i128 + 1);
        }
    }
    sum
}

// ---------------------------------------------------------------- fn pointers and named helper fns as arguments
fn missing_zero() -> Result<u64, i128> {
    Ok(0)
}
fn missing_err() -> Result<u64, i128> {
    Err(-7)
}
fn grow(x: u64, by: u64) -> Result<u64, i128> {
    x.checked_add(by).ok_or(-8)
}
fn shrink(x: u64, by: u64) -> Result<u64, i128> {
    Ok(x.saturating_sub(by))
}

fn adjust_with((amount, cap): (u64, Option<u64>), stored: Option<u64>, on_missing: fn() -> Result<u64, i128>, apply: fn(u64, u64) -> Result<u64, i128>) -> Result<u64, i128> {
    let base = stored.map_or_else(on_missing, Ok)?;
    let next = apply(base, amount)?;
    match cap {
        Some(c) if next > c => Err(-9),
        _ => Ok(next),
    }
}

#[inline(never)]
pub fn fn_pointer_params(a: u64, b: u64, c: u64) -> i128 {
    let stored = if a % 3 == 0 { None } else { Some(a % 100) };
    let cap = if c % 2 == 0 { Some(120) } else { None };
    let inc = adjust_with((b % 100, cap), stored, missing_zero, grow);
    let dec = adjust_with((b % 100, None), stored, missing_err, shrink);
    inc.map_or_else(|e| e, |v| v as i128) * 1000 + dec.map_or_else(|e| e, |v| v as i128)
}

// ---------------------------------------------------------------- impl From<(A, B)> for an internal enum
#[derive(Debug, PartialEq)]
enum Change {
    Keep,
    Set(u64),
    Drop,
}
impl From<(Option<u64>, Option<u64>)> for Change {
    fn from((new, old): (Option<u64>, Option<u64>)) -> Self {
        match (new, old) {
            (n, o) if n == o => Change::Keep,
            (Some(w), _) => Change::Set(w),
            (None, _) => Change::Drop,
        }
    }
}

#[inline(never)]
pub fn from_tuple_for_enum(a: u64, b: u64, c: u64) -> i128 {
    let new = (a % 3 != 0).then_some(a % 4);
    let old = (b % 3 != 0).then_some(b % 4);
    match Change::from((new, old)) {
        Change::Keep => (c % 10) as i128,
        Change::Set(w) => 100 + w as i128,
        Change::Drop => -100,
    }
}

// ---------------------------------------------------------------- byte prefixes and keys
#[inline(never)]
pub fn be_bytes_prefix_key(a: u64, b: u64, c: u64) -> i128 {
    const NS: &[u8] = b"members";
    let who = ["al", "bobby", "c"][(a % 3) as usize];
    let key: Vec<u8> = (NS.len() as u16).to_be_bytes().into_iter().chain(NS.iter().copied()).chain(who.as_bytes().iter().copied()).collect();
    let mut manual = Vec::with_capacity(2 + NS.len() + who.len());
    manual.push(0);
    manual.push(NS.len() as u8);
    manual.extend_from_slice(NS);
    manual.extend_from_slice(who.as_bytes());
    let same = key == manual;
    let le = (b as u32 % 70000).to_le_bytes();
    let back = u32::from_le_bytes(le);
    key.len() as i128 * 1000 + same as i128 * 100 + (back % 10) as i128 + (c % 2) as i128 * 10
}

// ---------------------------------------------------------------- zipped attributes, String::from as a function value
#[inline(never)]
pub fn zip_attributes_and_from_fn(a: u64, b: u64, c: u64) -> i128 {
    let keys = ["action", "sender", "amount"];
    let values = [String::from("ack"), format!("addr{}", a % 3), (b % 1000).to_string()];
    let res: Response = Response::new().add_attributes(keys.into_iter().zip(values));
    let denom = ["cw20:token", "uatom", "cw20:"][(c % 3) as usize];
    let stripped: Option<String> = denom.strip_prefix("cw20:").map(String::from);
    let attrs: Vec<Attribute> = res.attributes;
    let total_len: usize = attrs.iter().map(|at| at.key.len() + at.value.len()).sum();
    total_len as i128 * 100 + stripped.map_or(-1, |s| s.len() as i128)
}

// ---------------------------------------------------------------- storage-capturing closures, try_fold over rows
const SUPPLY: Item<Uint128> = Item::new("supply");

struct Row {
    name: &'static str,
    amount: u64,
}

#[inline(never)]
pub fn storage_closure_try_fold(a: u64, b: u64, c: u64) -> i128 {
    let mut store = MockStorage::new();
    let rows = [Row { name: "alice", amount: a % 50 }, Row { name: if c % 2 == 0 { "bob" } else { "alice" }, amount: b % 50 }, Row { name: "carol", amount: c % 50 }];
    let seen_unique = {
        let mut seen = BTreeSet::new();
        rows.iter().all(|r| seen.insert(r.name))
    };
    let total: StdResult<Uint128> = rows.iter().try_fold(Uint128::zero(), |acc, Row { name, amount }| {
        let addr = Addr::unchecked(*name);
        if *amount == 13 {
            return Err(StdError::overflow(OverflowError::new(OverflowOperation::Add)));
        }
        BAL.save(&mut store, &addr, &Uint128::new(*amount as u128))?;
        Ok(acc + Uint128::new(*amount as u128))
    });
    let mut bump = |by: u128| -> StdResult<Uint128> {
        let cur = SUPPLY.may_load(&store)?.unwrap_or_default();
        let next = cur + Uint128::new(by);
        SUPPLY.save(&mut store, &next)?;
        Ok(next)
    };
    let s1 = bump(1).unwrap();
    let s2 = bump(2).unwrap();
    let alice = BAL.may_load(&store, &Addr::unchecked("alice")).unwrap().map_or(-1, |v| v.u128() as i128);
    total.map_or(-1, |t| t.u128() as i128) * 10000 + alice * 100 + (s1.u128() + s2.u128()) as i128 * 10 + seen_unique as i128
}

// ---------------------------------------------------------------- explicit-discriminant state flag matched through `as u8`
#[repr(u8)]
#[derive(Clone, Copy)]
enum Gate {
    Open = 0,
    Decided = 1,
    Done = 2,
    Never = 7,
}

fn gate_of(a: u64) -> Gate {
    match a % 4 {
        0 => Gate::Open,
        1 => Gate::Decided,
        2 => Gate::Done,
        _ => Gate::Never,
    }
}

#[inline(never)]
pub fn repr_flag_range_match(a: u64, b: u64, c: u64) -> i128 {
    let g = gate_of(a);
    let h = gate_of(b);
    let first = match g as u8 {
        0 => 0,
        1..=2 => 10,
        _ => 20,
    };
    let second = if matches!(h, Gate::Decided | Gate::Done) { 1 } else { 2 };
    first + second + (g as u8 as i128) * 100 + (c % 2) as i128 * 1000
}

// ---------------------------------------------------------------- partial_cmp on Option<Ordering> with is_gt / or-patterns
#[inline(never)]
pub fn partial_cmp_clamp(a: u64, b: u64, c: u64) -> i128 {
    use cw_utils::Expiration;
    let max = Expiration::AtHeight(100 + b % 10);
    let wanted = match c % 3 {
        0 => Expiration::AtHeight(95 + a % 20),
        1 => Expiration::AtTime(cosmwasm_std::Timestamp::from_seconds(a % 10)),
        _ => Expiration::Never {},
    };
    let Some(ordering) = wanted.partial_cmp(&max) else { return -1 };
    let chosen = if ordering.is_gt() { max } else { wanted };
    match chosen {
        Expiration::AtHeight(h) => h as i128,
        Expiration::AtTime(_) => -2,
        Expiration::Never {} => -3,
    }
}

// ---------------------------------------------------------------- discriminants given by named constants, iter::from_fn paging
const RECEIVE_ID: u64 = 1337;
const ACK_FAILURE_ID: u64 = 0xfa17;

#[repr(u64)]
#[derive(Clone, Copy)]
enum Payout {
    Receive = RECEIVE_ID,
    AckFailure = ACK_FAILURE_ID,
    Next,
}

#[inline(never)]
pub fn const_discriminants(a: u64, b: u64, _c: u64) -> i128 {
    let k = match a % 3 {
        0 => Payout::Receive,
        1 => Payout::AckFailure,
        _ => Payout::Next,
    };
    let id = k as u64;
    (id as i128) * 10 + (id == RECEIVE_ID) as i128 + (b % 2) as i128 * 2
}

#[inline(never)]
pub fn from_fn_page_cutoff(a: u64, b: u64, c: u64) -> i128 {
    let all = [a % 9, b % 9, c % 9, (a + c) % 9, 4];
    let mut left = (b % 7) as usize;
    let mut range = all.iter();
    let page: Vec<u64> = std::iter::from_fn(|| {
        left = left.checked_sub(1)?;
        range.next().copied()
    })
    .collect();
    let untouched = range.count();
    let via_zip: Vec<u64> = (0..(c % 4)).zip(all.iter()).map(|(_, v)| *v).collect();
    let once_sum: u64 = std::iter::once(a % 5).chain(std::iter::repeat(1).take((b % 3) as usize)).sum();
    page.iter().fold(0i128, |acc, v| acc * 10 + *v as i128) * 10000 + untouched as i128 * 1000 + via_zip.len() as i128 * 100 + once_sum as i128
}

crate::cases!(extras:
    const_discriminants, from_fn_page_cutoff,
    marker_generic_dispatch, marker_generic_nested, dyn_legs_try_for_each, bool_then_chains,
    then_transpose_lazy_division, while_let_slice_rest, loop_match_slice_is_admin, let_else_labeled_continue,
    fn_pointer_params, from_tuple_for_enum, be_bytes_prefix_key, zip_attributes_and_from_fn,
    storage_closure_try_fold, repr_flag_range_match, partial_cmp_clamp,
);
