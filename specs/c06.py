"""C06 — cw3: each ballot is one eligible voter's weight from the proposal's own snapshot."""
import z3
from mirsym.values import *
from mirsym import symval
from mirsym.ctx import ItemStore, MapStore
from .common import *
from .cw3ms import *
from .c03 import new_proposal, variant_yes


class FixedBase(VC):
    """instantiate: the total weight proposals are measured against equals the sum of the stored voters' weights,
    for every voter list including repeated addresses and zero weights"""
    property_id = "C06"
    crate = FIXED

    def __init__(self, nvoters):
        self.nvoters = nvoters
        self.name = f"C06.fixed.instantiate[voters<={nvoters}]"

    def run(self, I, ctx, ob):
        for ns, ty in (("config", "state::Config"), ("proposal_count", "u64"), ("contract_info", "cw2::ContractVersion")):
            ctx.storage[ns] = ItemStore(ns, False, None, ty)
        ctx.storage["voters"] = MapStore("voters", [], None, "u64")
        ctx.storage["proposals"] = MapStore("proposals", [], ["u64"], "cw3::Proposal")
        ctx.storage["votes"] = MapStore("votes", [], ["u64", None], "cw3::Ballot")
        env, info = mk_env(I, ctx), mk_info(I, ctx)
        ctx.bounds["vec"] = self.nvoters
        msg = symval.fresh(I, ctx, "msg::InstantiateMsg", "msg", None, FIXED)
        outcome, r, pre = call_entry(I, ctx, ob, FIXED, "instantiate", "instantiate", [make_deps(), env, info, msg], env, info, msg, "msg::InstantiateMsg", FIXED)
        if outcome != "Ok": return
        voters = lazy_forced(ctx, msg.get("voters"))
        addrs = [ctx.atom_of(x.get("addr")) for x in voters.items]
        dup = len(set(addrs)) < len(addrs)
        cfg = ctx.storage["config"].value
        ob.require("C06.total_weight_is_sum_of_stored_voter_weights", cfg.get("total_weight") == map_sum(ctx.storage["voters"]),
                   known={"fixed/duplicate-voter-address": dup})
        ob.require("C06.every_listed_voter_is_stored_with_its_weight", zand(*[_stored_weight(ctx, ctx.storage["voters"], x) for x in voters.items]) if not dup else True)
        ob.witness("two_voters", len(voters.items) == self.nvoters)
        ob.twin("twin.total_weight_zero", cfg.get("total_weight") == 0)


def _stored_weight(ctx, store, voter):
    for k, p, w in store.slots:
        if ctx.atom_of(k[0]) is ctx.atom_of(voter.get("addr")): return zand(p, w == voter.get("weight"))
    return False


class Step(VC):
    property_id = "C06"

    def __init__(self, crate, variant, after=None, large=0):
        self.crate, self.variant, self.after, self.large = crate, variant, after, large
        self.extra_crates = ("cw3",)
        self.name = f"C06.{'fixed' if crate == FIXED else 'flex'}." + (f"chain.{after}.then." if after else "") + variant + (f"[{large} members]" if large else "")

    def run(self, I, ctx, ob):
        f = ms_step(I, ctx, ob, self.crate, self.variant, after=self.after, large=self.large)
        if f.outcome != "Ok": return
        v = self.variant
        blk = f.blk
        if v == "Vote" and f.on_focus:
            p0p, p0 = slot_map(f.pre["proposals"])[(f.pid,)]
            b0 = {ctx.atom_of(k[1]): (p, b) for k, p, b in f.pre["votes"].slots}
            b1 = {ctx.atom_of(k[1]): (p, b) for k, p, b in f.post["votes"].slots}
            me = ctx.atom_of(f.sender)
            had = b0.get(me, (False, None))[0]
            ob.require("C06.one_ballot_per_voter_and_proposal", znot(had))
            e = expired(ctx, p0.get("expires"), f.env)
            ob.require("C06.no_ballot_after_expiry_or_execution", zand(znot(e) if e is not None else False, znot(status_is(ctx, p0, "Executed")), p0p))
            p, b = b1.get(me, (False, None))
            if b is None: ob.require("C06.ballot_recorded", False); return
            if self.crate == FIXED:
                vp, vw = slot_map(f.pre["voters"]).get((f.V[f.si],), (False, 0)) if f.si is not None else (False, 0)
                ob.require("C06.ballot_weight_is_the_voters_fixed_weight", zand(p, vp, b.get("weight") == vw, vw >= 1))
            else:
                gp, gw = f.genv.at(ctx, f.V[f.si], p0.get("start_height")) if f.si is not None else (False, 0)
                ob.require("C06.ballot_weight_is_the_group_weight_at_proposal_start", zand(p, gp, b.get("weight") == gw, gw >= 1))
            ob.require("C06.ballot_records_the_cast_vote", spec_eq(ctx, b.get("vote"), f.msg.get("vote")))
            for a in set(b0) | set(b1):
                if a is me: continue
                x0, x1 = b0.get(a, (False, None)), b1.get(a, (False, None))
                ob.require("C06.other_ballots_untouched", zand(zeq(x0[0], x1[0]), zor(znot(x1[0]), spec_eq(ctx, x0[1], x1[1]) if x0[1] is not None and x1[1] is not None else False)))
            p1p, p1 = focus_post(ctx, f)
            tot = tally_of_ballots(ctx, f.post)
            ob.require("C06.ballots_never_outweigh_the_total", tot["Yes"] + tot["No"] + tot["Abstain"] + tot["Veto"] <= p1.get("total_weight"))
            ob.require("C06.vote_keeps_total_and_snapshot_height", zand(p1.get("total_weight") == p0.get("total_weight"), p1.get("start_height") == p0.get("start_height")))
            ob.witness("voted")
        elif v == "Propose":
            np_ = new_proposal(f)
            if np_ is None: ob.require("C06.propose_creates_one_proposal", False); return
            prop = np_[2]
            nb = [s for s in f.post["votes"].slots[len(f.V):]]
            if len(nb) != 1: ob.require("C06.proposer_ballot_recorded", False); return
            b = nb[0][2]
            if self.crate == FIXED:
                vp, vw = slot_map(f.pre["voters"]).get((f.V[f.si],), (False, 0)) if f.si is not None else (False, 0)
                ob.require("C06.proposer_ballot_is_the_proposers_fixed_weight", zand(vp, b.get("weight") == vw))
                ob.require("C06.proposal_total_is_the_configured_total", prop.get("total_weight") == f.cfg.get("total_weight"))
            else:
                H = blk.get("height")
                snap = {a: f.genv.at(ctx, a, H) for a in f.V}
                changed_now = zor(*[znot(zand(zeq(snap[a][0], f.genv.now[a][0]), zimplies(snap[a][0], snap[a][1] == f.genv.now[a][1]))) for a in f.V])
                gp, gw = snap[f.V[f.si]] if f.si is not None else (False, 0)
                ob.require("C06.proposer_ballot_is_the_group_weight_at_block_start", zand(gp, b.get("weight") == gw),
                           known={"flex/same-block-group-change": changed_now})
                ob.require("C06.proposal_total_is_the_group_total_at_block_start", prop.get("total_weight") == zsum([zite(p, w, 0) for p, w in snap.values()]),
                           known={"flex/same-block-group-change": changed_now})
                ob.require("C06.snapshot_height_is_the_proposal_block", prop.get("start_height") == H)
            ob.witness("proposed")
        elif v in ("Execute", "Close") and f.on_focus:
            b0 = slot_map(f.pre["votes"]); b1 = slot_map(f.post["votes"])
            ob.require("C06.ballots_untouched_by_execute_and_close", zand(*[zand(zeq(b0[k][0], b1[k][0]), spec_eq(ctx, b0[k][1], b1[k][1])) for k in b0]))
        elif v == "MemberChangedHook":
            b0 = slot_map(f.pre["votes"]); b1 = slot_map(f.post["votes"])
            p0 = slot_map(f.pre["proposals"]); p1 = slot_map(f.post["proposals"])
            ob.require("C06.membership_changes_never_alter_ballots_totals_or_outcome", zand(*[zand(zeq(b0[k][0], b1[k][0]), spec_eq(ctx, b0[k][1], b1[k][1])) for k in b0],
                       *[zand(zeq(p0[k][0], p1[k][0]), spec_eq(ctx, p0[k][1], p1[k][1])) for k in p0]))
        ob.witness("ok")
        ob.twin("twin.no_ballot_is_ever_recorded", len(f.post["votes"].slots) == len(f.pre["votes"].slots) and
                all(zeq(a[1], b[1]) is True for a, b in zip(f.pre["votes"].slots, f.post["votes"].slots)) if v in ("Vote", "Propose") else False)


def vcs(tier):
    out = [FixedBase(2)] + [Step(FIXED, v) for v in ("Propose", "Vote", "Execute", "Close")]
    out += [Step(FLEX, v) for v in ("Propose", "Vote", "Execute", "Close", "MemberChangedHook")]
    out.append(Step(FLEX, "Propose", large=12))          # a group bigger than a ListMembers page
    if tier == "thorough": out.append(FixedBase(3))
    # two-call chains on one proposal (thorough): the second call is judged on the state the first really left behind
    if tier == "thorough":
        CHV = ("Vote", "Execute", "Close")
        for c in (FIXED, FLEX): out += [Step(c, b, after=a) for a in CHV for b in CHV]
    return out


BOUNDS = {"voters in InstantiateMsg": "<= 2 (3 thorough), duplicates and zero weights included", "voters / group members with state": NV,
          "group history": "symbolic: weight of each member now and at the start of any queried block", "weights": "full u64"}
OUTSIDE = "groups with more than %d members holding weight (closed world); group contracts that violate the cw4 spec (C09 covers the shipped ones)" % NV
ASSUMPTIONS = ["flex: the group answers raw TOTAL / members reads from its current state and Member{at_height: h} from the state at the start of block h (cw4 spec, C09)",
               "kernel abstraction as in C03"]
