"""Shared helpers for property specs: environment values, symbolic state builders, VC base class."""
import z3
from mirsym.values import *
from mirsym.ctx import ItemStore, MapStore
from mirsym import symval
from mirsym.explore import run_entry, snapshot_storage
from mirsym.models.cosmwasm import make_deps


class VC:
    """one verification condition: run(I, ctx, ob) explores one path and registers obligations"""
    name = "?"
    crate = "?"
    property_id = "?"
    bounds = {}

    def run(self, I, ctx, ob):
        raise NotImplementedError


def universe(ctx, n, prefix="a", ordered=True):
    """n pairwise distinct abstract strings.  ordered=True: in increasing order (for listings);
    ordered=False: interchangeable, enables the symmetry reduction of ctx.sym_reduce"""
    atoms = [ctx.new_atom(f"{prefix}{i}", universe=(prefix, i)) for i in range(n)]
    for i, x in enumerate(atoms):
        for y in atoms[i + 1:]:
            ctx.diseq.append((x, y))
            if not ordered: ctx.assume(x.rank != y.rank)
    if ordered:
        for x, y in zip(atoms, atoms[1:]): ctx.assume(x.rank < y.rank)
        for x in atoms: x.extra["touched"] = True
    else:
        ctx.sym_reduce = True
    return atoms


def mk_env(I, ctx, contract="contract"):
    h = ctx.fresh_int("block.height", 0, U64, unique=False)
    t = ctx.fresh_int("block.time", 0, U64, unique=False)
    block = Struct("BlockInfo", [h, t, "chain"], ["height", "time", "chain_id"])
    env = Struct("Env", [block, NONE, Struct("ContractInfo", [contract], ["address"])], ["block", "transaction", "contract"])
    return env


def mk_info(I, ctx, sender=None, funds=None, name="sender"):
    if sender is None: sender = SymStr(ctx.fresh_id(), name, "addr")
    if funds is None: funds = VecV([])
    return Struct("MessageInfo", [sender, funds], ["sender", "funds"])


def sym_item(I, ctx, ns, ty, crate, present=None, value=None):
    if present is None: present = ctx.fresh_bool(f"{ns}.present", unique=False)
    if value is None: value = symval.fresh(I, ctx, ty, ns, None, crate)
    st = ItemStore(ns, present, value, ty)
    ctx.storage[ns] = st
    return st


def sym_map(I, ctx, ns, keys, val_ty, crate, mkval=None):
    """keys: list of key tuples.  each slot gets a symbolic presence bit and a fresh value"""
    st = MapStore(ns, [], None, val_ty)
    for i, k in enumerate(keys):
        nm = f"{ns}[{','.join(getattr(c, 'name', str(c)) for c in k)}]"
        p = ctx.fresh_bool(nm + ".present", unique=False)
        v = mkval(nm, k) if mkval else symval.fresh(I, ctx, val_ty, nm, None, crate)
        st.slots.append([tuple(k), p, v])
    ctx.storage[ns] = st
    return st


def map_sum(st, f=lambda v: v):
    return zsum([zite(p, f(v), 0) for k, p, v in st.slots])


def cw2_item(I, ctx, crate):
    return sym_item(I, ctx, "contract_info", "cw2::ContractVersion", crate)


def fn(I, name, crate):
    f = I.prog.resolve(name, crate)
    if f is None or not f.blocks: raise Unsupported(f"entry point {name} not found in MIR of {crate}")
    return f


def msgs_of(resp):
    return resp.get("messages").items


def call_entry(I, ctx, ob, contract, entry, fname, args, env, info, msg, msg_ty, crate, result_ty="Response", querier=None):
    """run an entry point, roll back on failure, and record what the native replay needs"""
    pre = snapshot_storage(ctx.storage)
    outcome, r = run_entry(I, ctx, fn(I, fname, crate), args, pre)
    ob.outcome = outcome
    ob.info["replay"] = dict(contract=contract, entry=entry, crate=crate, env=env, info=info, msg=msg, msg_ty=msg_ty,
                             pre_storage=pre, post_storage=snapshot_storage(ctx.storage), outcome=outcome,
                             result=r if outcome == "Ok" else None, result_ty=result_ty, querier=querier)
    return outcome, r, pre


def stub_result(name):
    """nondeterministic pure Result<(), E> stub (declared in the spec's ASSUMPTIONS)"""
    def h(I, ctx, callee, args, crate):
        ok = ctx.fresh_bool(f"stub[{name}].ok")
        if ctx.branch(ok, f"stub {name}"): return Ok(())
        return Err(EnumV("ContractError", "Stubbed_" + name, ()))
    return h


def call_query(I, ctx, ob, contract, fname, args, env, qmsg, msg_ty, crate, result_ty, querier=None):
    """run a query function from MIR and record what the native replay (public `query` entry point) needs"""
    pre = snapshot_storage(ctx.storage)
    outcome, r = run_entry(I, ctx, fn(I, fname, crate), args, pre)
    ob.info["replay"] = dict(contract=contract, entry="query", crate=crate, env=env, info=None, msg=qmsg, msg_ty=msg_ty, pre_storage=pre, post_storage=pre,
                             outcome=outcome, result=r if outcome == "Ok" else None, result_ty=result_ty, querier=querier)
    return outcome, r, pre
