"""Shared symbolic state for the cw4 group contracts (C09, C10, C14)."""
import z3
from mirsym.values import *
from mirsym import symval
from mirsym.ctx import ItemStore, MapStore
from .common import *
from .cw20 import lazy_forced, expired, spec_eq, resolve, slot_map

GROUP, STAKE = "cw4-group", "cw4-stake"


def group_state(I, ctx, crate, n=3, nhooks=2, ordered=False, changelog="empty", large=False):
    """admin / hooks / members / total of a cw4 contract; the snapshot bookkeeping maps start empty unless a spec fills them.
    large=True: n concrete (valid, sorted) addresses, all of them members with symbolic weights — a group bigger than a list page"""
    if large:
        from mirsym import replay as _rp
        U = sorted(_rp.addr_pool(n, prefix="member"))
    else:
        U = universe(ctx, n, "m", ordered=ordered)
    sym_item(I, ctx, "admin", "Option<Addr>", crate, present=True)
    ctx.bounds["vec"] = nhooks
    sym_item(I, ctx, "cw4-hooks", "Vec<Addr>", crate)
    ms = sym_map(I, ctx, "members", [(a,) for a in U], "u64", crate)
    if large:
        from mirsym.models.cosmwasm import valid_addr_pred
        for sl in ms.slots: sl[1] = True
        for a in U: ctx.assume(valid_addr_pred(ctx, ctx.atom_of(a)))          # addresses from the replay pool are valid bech32
    sym_item(I, ctx, "total", "u64", crate, present=True)
    ctx.storage["members__checkpoints"] = MapStore("members__checkpoints", [], ["u64"], "u32")
    ctx.storage["total__checkpoints"] = MapStore("total__checkpoints", [], ["u64"], "u32")
    ctx.storage["members__changelog"] = MapStore("members__changelog", [], [None, "u64"], "ChangeSet<u64>")
    ctx.storage["total__changelog"] = MapStore("total__changelog", [], ["u64"], "ChangeSet<u64>")
    cw2_item(I, ctx, crate)
    return U


def members_sum(storage):
    return map_sum(storage["members"])


def stored_admin(ctx, storage):
    """None if never inspected; else (has_admin, addr)"""
    a = lazy_forced(ctx, storage["admin"].value)
    if a is None: return None
    return (a.variant == "Some", a.fields[0] if a.variant == "Some" else None)


def hooks_of(ctx, storage):
    st = storage["cw4-hooks"]
    v = lazy_forced(ctx, st.value)
    return st.present, (None if v is None else list(v.items))


def weight_map(ctx, storage):
    """{addr class: (present, weight)}"""
    return {ctx.atom_of(k[0]): (p, v) for k, p, v in storage["members"].slots}
