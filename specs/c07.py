"""C07 — cw1: the proxy relays exactly the submitted messages, only when authorised."""
import z3
from mirsym.values import *
from mirsym import symval
from .common import *
from .cw1 import *


def relayed_exactly(ctx, resp, msgs):
    out = msgs_of(resp)
    if len(out) != len(msgs): return False
    ok = True
    for sm, m in zip(out, msgs):
        ok = zand(ok, sm.get("msg") is m or spec_eq(ctx, sm.get("msg"), m), sm.get("id") == 0, sm.get("reply_on").variant == "Never",
                  sm.get("gas_limit").variant == "None", len(sm.get("payload").items) == 0 if isinstance(sm.get("payload"), VecV) else False)
    return ok


class Whitelist(VC):
    property_id = "C07"
    crate = WL
    name = "C07.whitelist.execute"

    def run(self, I, ctx, ob):
        al = admin_state(I, ctx, WL)
        env, info = mk_env(I, ctx), mk_info(I, ctx)
        ctx.bounds["vec"] = 2
        msg = symval.fresh(I, ctx, "msg::ExecuteMsg<Empty>", "msg", None, WL)
        msg.variants = ["Execute"]
        m = I.force(ctx, msg)
        msgs = I.force(ctx, m.get("msgs"))
        outcome, r, pre = call_entry(I, ctx, ob, WL, "execute", "execute", [make_deps(), env, info, m], env, info, m, "msg::ExecuteMsg<Empty>", WL)
        if outcome != "Ok": return
        adm = is_admin(I, ctx, pre, info.get("sender"))
        ob.require("C07.relay_only_for_admins", adm)
        ob.require("C07.relays_exactly_the_submitted_messages", relayed_exactly(ctx, r, list(msgs.items)))
        ob.require("C07.relay_changes_no_state", spec_eq(ctx, pre["admin_list"].value, ctx.storage["admin_list"].value))
        ob.witness("relayed_two", len(msgs.items) == 2)
        ob.witness("relayed_none", len(msgs.items) == 0)
        ob.twin("twin.nothing_is_ever_relayed", len(msgs_of(r)) == 0)


class Subkeys(VC):
    property_id = "C07"
    crate = SK

    def __init__(self, nmsgs, nadm=NADM, ncoin=NCOIN):
        self.nmsgs, self.nadm, self.ncoin = nmsgs, nadm, ncoin
        self.name = f"C07.subkeys.execute[msgs={nmsgs},admins<={nadm},coins<={ncoin}]"

    def run(self, I, ctx, ob):
        U, al, alw, perm = subkeys_state(I, ctx, nsub=1, nadm=self.nadm, ncoin=self.ncoin)
        env, info = mk_env(I, ctx), mk_info(I, ctx)
        sender = info.get("sender")
        si = resolve(ctx, sender, U)
        pre_coins = None
        if si is not None:
            pre_coins = force_balance(I, ctx, alw.slots[si][2])
        msg = symval.fresh(I, ctx, "msg::ExecuteMsg<Empty>", "msg", None, SK)
        msg.variants = ["Execute"]
        m = I.force(ctx, msg)
        mv = m.get("msgs"); mv.min = mv.bound = self.nmsgs
        msgs = I.force(ctx, mv)
        outcome, r, pre = call_entry(I, ctx, ob, SK, "execute", "execute", [make_deps(), env, info, m], env, info, m, "msg::ExecuteMsg<Empty>", SK)
        if outcome != "Ok": return
        ob.require("C07.relays_exactly_the_submitted_messages", relayed_exactly(ctx, r, list(msgs.items)))
        adm = is_admin(I, ctx, pre, sender)
        if not adm:
            # every message individually covered by the caller's grants in the pre-state, cumulatively for sends
            covered = True
            remaining = coins_by_denom(ctx, pre_coins.items) if pre_coins is not None else {}
            for cm in msgs.items:
                cm = lazy_forced(ctx, cm)
                if cm is None: covered = False; break
                inner = lazy_forced(ctx, cm.fields[0]) if cm.fields else None
                if cm.variant == "Bank" and inner is not None and inner.variant == "Send":
                    has = si is not None and alw.slots[si][1]
                    e = expired(ctx, alw.slots[si][2].get("expires"), env) if si is not None else None
                    covered = zand(covered, has, znot(e) if e is not None else False)
                    coins = lazy_forced(ctx, inner.get("amount"))
                    if coins is None: covered = False; break
                    for c in coins.items:
                        d = ctx.atom_of(c.get("denom"))
                        if d not in remaining: covered = False; break
                        covered = zand(covered, remaining[d] >= c.get("amount"))
                        remaining[d] = remaining[d] - c.get("amount")
                elif cm.variant == "Staking" and inner is not None:
                    p = perm.slots[si] if si is not None else None
                    flag = {"Delegate": "delegate", "Undelegate": "undelegate", "Redelegate": "redelegate"}.get(inner.variant)
                    covered = zand(covered, p is not None and flag is not None and zand(p[1], p[2].get(flag)))
                elif cm.variant == "Distribution" and inner is not None:
                    p = perm.slots[si] if si is not None else None
                    covered = zand(covered, p is not None and inner.variant in ("SetWithdrawAddress", "WithdrawDelegatorReward") and zand(p[1], p[2].get("withdraw")))
                else:
                    covered = False
                if covered is False: break
            ob.require("C07.non_admin_relay_only_when_every_message_is_covered", covered)
            ob.witness("subkey_relayed", len(msgs.items) > 0)
        else:
            ob.require("C07.admin_relay_changes_no_grants", zand(*[zand(zeq(p0, p1), spec_eq(ctx, v0, v1)) for (k0, p0, v0), (k1, p1, v1) in zip(pre["allowances"].slots, ctx.storage["allowances"].slots)]))
            ob.witness("admin_relayed")
        ob.twin("twin.nothing_is_ever_relayed", len(msgs_of(r)) == 0)


def vcs(tier):
    out = [Whitelist(), Subkeys(0), Subkeys(1), Subkeys(2, 1, 1)]
    if tier == "thorough": out += [Subkeys(2, 2, 2), Subkeys(1, 1, 4)]
    return out


BOUNDS = {"admins": "<= 2", "msgs per call": "<= 2", "coins per send / per allowance": "<= 2", "CosmosMsg kinds": "all variants of the crate's feature set (Bank Send/Burn, Custom, Staking x3, Distribution x2, Wasm x5)",
          "amounts": "full u128"}
OUTSIDE = "longer message / coin lists (loops are uniform); Ibc/Gov/Stargate variants are not compiled into these crates (cosmwasm-std feature set)"
ASSUMPTIONS = ["stored allowance balances have pairwise distinct denoms (representation invariant, shown inductive in C08)"]
