"""Shared symbolic state / step harness for the two multisigs (C03, C05, C06, C15)."""
import z3
from mirsym.values import *
from mirsym import symval
from mirsym.ctx import ItemStore, MapStore
from mirsym.explore import run_entry, snapshot_storage
from .common import *
from .cw20 import lazy_forced, expired, spec_eq, resolve, slot_map

FIXED, FLEX = "cw3-fixed-multisig", "cw3-flex-multisig"
NV = 3
VOTE_KINDS = ["Yes", "No", "Abstain", "Veto"]
E18, E9 = 10 ** 18, 10 ** 9


def valid_threshold(I, ctx, thr, total):
    """Threshold::validate(total) passed when the multisig was instantiated (C04's precondition)"""
    t = I.force(ctx, thr)
    if t.variant == "AbsoluteCount":
        ctx.assume(zand(t.fields[0] >= 1, t.fields[0] <= total))
    elif t.variant == "AbsolutePercentage":
        ctx.assume(zand(t.fields[0] >= E18 // 2, t.fields[0] <= E18))
    else:
        ctx.assume(zand(t.fields[0] >= E18 // 2, t.fields[0] <= E18, t.fields[1] >= 1, t.fields[1] <= E18))
    return t


_B, _Z = z3.BoolSort(), z3.IntSort()
PASS_UF = z3.Function("cw3_is_passed", _Z, _Z, _Z, _Z, _Z, _Z, _Z, _Z, _B, _B)
REJ_UF = z3.Function("cw3_is_rejected", _Z, _Z, _Z, _Z, _Z, _Z, _Z, _Z, _B, _B)


def install_kernel_abstraction(I, ctx):
    """the contract-level VCs (C03/C05/C06/C15) use the cw3 threshold kernel through an abstraction: is_passed / is_rejected are
    uninterpreted functions of (tally, total weight, threshold, expired) constrained by the facts C04 proves about the real
    kernel from its MIR: never both, never passed without Yes weight, and monotone under further votes / expiry.
    (current_status / update_status are still interpreted from MIR on top of them.)"""
    ctx.kernel_calls = []

    def args_of(prop, blk):
        prop, blk = I.deref(ctx, prop), I.deref(ctx, blk)
        v = prop.get("votes")
        thr = I.force(ctx, prop.get("threshold"))
        kind = {"AbsoluteCount": 0, "AbsolutePercentage": 1, "ThresholdQuorum": 2}[thr.variant]
        ta = thr.fields[0]
        tb = thr.fields[1] if len(thr.fields) > 1 else 0
        f = I.prog.resolve("Expiration::is_expired", "cw3")
        e = I.call_mir(ctx, f, [Ref(Cell("e", I.force(ctx, prop.get("expires")))), Ref(Cell("b", blk))])
        if isinstance(e, bool): e = z3.BoolVal(e)
        return (v.get("yes"), v.get("no"), v.get("abstain"), v.get("veto"), prop.get("total_weight"), kind, ta, tb, e)

    def record(a):
        P, R = PASS_UF(*a), REJ_UF(*a)
        ctx.assume(z3.Not(z3.And(P, R)))
        ctx.assume(z3.Implies(P, a[0] > 0))
        for b_ in ctx.kernel_calls:
            for x, y in ((b_, a), (a, b_)):
                same_cfg = zand(zeq(x[4], y[4]), x[5] == y[5], zeq(x[6], y[6]), zeq(x[7], y[7]))
                if same_cfg is False: continue
                later = zand(same_cfg, x[0] <= y[0], x[1] <= y[1], x[2] <= y[2], x[3] <= y[3], y[0] + y[1] + y[2] + y[3] <= y[4],
                             z3.Implies(x[8], y[8]), z3.Implies(x[8], zand(zeq(x[0], y[0]), zeq(x[1], y[1]), zeq(x[2], y[2]), zeq(x[3], y[3]))))
                ctx.assume(zimplies(later, zand(z3.Implies(PASS_UF(*x), PASS_UF(*y)), z3.Implies(REJ_UF(*x), REJ_UF(*y)))))
                # only more Yes weight, same expiry flag: a pass persists (C04.monotone_yes)
                more_yes = zand(same_cfg, x[0] <= y[0], zeq(x[1], y[1]), zeq(x[2], y[2]), zeq(x[3], y[3]), y[0] + y[1] + y[2] + y[3] <= y[4], x[8] == y[8])
                ctx.assume(zimplies(more_yes, z3.Implies(PASS_UF(*x), PASS_UF(*y))))
        ctx.kernel_calls.append(a)
        return P, R

    def is_passed(I_, ctx_, callee, args, crate):
        return record(args_of(args[0], args[1]))[0]

    def is_rejected(I_, ctx_, callee, args, crate):
        a = args_of(args[0], args[1])
        # the real function computes `total_weight - weight_needed` for AbsoluteCount: it panics when the configured count exceeds
        # the proposal's total weight (possible for a flex multisig whose group shrank after instantiation)
        if a[5] == 0 and not ctx_.branch(a[6] <= a[4], "count<=total"):
            raise Panic("is_rejected: total_weight - weight_needed underflow")
        return record(a)[1]
    ctx.stubs["is_passed"] = is_passed
    ctx.stubs["is_rejected"] = is_rejected
    ctx.model_refiners = [kernel_reference]


def _vn(cs, w, p, tag):
    """votes_needed(w, p) as the library computes it: ceil(floor(1e9*w*p / 1e18) / 1e9)"""
    q1, r1, q2, r2 = [z3.Int(f"ref.{tag}.{k}") for k in ("q1", "r1", "q2", "r2")]
    cs += [q1 >= 0, r1 >= 0, r1 < E18, E9 * w * p == q1 * E18 + r1, q2 >= 0, r2 >= 0, r2 < E9, q1 + E9 - 1 == q2 * E9 + r2]
    return q2


def kernel_reference(ctx):
    """reference definition of the abstracted kernel calls of this path (used only to pick a replayable counterexample)"""
    cs = []
    for i, a in enumerate(ctx.kernel_calls):
        yes, no, ab, veto, total, kind, ta, tb, e = a
        voted = yes + no + ab + veto
        if kind == 0:
            passed = yes >= ta
            rej = no > total - ta
        elif kind == 1:
            passed = yes >= _vn(cs, total - ab, ta, f"{i}.p")
            rej = no > _vn(cs, total - ab, E18 - ta, f"{i}.r")
        else:
            opin = z3.If(e, voted - ab, total - ab)
            passed = z3.And(voted >= _vn(cs, total, tb, f"{i}.q"), yes >= _vn(cs, opin, ta, f"{i}.p"))
            rej = no > _vn(cs, opin, E18 - ta, f"{i}.r")
        cs.append(PASS_UF(*a) == z3.And(yes > 0, passed))
        cs.append(REJ_UF(*a) == rej)
    return cs


def kernel(I, ctx, name, prop, blk):
    """call the cw3 library kernel on a proposal value at a block"""
    try:
        return I.call(ctx, f"cw3::Proposal::{name}", [Ref(Cell("p", prop)), Ref(Cell("b", blk))], "cw3")
    except Panic:
        # the kernel only panics (u64 underflow) on tallies exceeding the total weight, which the C06 invariant excludes
        raise Infeasible()


def _nm(a):
    """printable name / identity of a universe member (abstract atom or concrete address)"""
    return a if isinstance(a, str) else a.name


def _id(a):
    return a if isinstance(a, str) else a.idx


class GroupEnv:
    """environment contract of the cw4 group behind a flex multisig (DESIGN §3.6): `now` is the group's current state (raw
    queries read it), hist(a, h) the weight at the start of block h (smart Member{at_height} reads it).  Members outside
    the universe G have no weight (closed world)."""

    def __init__(self, I, ctx, group_addr, G, all_present=False):
        self.group_addr, self.G, self.all_present = group_addr, G, all_present
        self.now = {}
        for a in G:
            self.now[a] = (True if all_present else ctx.fresh_bool(f"group.now[{_nm(a)}].member"), ctx.fresh_int(f"group.now[{_nm(a)}].weight", 0, U64))
        self.total_now = ctx.fresh_int("group.now.total", 0, U64)
        ctx.assume(self.total_now == zsum([zite(p, w, 0) for p, w in self.now.values()]))
        self.hist = {}
        self.queries = []
        self.smart = []           # (addr value, height term | None, present, weight) of every smart Member query on the path

    def at(self, ctx, a, h):
        key = (_id(a), str(h))
        if key not in self.hist:
            self.hist[key] = (True if self.all_present else ctx.fresh_bool(f"group.at[{_nm(a)},{h}].member"), ctx.fresh_int(f"group.at[{_nm(a)},{h}].weight", 0, U64))
        return self.hist[key]

    def _member_of(self, ctx, addr):
        for a in self.G:
            if ctx.str_eq(addr, a): return a
        return None

    def _check_contract(self, ctx, contract):
        if not ctx.str_eq(contract, self.group_addr):
            raise Unsupported("query to a contract other than the configured group")

    def raw_query(self, I, ctx, ns, contract, key):
        self._check_contract(ctx, contract)
        self.queries.append(("raw", ns))
        if ns == "total": return Ok(self.total_now)
        if ns == "members":
            a = self._member_of(ctx, key[0])
            if a is None: return Ok(NONE)
            p, w = self.now[a]
            return Ok(Some(w)) if ctx.branch(p, f"group.now[{_nm(a)}]?") else Ok(NONE)
        raise Unsupported(f"raw query of namespace {ns}")

    def query(self, I, ctx, meth, args, generics, crate):
        req = I.force(ctx, args[0])
        if not (isinstance(req, EnumV) and req.variant == "Wasm"): raise Unsupported(f"query {req!r}")
        wq = req.fields[0]
        if wq.variant != "Smart": raise Unsupported(f"wasm query {wq.variant}")
        self._check_contract(ctx, wq.get("contract_addr"))
        m = wq.get("msg").value
        self.queries.append(("smart", m.variant))
        if m.variant == "Member":
            a = self._member_of(ctx, m.get("addr"))
            h = I.force(ctx, m.get("at_height"))
            if a is None: return Ok(Struct("MemberResponse", [NONE], ["weight"]))
            p, w = self.now[a] if h.variant == "None" else self.at(ctx, a, h.fields[0])
            self.smart.append((m.get("addr"), None if h.variant == "None" else h.fields[0], p, w))
            res = Some(w) if ctx.branch(p, f"group member?") else NONE
            return Ok(Struct("MemberResponse", [res], ["weight"]))
        if m.variant == "ListMembers":
            return self.list_members(I, ctx, m)
        raise Unsupported(f"group smart query {m.variant}")

    def to_request(self, conc):
        """querier table of the native replay: the group's raw cells (current state) and the smart answers given on this path"""
        from mirsym import serial
        import json
        g = conc.string(self.group_addr)
        raw = [{"contract": g, "key": serial.item_key("total").hex(), "value": json.dumps(conc.ev(self.total_now)).encode().hex()}]
        for a, (p, w) in self.now.items():
            if conc.ev(p):
                raw.append({"contract": g, "key": serial.map_key("members", [conc.string(a)]).hex(), "value": json.dumps(conc.ev(w)).encode().hex()})
        smart = []
        for addr, h, p, w in self.smart:
            msg = {"member": {"addr": conc.string(addr), "at_height": None if h is None else conc.ev(h)}}
            smart.append({"contract": g, "msg": msg, "response": {"weight": conc.ev(w) if conc.ev(p) else None}})
        for start, L, page in getattr(self, "listed", []):
            msg = {"list_members": {"start_after": None if start.variant == "None" else conc.string(start.fields[0]), "limit": None if L == self.GROUP_DEFAULT_LIMIT else L}}
            smart.append({"contract": g, "msg": msg, "response": {"members": [{"addr": conc.string(x.get("addr")), "weight": conc.ev(x.get("weight"))} for x in page]}})
        return {"raw": raw, "smart": smart}

    GROUP_DEFAULT_LIMIT, GROUP_MAX_LIMIT = 10, 30        # cw4-group / cw4-stake page sizes (environment contract)

    def list_members(self, I, ctx, m):
        """the group's ListMembers page: current members in address order after the cursor, at most min(limit or 10, 30)"""
        start = I.force(ctx, m.get("start_after"))
        lim = I.force(ctx, m.get("limit"))
        L = lim.fields[0] if lim.variant == "Some" else self.GROUP_DEFAULT_LIMIT
        if not isinstance(L, int):
            L = ctx.concretize_int(L, 0, self.GROUP_MAX_LIMIT + 1, "group page limit")
        L = min(L, self.GROUP_MAX_LIMIT)
        members = list(self.G)
        if not all(isinstance(a, str) for a in members):
            # abstract addresses: fix their order by forking on the comparisons
            out = []
            for a in members:
                k = len(out)
                while k > 0 and ctx.str_lt(a, out[k - 1]): k -= 1
                out.insert(k, a)
            members = out
        else:
            members = sorted(members)
        page = []
        for a in members:
            if len(page) >= L: break
            if start.variant == "Some":
                c = start.fields[0]
                if ctx.str_eq(c, a) or not ctx.str_lt(c, a): continue
            p, w = self.now[a]
            if ctx.branch(p, "listed member present?"):
                page.append(Struct("Member", [a, w], ["addr", "weight"]))
        self.queries.append(("smart", "ListMembers"))
        self.listed = getattr(self, "listed", []) + [(start, L, page)]
        return Ok(Struct("MemberListResponse", [VecV(page)], ["members"]))


def ms_state(I, ctx, crate, nv=NV, ordered=False, large=False):
    """arbitrary multisig state: config, counter, one focus proposal (id symbolic) plus one bystander proposal, ballots of the
    focus proposal over a universe of nv addresses, the voter list (fixed) or the group environment (flex).
    large=True: nv concrete (valid, sorted) addresses instead of abstract ones — a group bigger than a ListMembers page"""
    if large:
        from mirsym import replay as _rp
        from mirsym.models.cosmwasm import valid_addr_pred
        V = sorted(_rp.addr_pool(nv, prefix="voter"))
        for a in V: ctx.assume(valid_addr_pred(ctx, ctx.atom_of(a)))
    else:
        V = universe(ctx, nv, "v", ordered=ordered)
    cfg = sym_item(I, ctx, "config", "state::Config", crate, present=True).value
    sym_item(I, ctx, "proposal_count", "u64", crate)
    cw2_item(I, ctx, crate)
    pid = ctx.fresh_int("focus.id", 1, U64)
    oid = ctx.fresh_int("other.id", 1, U64)
    ctx.assume(pid != oid)
    ctx.bounds["vec"] = 1
    props = MapStore("proposals", [], ["u64"], "cw3::Proposal")
    focus = symval.fresh(I, ctx, "cw3::Proposal", "focus", None, crate)
    other = symval.fresh(I, ctx, "cw3::Proposal", "other", None, crate)
    pp = ctx.fresh_bool("focus.present")
    props.slots.append([(pid,), pp, focus])
    props.slots.append([(oid,), ctx.fresh_bool("other.present"), other])
    ctx.storage["proposals"] = props
    bal = MapStore("votes", [], ["u64", None], "cw3::Ballot")
    for a in V:
        bal.slots.append([(pid, a), ctx.fresh_bool(f"ballot[{_nm(a)}].present"), symval.fresh(I, ctx, "cw3::Ballot", f"ballot[{_nm(a)}]", None, crate)])
    ctx.storage["votes"] = bal
    if crate == FIXED:
        sym_map(I, ctx, "voters", [(a,) for a in V], "u64", crate)
    # ids are handed out by the counter: every stored id is <= proposal_count
    cnt = ctx.storage["proposal_count"]
    ctx.assume(z3.Implies(pp, z3.And(cnt.present, pid <= cnt.value)))
    ctx.assume(z3.Implies(props.slots[1][1], z3.And(cnt.present, oid <= cnt.value)))
    nxt = z3.If(cnt.present, cnt.value, 0) + 1
    ctx.assume(z3.And(pid != nxt, oid != nxt))          # the two slots are not the id the counter hands out next
    return V, cfg, pid, focus


def status_is(ctx, prop, name):
    from .cw20 import variant_is
    return variant_is(ctx, None, prop.get("status"), name)


def tally_of_ballots(ctx, storage):
    """(yes, no, abstain, veto) sums over the ballots of the focus proposal (ballot kinds stay symbolic)"""
    from .cw20 import variant_is
    sums = {}
    for kind in VOTE_KINDS:
        sums[kind] = zsum([zite(zand(p, variant_is(ctx, None, b.get("vote"), kind)), b.get("weight"), 0) for k, p, b in storage["votes"].slots])
    return sums


def votes_match_ballots(ctx, storage, prop):
    s = tally_of_ballots(ctx, storage)
    v = prop.get("votes")
    return zand(v.get("yes") == s["Yes"], v.get("no") == s["No"], v.get("abstain") == s["Abstain"], v.get("veto") == s["Veto"])


def status_inv(I, ctx, prop, blk):
    """the stored status is one the ballots justify (kernel decisions are tied to exact arithmetic by C04):
    Passed => is_passed now; Rejected => is_rejected now, or expired and not passed.  The status itself stays symbolic."""
    passed = kernel(I, ctx, "is_passed", prop, blk)
    rejected = kernel(I, ctx, "is_rejected", prop, blk)
    e = expired(ctx, I.force(ctx, prop.get("expires")), Struct("Env", [blk], ["block"]))
    return zand(zimplies(status_is(ctx, prop, "Passed"), passed),
                zimplies(status_is(ctx, prop, "Rejected"), zor(rejected, zand(e, znot(passed)))),
                znot(status_is(ctx, prop, "Pending")))


class MsFacts:
    pass


def ms_step(I, ctx, ob, crate, variant, statuses=("Open", "Rejected", "Passed", "Executed"), after=None, large=0):
    """arbitrary multisig state satisfying the invariants -> one execute call; returns the facts the property specs talk about.
    With `after`, a first call of that variant on the focus proposal is made from the arbitrary state and `variant` is then
    called (any sender, any later block, fresh group state) on the state the first call really produced: a two-call chain whose
    second call is judged by the same obligations (f.outcome == "skip" when the first call does not succeed on the focus)."""
    if after is not None:
        f1 = ms_step(I, ctx, ob, crate, after)
        if f1.outcome != "Ok" or f1.on_focus is not True:
            f1.outcome = "skip"; ob.outcome = "skip"
            return f1
        return ms_second(I, ctx, ob, f1, variant)
    f = MsFacts()
    f.crate, f.variant = crate, variant
    install_kernel_abstraction(I, ctx)
    f.V, f.cfg, f.pid, f.focus = V, cfg, pid, focus = ms_state(I, ctx, crate, nv=large, large=True) if large else ms_state(I, ctx, crate)
    oid = ctx.storage["proposals"].slots[1][0][0]
    st = ctx.storage
    f.env, f.info = mk_env(I, ctx), (mk_info(I, ctx, sender=V[-1]) if large else mk_info(I, ctx))      # large: the last member calls
    blk = f.env.get("block")
    f.sender = sender = f.info.get("sender")
    f.si = resolve(ctx, sender, V)
    pp = st["proposals"].slots[0][1]
    f.needs_focus = variant != "Propose"
    if f.needs_focus:
        f.thr = valid_threshold(I, ctx, focus.get("threshold"), focus.get("total_weight"))
    # ---- invariants of the pre-state (each is re-established by the step VCs below)
    if f.needs_focus: ctx.assume(zimplies(pp, votes_match_ballots(ctx, st, focus)))
    for k, p, b in st["votes"].slots:
        ctx.assume(z3.Implies(p, pp))                                   # ballots only for existing proposals
    if crate == FIXED:
        voters = slot_map(st["voters"])
        ctx.assume(cfg.get("total_weight") == map_sum(st["voters"]))
        ctx.assume(focus.get("total_weight") == cfg.get("total_weight"))
        for (k, p, b), a in zip(st["votes"].slots, V):
            vp, vw = voters[(a,)]
            ctx.assume(z3.Implies(p, z3.And(vp, b.get("weight") == vw)))
    else:
        ga = cfg.get("group_addr")
        # large: every listed address is a member now and was one at every earlier height (only the weights vary)
        f.genv = ctx.env = GroupEnv(I, ctx, ga.fields[0] if isinstance(ga, Struct) else ga, V, all_present=bool(large))
        # C06's (flex) invariant is assumed here: total and ballots are the group snapshot at the proposal's start height
        snap = [f.genv.at(ctx, a, focus.get("start_height")) for a in V]
        ctx.assume(focus.get("total_weight") == zsum([zite(p, w, 0) for p, w in snap]))
        for (k, p, b), (gp, gw) in zip(st["votes"].slots, snap):
            ctx.assume(z3.Implies(p, z3.And(gp, b.get("weight") == gw)))
    if f.needs_focus:
        vv = focus.get("votes")
        ctx.assume(vv.get("yes") + vv.get("no") + vv.get("abstain") + vv.get("veto") <= focus.get("total_weight"))
        f.inv_status_pre = status_inv(I, ctx, focus, blk)
        ctx.assume(zimplies(pp, f.inv_status_pre))
    ctx.assume(focus.get("start_height") <= blk.get("height"))
    # ---- the call
    msg = symval.fresh(I, ctx, "msg::ExecuteMsg", "msg", None, crate)
    msg.variants = [variant]
    f.msg = m = I.force(ctx, msg)
    f.on_focus = None
    if variant in ("Vote", "Execute", "Close"):
        f.on_focus = ctx.branch(m.get("proposal_id") == pid, "targets focus?")
        if not f.on_focus: ctx.assume(m.get("proposal_id") != oid)       # the second proposal is a pure bystander
    if variant == "Propose":
        ctx.bounds["vec"] = 1
        if crate == FLEX:
            f.info = f.info.with_("funds", SymVec(ctx.fresh_id(), "Coin", "funds", 2, 0, crate))
            # instantiate's into_checked never stores a zero deposit
            dep = I.force(ctx, cfg.get("proposal_deposit"))
            if dep.variant == "Some": ctx.assume(dep.fields[0].get("amount") > 0)
    f.outcome, f.resp, f.pre = call_entry(I, ctx, ob, crate, "execute", "execute", [make_deps(), f.env, f.info, m], f.env, f.info, m, "msg::ExecuteMsg", crate,
                                          querier=(f.genv.to_request if crate == FLEX else None))
    f.post = ctx.storage
    f.blk = blk
    return f


def ms_second(I, ctx, ob, f1, variant):
    """second call of a chain, on the storage the first call left behind"""
    crate = f1.crate
    f = MsFacts()
    f.crate, f.variant, f.first = crate, variant, f1
    f.V, f.cfg, f.pid = f1.V, f1.cfg, f1.pid
    st = ctx.storage
    oid = st["proposals"].slots[1][0][0]
    f.focus = focus_post(ctx, f1)[1]
    blk1 = f1.env.get("block")
    h2, t2 = ctx.fresh_int("block2.height", 0, U64), ctx.fresh_int("block2.time", 0, U64)
    ctx.assume(zand(h2 >= blk1.get("height"), t2 >= blk1.get("time")))
    blk = Struct("BlockInfo", [h2, t2, "chain"], ["height", "time", "chain_id"])
    f.env = f1.env.with_("block", blk)
    f.info = mk_info(I, ctx, name="sender2")
    f.sender = f.info.get("sender")
    f.si = resolve(ctx, f.sender, f.V)
    f.needs_focus = True
    if crate == FLEX:
        # the group may have changed arbitrarily since the first call; its history (weights at earlier heights) is the same
        g1 = f1.genv
        f.genv = ctx.env = GroupEnv(I, ctx, g1.group_addr, f.V)
        f.genv.hist = g1.hist
    msg = symval.fresh(I, ctx, "msg::ExecuteMsg", "msg2", None, crate)
    msg.variants = [variant]
    f.msg = m = I.force(ctx, msg)
    f.on_focus = None
    if variant in ("Vote", "Execute", "Close"):
        f.on_focus = ctx.branch(m.get("proposal_id") == f.pid, "second targets focus?")
        if not f.on_focus: ctx.assume(m.get("proposal_id") != oid)
    f.outcome, f.resp, f.pre = call_entry(I, ctx, ob, crate, "execute", "execute", [make_deps(), f.env, f.info, m], f.env, f.info, m, "msg::ExecuteMsg", crate,
                                          querier=(f.genv.to_request if crate == FLEX else None))
    ob.outcome = f"{f1.variant}:Ok>{f.outcome}"
    f.post = ctx.storage
    f.blk = blk
    return f


def prop_fields_same(ctx, a, b, except_=()):
    """all fields of two Proposal values equal except the listed ones"""
    cs = []
    for n in a.names:
        if n in except_: continue
        cs.append(spec_eq(ctx, a.get(n), b.get(n)))
    return zand(*cs)


def focus_post(ctx, f):
    sm = slot_map(f.post["proposals"])
    for k, (p, v) in sm.items():
        if isinstance(k[0], int) or z3.is_expr(k[0]):
            if k[0] is f.pid or (z3.is_expr(k[0]) and z3.eq(k[0], f.pid)): return p, v
    return False, None
