"""C02 — cw20: balances move only by the holder or within a valid allowance."""
import z3
from mirsym.values import *
from .common import *
from .cw20 import *

OWN = ("Transfer", "Send", "Burn")
DRAW = ("TransferFrom", "SendFrom", "BurnFrom")


class Step(VC):
    property_id = "C02"
    crate = CRATE

    def __init__(self, variant):
        self.variant = variant
        self.name = f"C02.step.{variant}"

    def run(self, I, ctx, ob):
        f = run_step(I, ctx, ob, self.variant)
        step_obligations(I, ctx, ob, f, self.variant)


class Chain(VC):
    """two (or three) calls in a row — allowance changes by the owner and draws by anyone, each at any later block: the last
    call's obligations are checked against the state the earlier calls really produced, so defects that need cooperating
    sites or a short history on one (owner, spender) key show up"""
    property_id = "C02"
    crate = CRATE
    limits = {"thorough": {"time": 3600}}

    def __init__(self, *variants):
        self.variants = variants
        self.first, self.second = variants[0], variants[-1]
        self.name = "C02.chain." + ".then.".join(variants)

    def run(self, I, ctx, ob):
        f1 = run_step(I, ctx, ob, self.variants[0], n=2)
        if f1.outcome != "Ok": return
        prev_blk = f1.env.get("block")
        f = None
        for k, variant in enumerate(self.variants[1:], start=2):
            f = Facts()
            f.U, f.variant = f1.U, variant
            env2 = mk_env(I, ctx)
            h2, t2 = ctx.fresh_int(f"block{k}.height", 0, U64), ctx.fresh_int(f"block{k}.time", 0, U64)
            ctx.assume(zand(h2 >= prev_blk.get("height"), t2 >= prev_blk.get("time")))
            f.env = env2.with_("block", Struct("BlockInfo", [h2, t2, "chain"], ["height", "time", "chain_id"]))
            prev_blk = f.env.get("block")
            f.info = mk_info(I, ctx, name=f"sender{k}")
            msg = symval.fresh(I, ctx, "Cw20ExecuteMsg", f"msg{k}", None, CRATE)
            msg.variants = [variant]
            f.msg = m = I.force(ctx, msg)
            if len(self.variants) >= 3:
                # three-call chains follow ONE (owner, spender) key: later changes come from the first owner for the first spender,
                # the draw is made by that spender on that owner (other interleavings are covered by the two-call chains)
                m1 = f1.msg
                owner1, spender1 = f1.info.get("sender"), m1.get("spender")
                if variant in ("IncreaseAllowance", "DecreaseAllowance"):
                    if not ctx.str_eq(f.info.get("sender"), owner1) or not ctx.str_eq(m.get("spender"), spender1): raise Infeasible()
                elif m.names and "owner" in m.names:
                    if not ctx.str_eq(m.get("owner"), owner1) or not ctx.str_eq(f.info.get("sender"), spender1): raise Infeasible()
            f.sender = resolve(ctx, f.info.get("sender"), f.U)
            f.addr = {}
            for fld in ("owner", "spender", "recipient", "contract"):
                if m.names and fld in m.names: f.addr[fld] = resolve(ctx, m.get(fld), f.U)
            f.amount = m.get("amount") if m.names and "amount" in m.names else None
            f.outcome, f.resp, f.pre = call_entry(I, ctx, ob, CRATE, "execute", "execute", [make_deps(), f.env, f.info, m], f.env, f.info, m, "Cw20ExecuteMsg", CRATE)
            f.post = ctx.storage
            ob.outcome = "Ok>" * (k - 1) + f.outcome
            if f.outcome != "Ok" and variant is not self.variants[-1]: return
        step_obligations(I, ctx, ob, f, self.variants[-1])


def step_obligations(I, ctx, ob, f, v):
        if f.outcome != "Ok":
            return
        sender = f.info.get("sender")
        amount = f.amount
        pre_al, post_al = slot_map(f.pre["allowance"]), slot_map(f.post["allowance"])
        # ---------------- (a) who may lose balance
        deltas = balance_deltas(ctx, f)
        owner_s = f.msg.get("owner") if v in DRAW else None
        for k, b0, b1 in deltas:
            lost = b1 < b0
            if v in OWN:
                ob.require("C02.only_holder_loses_balance", zimplies(lost, is_addr(ctx, k[0], sender)))
            elif v in DRAW:
                ob.require("C02.only_allowance_owner_loses_balance", zimplies(lost, is_addr(ctx, k[0], owner_s)))
            else:
                ob.require("C02.no_balance_moves_in_non_token_calls", zeq(b0, b1) if v != "Mint" else znot(lost))
        # exact movement
        def bal(s, when):
            for k, b0, b1 in deltas:
                if is_addr(ctx, k[0], s): return b0 if when == 0 else b1
            return 0
        if v in ("Transfer", "Send", "TransferFrom", "SendFrom"):
            src = sender if v in OWN else owner_s
            dst = f.msg.get("recipient") if "recipient" in f.msg.names else f.msg.get("contract")
            if ctx.atom_of(src) is ctx.atom_of(dst):
                ob.require("C02.self_move_is_neutral", zand(bal(src, 1) == bal(src, 0), bal(src, 0) >= amount))
            else:
                ob.require("C02.moves_exactly_amount", zand(bal(src, 1) == bal(src, 0) - amount, bal(dst, 1) == bal(dst, 0) + amount))
            for k, b0, b1 in deltas:
                if not is_addr(ctx, k[0], src) and not is_addr(ctx, k[0], dst):
                    ob.require("C02.bystanders_untouched", zeq(b0, b1))
        if v in ("Burn", "BurnFrom"):
            src = sender if v == "Burn" else owner_s
            ob.require("C02.burn_takes_exactly_amount", bal(src, 1) == bal(src, 0) - amount)
        # ---------------- (b) allowances
        keys = set(pre_al) | set(post_al)
        for k in keys:
            p0, a0 = pre_al.get(k, (False, None))
            p1, a1 = post_al.get(k, (False, None))
            same = zand(zeq(p0, p1), zor(znot(p1), spec_eq(ctx, a0, a1) if (a0 is not None and a1 is not None) else (a0 is a1)))
            if v in ("IncreaseAllowance", "DecreaseAllowance"):
                mine = is_addr(ctx, k[0], sender) and is_addr(ctx, k[1], f.msg.get("spender"))
                if not mine:
                    ob.require("C02.allowance_changes_only_by_owner", same)
                    continue
                ob.require("C02.no_self_allowance", not is_addr(ctx, k[0], k[1]))
                old = zite(p0, a0.get("allowance"), 0) if a0 is not None else 0
                exp_in = lazy_forced(ctx, f.msg.get("expires"))
                if v == "IncreaseAllowance":
                    ob.require("C02.increase_adds_exactly", zand(p1, a1.get("allowance") == old + amount))
                else:
                    new = zite(p1, a1.get("allowance"), 0) if a1 is not None else 0
                    ob.require("C02.decrease_saturates", zand(p0 is not False, new == zite(amount < old, old - amount, 0)))
                if exp_in is not None and exp_in.variant == "Some" and a1 is not None:
                    e = expired(ctx, exp_in.fields[0], f.env)
                    ob.require("C02.new_expiry_not_in_past", zimplies(p1 if v == "IncreaseAllowance" else zand(p1, amount < old), znot(e) if e is not None else False))
            elif v in DRAW:
                mine = is_addr(ctx, k[0], owner_s) and is_addr(ctx, k[1], sender)
                if not mine:
                    ob.require("C02.allowance_changes_only_by_spender_draw", same)
                    continue
                e = expired(ctx, a0.get("expires"), f.env) if a0 is not None else None
                ob.require("C02.draw_needs_unexpired_sufficient_allowance",
                           zand(p0, znot(e) if e is not None else False, a0.get("allowance") >= amount if a0 is not None else False))
                ob.require("C02.draw_lowers_allowance_exactly", zand(p1, a1.get("allowance") == a0.get("allowance") - amount) if a0 is not None else False)
                ob.require("C02.draw_keeps_expiry", spec_eq(ctx, a0.get("expires"), a1.get("expires")) if a0 is not None else False)
            else:
                ob.require("C02.allowances_untouched_by_other_calls", same)
        if v in DRAW:
            k = [k for k in keys if is_addr(ctx, k[0], owner_s) and is_addr(ctx, k[1], sender)]
            ob.require("C02.draw_has_allowance_entry", len(k) == 1)
            ob.witness("drew", amount > 0)
        # ---------------- (c) receiver notification
        msgs = msgs_of(f.resp)
        if v in ("Send", "SendFrom"):
            ok = len(msgs) == 1
            if ok:
                sm = msgs[0]
                cm = sm.get("msg")
                ok = isinstance(cm, EnumV) and cm.variant == "Wasm" and cm.fields[0].variant == "Execute"
                if ok:
                    ex = cm.fields[0]
                    payload = ex.get("msg")
                    ok = isinstance(payload, JsonBin) and isinstance(payload.value, EnumV) and payload.value.variant == "Receive"
                    if ok:
                        rm = payload.value.fields[0]
                        ok = zand(ctx.atom_of(ex.get("contract_addr")) is ctx.atom_of(f.msg.get("contract")),
                                  len(ex.get("funds").items) == 0,
                                  ctx.atom_of(rm.get("sender")) is ctx.atom_of(sender),
                                  rm.get("amount") == amount,
                                  spec_eq(ctx, rm.get("msg"), f.msg.get("msg")),
                                  sm.get("reply_on").variant == "Never", sm.get("id") == 0, sm.get("gas_limit").variant == "None")
            ob.require("C02.send_notifies_receiver_exactly_once_truthfully", ok)
            ob.witness("sent", amount > 0)
        else:
            ob.require("C02.no_messages_from_other_calls", len(msgs) == 0)
        if v in OWN: ob.witness("moved_own", amount > 0)
        if v in ("IncreaseAllowance", "DecreaseAllowance", "Mint", "UpdateMinter", "UpdateMarketing", "UploadLogo"): ob.witness("ok")
        ob.twin("twin.nobody_ever_loses_balance", zand(*[b1 >= b0 for k, b0, b1 in deltas]) if v in OWN + DRAW else False)


class Ghost(VC):
    """cumulative bound: with a ghost counter spent(o,s) and granted(o,s) the relation
    allowance(o,s) + spent(o,s) <= granted(o,s) is preserved by every step (telescoping argument made a solver fact)"""
    property_id = "C02"
    crate = CRATE

    def __init__(self, variant):
        self.variant = variant
        self.name = f"C02.ghost.{variant}"

    def run(self, I, ctx, ob):
        f = run_step(I, ctx, ob, self.variant)
        if f.outcome != "Ok": return
        v = self.variant
        sender = f.info.get("sender")
        pre_al, post_al = slot_map(f.pre["allowance"]), slot_map(f.post["allowance"])
        for k in set(pre_al) | set(post_al):
            p0, a0 = pre_al.get(k, (False, None))
            p1, a1 = post_al.get(k, (False, None))
            cur0 = zite(p0, a0.get("allowance"), 0) if a0 is not None else 0
            cur1 = zite(p1, a1.get("allowance"), 0) if a1 is not None else 0
            name = "/".join(getattr(c, "name", str(c)) for c in k)
            granted0 = ctx.fresh_int(f"granted[{name}]", 0, None)
            spent0 = ctx.fresh_int(f"spent[{name}]", 0, None)
            inv0 = cur0 + spent0 <= granted0
            # ghost updates: only the owner's increase raises `granted`; a draw by the spender raises `spent` by what moved
            is_pair_inc = v == "IncreaseAllowance" and is_addr(ctx, k[0], sender) and is_addr(ctx, k[1], f.msg.get("spender"))
            is_pair_draw = v in DRAW and is_addr(ctx, k[0], f.msg.get("owner")) and is_addr(ctx, k[1], sender)
            granted1 = granted0 + (f.amount if is_pair_inc else 0)
            spent1 = spent0 + (f.amount if is_pair_draw else 0)
            ob.require("C02.cumulative_spend_within_grants", zimplies(inv0, cur1 + spent1 <= granted1))
        ob.witness("ok")
        ob.twin("twin.allowance_never_changes", zand(*[zeq(zite(pre_al[k][0], pre_al[k][1].get("allowance"), 0),
                                                            zite(post_al[k][0], post_al[k][1].get("allowance"), 0))
                                                       for k in pre_al if k in post_al]) if v in DRAW + ("IncreaseAllowance",) else False)


def vcs(tier):
    out = [Step(v) for v in VARIANTS]
    # both directions of the reduce-vs-spend race: the owner's change then a draw, and a draw then the owner's change
    out += [Chain("DecreaseAllowance", "TransferFrom"), Chain("TransferFrom", "DecreaseAllowance")]
    if tier == "thorough":
        out += [Chain("IncreaseAllowance", "TransferFrom")] + [Chain(a, b) for a in ("DecreaseAllowance", "IncreaseAllowance") for b in ("BurnFrom", "SendFrom")]
        out += [Chain("TransferFrom", "IncreaseAllowance")] + [Chain(a, b) for a in ("BurnFrom", "SendFrom") for b in ("DecreaseAllowance", "IncreaseAllowance")]
        out += [Chain(a, b) for a in DRAW for b in DRAW]
    # three calls on one (owner, spender) key: revoke / re-grant / draw and its variations (~30 s each)
    out += [Chain(a, b, "TransferFrom") for a in ("DecreaseAllowance", "IncreaseAllowance") for b in ("DecreaseAllowance", "IncreaseAllowance")]
    if tier == "thorough":
        out += [Chain(a, b, d) for a in ("DecreaseAllowance", "IncreaseAllowance") for b in ("DecreaseAllowance", "IncreaseAllowance") for d in ("SendFrom", "BurnFrom")]
    out += [Ghost(v) for v in ("IncreaseAllowance", "DecreaseAllowance", "TransferFrom", "SendFrom", "BurnFrom", "Transfer", "Burn")]
    return out


BOUNDS = {"addresses_with_state": N, "amounts": "full u128, symbolic", "block height/time, expiries": "symbolic u64, all three Expiration kinds"}
OUTSIDE = ("pre-states with more than %d addresses holding balances/allowances (closed world besides arbitrary fresh addresses); the "
           "history quantifier is closed by induction (each VC starts from an arbitrary state), the cumulative bound by the ghost VC" % N)
ASSUMPTIONS = ["verify_logo stubbed (irrelevant to balances)", "Api::addr_validate is identity-or-error",
               "the receiving contract's behaviour on Receive is outside the token (only the emitted message is checked)"]
