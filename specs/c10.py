"""C10 — cw4-stake: stakes are fully backed, weight follows stake, exit only after delay."""
import z3
from mirsym.values import *
from mirsym import symval
from mirsym.ctx import ItemStore, MapStore
from .common import *
from .cw4 import *

CRATE = STAKE
NU, NCLAIMS = 2, 2


def stake_state(I, ctx, n=NU, nclaims=NCLAIMS, nhooks=1):
    U = group_state(I, ctx, STAKE, n=n, nhooks=nhooks)
    # cw4-stake keeps TOTAL in a plain Item (no total snapshots)
    del ctx.storage["total__checkpoints"]; del ctx.storage["total__changelog"]
    cfg = sym_item(I, ctx, "config", "state::Config", STAKE, present=True)
    sym_map(I, ctx, "stake", [(a,) for a in U], "Uint128", STAKE)
    ctx.bounds["vec"] = nclaims
    sym_map(I, ctx, "claims", [(a,) for a in U], "Vec<Claim>", STAKE)
    return U, cfg.value


def weight_rel(stake, tpw, w):
    """w = floor(stake / tpw)  for tpw > 0"""
    return zand(w * tpw <= stake, stake < (w + 1) * tpw)


def member_inv(ctx, storage, cfg, only=None):
    """for every address with state: member iff stake >= min_bond, and then weight = floor(stake / tokens_per_weight)"""
    stk = slot_map(storage["stake"]); mem = slot_map(storage["members"])
    cs = []
    for k in set(stk) | set(mem):
        if only is not None and ctx.atom_of(k[0]) is not ctx.atom_of(only): continue
        ps, s = stk.get(k, (False, 0)); pm, w = mem.get(k, (False, 0))
        s = zite(ps, s, 0)
        cs.append(zeq(pm, s >= cfg.get("min_bond")))
        cs.append(zimplies(pm, weight_rel(s, cfg.get("tokens_per_weight"), w)))
    return zand(*cs)


def claims_total(I, ctx, storage, force=False):
    tot = 0
    for k, p, v in storage["claims"].slots:
        cl = I.force(ctx, v) if force else lazy_forced(ctx, v)
        if cl is None: raise Unsupported("claims vector not forced")
        tot = tot + zite(p, zsum([c.get("amount") for c in cl.items]), 0)
    return tot


class Step(VC):
    property_id = "C10"
    crate = STAKE

    def __init__(self, variant):
        self.variant = variant
        self.name = f"C10.step.{variant}"

    def run(self, I, ctx, ob):
        U, cfg = stake_state(I, ctx)
        st = ctx.storage
        denom = I.force(ctx, cfg.get("denom"))
        period = I.force(ctx, cfg.get("unbonding_period"))
        ctx.assume(cfg.get("min_bond") >= 1)
        ctx.assume(st["total"].value == members_sum(st))
        holdings0 = ctx.fresh_int("holdings", 0, None)
        ctx.assume(holdings0 >= map_sum(st["stake"]) + claims_total(I, ctx, st, force=True))
        env, info = mk_env(I, ctx), mk_info(I, ctx)
        sender = info.get("sender")
        msg = symval.fresh(I, ctx, "msg::ExecuteMsg", "msg", None, STAKE)
        msg.variants = [self.variant]
        m = I.force(ctx, msg)
        v = self.variant
        if v == "Bond":
            ctx.bounds["vec"] = getattr(self, "nfunds", 2)
            funds = symval.fresh(I, ctx, "Vec<Coin>", "funds", None, STAKE)
            info = info.with_("funds", funds)
        # the membership invariant is assumed for the one address whose stake this call can touch (everybody else is framed)
        who = m.fields[0].get("sender") if v == "Receive" else sender
        resolve(ctx, who, U)
        ctx.assume(member_inv(ctx, st, cfg, only=who))
        outcome, r, pre = call_entry(I, ctx, ob, STAKE, "execute", "execute", [make_deps(), env, info, m], env, info, m, "msg::ExecuteMsg", STAKE)
        if outcome != "Ok": return
        post = ctx.storage
        stk0, stk1 = slot_map(pre["stake"]), slot_map(post["stake"])
        def stake_of(sm, who):
            for k, (p, x) in sm.items():
                if ctx.atom_of(k[0]) is ctx.atom_of(who): return zite(p, x, 0)
            return 0
        staker, amount, credited = None, None, 0
        if v == "Bond":
            f = lazy_forced(ctx, info.get("funds"))
            ob.require("C10.bond_only_configured_native_denom", denom.variant == "Native" and f is not None and len(f.items) == 1
                       and ctx.atom_of(f.items[0].get("denom")) is ctx.atom_of(denom.fields[0]))
            if not (denom.variant == "Native" and f is not None and len(f.items) == 1): return
            staker, amount = sender, f.items[0].get("amount"); credited = amount
        elif v == "Receive":
            w = m.fields[0]
            ob.require("C10.receive_only_from_configured_cw20", denom.variant == "Cw20" and ctx.atom_of(sender) is ctx.atom_of(denom.fields[0]))
            staker, amount = w.get("sender"), w.get("amount"); credited = amount
        elif v == "Unbond":
            staker, amount = sender, m.get("tokens")
        # ---- stakes change only for the staker, by exactly the amount
        for k in set(stk0) | set(stk1):
            a0 = zite(stk0[k][0], stk0[k][1], 0) if k in stk0 else 0
            a1 = zite(stk1[k][0], stk1[k][1], 0) if k in stk1 else 0
            if staker is not None and ctx.atom_of(k[0]) is ctx.atom_of(staker):
                ob.require("C10.stake_changes_by_exactly_the_amount", a1 == (a0 + amount if v in ("Bond", "Receive") else a0 - amount))
            else:
                ob.require("C10.other_stakes_untouched", zeq(a0, a1))
        # ---- claims
        cl0, cl1 = slot_map(pre["claims"]), slot_map(post["claims"])
        paid = 0
        for k in set(cl0) | set(cl1):
            p0, v0 = cl0.get(k, (False, None)); p1, v1 = cl1.get(k, (False, None))
            c0 = list(lazy_forced(ctx, v0).items) if v0 is not None else []
            c1v = lazy_forced(ctx, v1) if v1 is not None else None
            c1 = list(c1v.items) if c1v is not None else None
            mine = ctx.atom_of(k[0]) is ctx.atom_of(sender)
            if v == "Unbond" and mine:
                exp_ok = False
                if c1 is not None and len(c1) >= 1:
                    ra = lazy_forced(ctx, c1[-1].get("release_at"))
                    blk = env.get("block")
                    if ra is not None and period.variant == "Height" and ra.variant == "AtHeight": exp_ok = ra.fields[0] == blk.get("height") + period.fields[0]
                    if ra is not None and period.variant == "Time" and ra.variant == "AtTime": exp_ok = ra.fields[0] == blk.get("time") + period.fields[0] * 10 ** 9
                base = c0 if p0 is not False else []
                ob.require("C10.unbond_creates_exactly_one_claim_after_the_period", zand(p1, c1 is not None and (len(c1) == len(c0) + 1 or (len(c1) == 1)),
                           c1[-1].get("amount") == amount if c1 else False, exp_ok))
                if c1 is not None and len(c1) == len(c0) + 1:
                    ob.require("C10.unbond_keeps_earlier_claims", zimplies(p0, zand(*[spec_eq(ctx, x, y) for x, y in zip(c0, c1)])))
            elif v == "Claim" and mine:
                matured = [c for c in c0 if True]
                rel = 0; keep = []
                for c in c0:
                    e = expired(ctx, c.get("release_at"), env)
                    if e is None: rel = None; break
                    rel = rel + zite(zand(p0, e), c.get("amount"), 0)
                if rel is None: ob.require("C10.claim_inspects_every_claim", False); continue
                paid = rel
                remaining = zsum([zite(p1, c.get("amount"), 0) for c in (c1 or [])])
                ob.require("C10.claim_removes_exactly_the_matured_claims", remaining == zite(p0, zsum([c.get("amount") for c in c0]), 0) - rel)
                for c in (c1 or []):
                    e = expired(ctx, c.get("release_at"), env)
                    ob.require("C10.no_matured_claim_left_behind", zimplies(p1, znot(e) if e is not None else False))
            else:
                same = zand(zeq(p0, p1), zor(znot(p1), spec_eq(ctx, v0, v1) if v0 is not None and v1 is not None else False))
                ob.require("C10.other_claims_untouched", same)
        msgs = msgs_of(r)
        if v == "Claim":
            ob.require("C10.claim_fails_when_nothing_matured", paid > 0)
            ok = len(msgs) == 1
            if ok:
                cm = msgs[0].get("msg")
                if denom.variant == "Native":
                    ok = cm.variant == "Bank" and cm.fields[0].variant == "Send"
                    if ok:
                        sd = cm.fields[0]
                        coins = sd.get("amount").items
                        ok = zand(ctx.atom_of(sd.get("to_address")) is ctx.atom_of(sender), len(coins) == 1, coins[0].get("amount") == paid,
                                  ctx.atom_of(coins[0].get("denom")) is ctx.atom_of(denom.fields[0])) if len(coins) == 1 else False
                else:
                    ok = cm.variant == "Wasm" and cm.fields[0].variant == "Execute"
                    if ok:
                        ex = cm.fields[0]
                        pl = ex.get("msg")
                        ok = isinstance(pl, JsonBin) and pl.value.variant == "Transfer"
                        if ok:
                            ok = zand(ctx.atom_of(ex.get("contract_addr")) is ctx.atom_of(denom.fields[0]), len(ex.get("funds").items) == 0,
                                      ctx.atom_of(pl.value.get("recipient")) is ctx.atom_of(sender), pl.value.get("amount") == paid)
            ob.require("C10.claim_pays_exactly_matured_amount_to_caller_once", ok)
        # ---- backing
        holdings1 = holdings0 + credited - (paid if v == "Claim" else 0)
        ob.require("C10.holdings_cover_stakes_plus_claims", holdings1 >= map_sum(post["stake"]) + claims_total(I, ctx, post))
        # ---- membership follows stake
        tpw = cfg.get("tokens_per_weight")
        if staker is not None:
            s1 = stake_of(stk1, staker)
            mem1 = {ctx.atom_of(k[0]): (p, w) for k, p, w in post["members"].slots}
            pm, w = mem1.get(ctx.atom_of(staker), (False, 0))
            ob.require("C10.member_exactly_when_stake_at_least_min_bond", zeq(pm, s1 >= cfg.get("min_bond")))
            ob.require("C10.weight_is_integer_quotient_of_stake", zimplies(pm, weight_rel(s1, tpw, w)),
                       known={"weight-quotient-exceeds-u64": zand(tpw > 0, s1 >= tpw * U64)})
        mem0, mem1 = slot_map(pre["members"]), slot_map(post["members"])
        for k in set(mem0) | set(mem1):
            if staker is not None and ctx.atom_of(k[0]) is ctx.atom_of(staker): continue
            p0, w0 = mem0.get(k, (False, 0)); p1, w1 = mem1.get(k, (False, 0))
            ob.require("C10.other_memberships_untouched", zand(zeq(p0, p1), zimplies(p1, w0 == w1)))
        ob.require("C10.total_is_sum_of_member_weights", post["total"].value == members_sum(post))
        ob.witness("ok_" + v)
        if v in ("Bond", "Receive", "Unbond"): ob.witness("changed_stake", amount > 0)
        ob.twin("twin.stakes_never_change", zand(*[zeq(zite(stk0[k][0], stk0[k][1], 0), zite(stk1[k][0], stk1[k][1], 0)) for k in stk0 if k in stk1]) if v in ("Bond", "Receive", "Unbond") else False)


class Base(VC):
    property_id = "C10"
    crate = STAKE
    name = "C10.base.instantiate"

    def run(self, I, ctx, ob):
        for ns, ty in (("admin", "Option<Addr>"), ("cw4-hooks", "Vec<Addr>"), ("total", "u64"), ("config", "state::Config"), ("contract_info", "cw2::ContractVersion")):
            ctx.storage[ns] = ItemStore(ns, False, None, ty)
        for ns, ty in (("members", "u64"), ("stake", "Uint128"), ("claims", "Vec<Claim>"), ("members__changelog", "ChangeSet<u64>"), ("members__checkpoints", "u32")):
            ctx.storage[ns] = MapStore(ns, [], None, ty)
        env, info = mk_env(I, ctx), mk_info(I, ctx)
        msg = symval.fresh(I, ctx, "msg::InstantiateMsg", "msg", None, STAKE)
        outcome, r, pre = call_entry(I, ctx, ob, STAKE, "instantiate", "instantiate", [make_deps(), env, info, msg], env, info, msg, "msg::InstantiateMsg", STAKE)
        if outcome != "Ok": return
        cfg = ctx.storage["config"].value
        ob.require("C10.instantiate_sets_min_bond_at_least_one_and_empty_group", zand(cfg.get("min_bond") >= 1, ctx.storage["total"].value == 0,
                   cfg.get("tokens_per_weight") == msg.get("tokens_per_weight"), spec_eq(ctx, cfg.get("denom"), msg.get("denom")),
                   spec_eq(ctx, cfg.get("unbonding_period"), msg.get("unbonding_period"))))
        ob.witness("ok_instantiate")
        ob.twin("twin.min_bond_zero", cfg.get("min_bond") == 0)


def vcs(tier):
    out = [Step(v) for v in ("Bond", "Receive", "Unbond", "Claim", "UpdateAdmin", "AddHook", "RemoveHook")] + [Base()]
    big = Step("Bond"); big.nfunds = 4; big.name = "C10.step.Bond[funds<=4]"
    out.append(big)
    return out


BOUNDS = {"stakers with state": NU, "claims per staker": "<= 2", "hooks": "<= 1", "coins in info.funds": "<= 4", "amounts / tokens_per_weight / min_bond": "full u128",
          "unbonding period": "height- and time-based, symbolic u64"}
OUTSIDE = "more than 2 pending claims per staker (partition loop uniform); the token's own bookkeeping (a cw20 that follows the spec credits before calling Receive)"
ASSUMPTIONS = ["ghost `holdings`: tokens listed in info.funds / announced by the configured cw20's Receive have been credited to the contract before the call (platform / cw20 spec)",
               "a payout message in the Response executes or the whole transaction reverts (no reply_on)"]

SECOND_SOLVER = True      # thorough tier: every non-trivial obligation is re-discharged with cvc5
