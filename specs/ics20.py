"""Shared symbolic state / flows for cw20-ics20 (C11, C12, C18)."""
import z3
from mirsym.values import *
from mirsym import symval
from mirsym.ctx import ItemStore, MapStore
from mirsym.explore import run_entry, snapshot_storage
from .common import *
from .cw20 import lazy_forced, spec_eq, resolve, slot_map

CRATE = "cw20-ics20"
RECEIVE_ID, ACK_FAILURE_ID = 1337, 0xfa17


class St:
    pass


def ics20_state(I, ctx, nch=2, ntok=2):
    """arbitrary contract state: channels, per-(channel, denom) balances for one native denom and the cw20 tokens, allow list"""
    s = St()
    s.C = universe(ctx, nch, "chan", ordered=False)
    s.T = universe(ctx, ntok, "token", ordered=False)
    nat = ctx.new_atom("native_denom")
    ctx._exclude(nat, ("pre", "cw20:"))            # environment: bank denoms never start with `cw20:` (DESIGN §3.4)
    nat.extra["touched"] = True
    s.nat = nat
    s.D = [nat] + [ctx.shaped("pre", "cw20:", t) for t in s.T]
    sym_item(I, ctx, "admin", "Option<Addr>", CRATE, present=True)
    s.cfg = sym_item(I, ctx, "ics20_config", "state::Config", CRATE, present=True).value
    sym_item(I, ctx, "reply_args", "state::ReplyArgs", CRATE)
    sym_map(I, ctx, "channel_info", [(c,) for c in s.C], "state::ChannelInfo", CRATE)
    sym_map(I, ctx, "channel_state", [(c, d) for c in s.C for d in s.D], "state::ChannelState", CRATE)
    sym_map(I, ctx, "allow_list", [(t,) for t in s.T], "state::AllowInfo", CRATE)
    cw2_item(I, ctx, CRATE)
    # ghost: tokens actually held per denomination cover what the channels owe
    s.holdings = {}
    for d in s.D:
        h = ctx.fresh_int(f"holdings[{d.name}]", 0, None)
        ctx.assume(h >= zsum([zite(p, v.get("outstanding"), 0) for k, p, v in ctx.storage["channel_state"].slots if k[1] is d]))
        s.holdings[d] = h
    return s


def outstanding_map(ctx, storage):
    """{(channel root, denom root): (present, outstanding, total_sent)}"""
    out = {}
    for k, p, v in storage["channel_state"].slots:
        out[(ctx.atom_of(k[0]), ctx.atom_of(k[1]))] = (p, v.get("outstanding"), v.get("total_sent"))
    return out


def state_same(ctx, a, b, ns=("channel_state",)):
    cs = []
    for n in ns:
        x, y = slot_map(a[n]), slot_map(b[n])
        kx = {tuple(ctx.atom_of(c) for c in k): v for k, v in x.items()}
        ky = {tuple(ctx.atom_of(c) for c in k): v for k, v in y.items()}
        for k in set(kx) | set(ky):
            p0, v0 = kx.get(k, (False, None)); p1, v1 = ky.get(k, (False, None))
            cs.append(zand(zeq(p0, p1), zor(znot(p1), spec_eq(ctx, v0, v1) if v0 is not None and v1 is not None else False)))
    return zand(*cs)


def payout_of(ctx, sm):
    """(kind, token_or_denom atom, recipient atom, amount, gas_limit option) of a payout sub-message, or None"""
    cm = sm.get("msg")
    if cm.variant == "Bank" and cm.fields[0].variant == "Send":
        sd = cm.fields[0]
        coins = sd.get("amount").items
        if len(coins) != 1: return None
        return ("native", ctx.atom_of(coins[0].get("denom")), ctx.atom_of(sd.get("to_address")), coins[0].get("amount"), sm.get("gas_limit"))
    if cm.variant == "Wasm" and cm.fields[0].variant == "Execute":
        ex = cm.fields[0]
        pl = ex.get("msg")
        if isinstance(pl, JsonBin) and isinstance(pl.value, EnumV) and pl.value.variant == "Transfer" and len(ex.get("funds").items) == 0:
            return ("cw20", ctx.atom_of(ex.get("contract_addr")), ctx.atom_of(pl.value.get("recipient")), pl.value.get("amount"), sm.get("gas_limit"))
    return None


def ack_kind(ctx, binv):
    """'success' | 'error' | None for an acknowledgement Binary produced by the contract"""
    b = lazy_forced(ctx, binv) if isinstance(binv, (SymEnum,)) else binv
    if isinstance(b, JsonBin) and isinstance(b.value, EnumV) and b.value.ty == "Ics20Ack":
        return "success" if b.value.variant == "Result" else "error"
    return None


def expected_gas_limit(ctx, storage, cfg, kind, token):
    """the limit the payout must carry: the token's allow-list entry if present, else the default (cw20); none for native"""
    if kind == "native": return ("None", None)
    al = {ctx.atom_of(k[0]): (p, v) for k, p, v in storage["allow_list"].slots}
    return al.get(token, (False, None))


def mk_packet_receive(I, ctx):
    m = symval.fresh(I, ctx, "IbcPacketReceiveMsg", "rcv", None, CRATE)
    return m


def mk_reply(I, ctx, rid, ok):
    if ok:
        res = EnumV("SubMsgResult", "Ok", [Struct("SubMsgResponse", [VecV([]), NONE, VecV([])], ["events", "data", "msg_responses"])])
    else:
        res = EnumV("SubMsgResult", "Err", [SymStr(ctx.fresh_id(), "submsg.error")])
    return Struct("Reply", [rid, VecV([]), 0, res], ["id", "payload", "gas_used", "result"])
