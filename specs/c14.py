"""C14 — cw4: only the admin changes a group, and hooks hear every change truthfully."""
import z3
from mirsym.values import *
from mirsym import symval
from .common import *
from .cw4 import *


def hook_msgs_ok(ctx, resp, hooks, expect_diffs_of=None):
    """the response carries exactly one MemberChangedHook per registered hook, in order, all with the same diffs; returns (ok, diffs)"""
    out = msgs_of(resp)
    if len(out) != len(hooks): return False, None
    diffs = None
    ok = True
    for sm, h in zip(out, hooks):
        cm = sm.get("msg")
        if not (isinstance(cm, EnumV) and cm.variant == "Wasm" and cm.fields[0].variant == "Execute"): return False, None
        ex = cm.fields[0]
        pl = ex.get("msg")
        if not (isinstance(pl, JsonBin) and isinstance(pl.value, EnumV) and pl.value.variant == "MemberChangedHook"): return False, None
        d = pl.value.fields[0].get("diffs")
        if diffs is None: diffs = d
        ok = zand(ok, ctx.atom_of(ex.get("contract_addr")) is ctx.atom_of(h), len(ex.get("funds").items) == 0, sm.get("reply_on").variant == "Never",
                  sm.get("id") == 0, sm.get("gas_limit").variant == "None", spec_eq(ctx, d, diffs))
    return ok, diffs


def replay_diffs(ctx, pre_w, diffs):
    """apply the reported diffs in order to the pre-state weights; returns (truthful, resulting map)"""
    cur = dict(pre_w)
    truthful = True
    for d in diffs.items:
        a = ctx.atom_of(d.get("key"))
        p, w = cur.get(a, (False, 0))
        old, new = lazy_forced(ctx, d.get("old")), lazy_forced(ctx, d.get("new"))
        if old is None or new is None: return False, cur
        # reported old weight = the weight just before this entry
        truthful = zand(truthful, zeq(p, old.variant == "Some"), zimplies(p, old.fields[0] == w) if old.variant == "Some" else True)
        cur[a] = (True, new.fields[0]) if new.variant == "Some" else (False, 0)
    return truthful, cur


class Group(VC):
    property_id = "C14"
    crate = GROUP

    def __init__(self, variant, nadd=2, nrem=1, large=0):
        self.variant, self.nadd, self.nrem, self.large = variant, nadd, nrem, large
        self.name = f"C14.group.{variant}" + (f"[add<={nadd},remove<={nrem}]" if variant == "UpdateMembers" else "") + (f"[{large} members]" if large else "")

    def run(self, I, ctx, ob):
        # large: a group of 12 present members (more than a default ListMembers page), one hook: re-weigh one member and remove another
        U = group_state(I, ctx, GROUP, n=self.large, nhooks=1, large=True) if self.large else group_state(I, ctx, GROUP, n=2)
        ctx.assume(ctx.storage["total"].value == members_sum(ctx.storage))
        env, info = mk_env(I, ctx), mk_info(I, ctx)
        sender = info.get("sender")
        msg = symval.fresh(I, ctx, "msg::ExecuteMsg", "msg", None, GROUP)
        msg.variants = [self.variant]
        m = I.force(ctx, msg)
        if self.variant == "UpdateMembers":
            m.get("add").bound = self.nadd; m.get("remove").bound = self.nrem
            if self.large:
                # the touched members are any of the first / last two of the group (decided here so that string identities are concrete)
                pick = [0, 1, self.large - 2, self.large - 1]
                ia = pick[ctx.choose([True] * 4, "member to re-weigh")]
                ir = pick[ctx.choose([True] * 4, "member to remove")]
                add = Struct("Member", [U[ia], ctx.fresh_int("add.weight", 0, U64)], ["addr", "weight"])
                f_ = list(m.fields)
                f_[m.names.index("add")] = VecV([add]); f_[m.names.index("remove")] = VecV([U[ir]])
                m = EnumV(m.ty, m.variant, f_, m.names)
        outcome, r, pre = call_entry(I, ctx, ob, GROUP, "execute", "execute", [make_deps(), env, info, m], env, info, m, "msg::ExecuteMsg", GROUP)
        if outcome != "Ok": return
        post = ctx.storage
        adm = stored_admin(ctx, pre)
        by_admin = adm is not None and adm[0] and ctx.atom_of(adm[1]) is ctx.atom_of(sender)
        ob.require("C14.every_successful_call_is_by_the_current_admin", by_admin)
        w0, w1 = weight_map(ctx, pre), weight_map(ctx, post)
        members_same = zand(*[zand(zeq(w0.get(a, (False, 0))[0], w1.get(a, (False, 0))[0]),
                                   zimplies(w1.get(a, (False, 0))[0], w0.get(a, (False, 0))[1] == w1.get(a, (False, 0))[1])) for a in set(w0) | set(w1)])
        hp0, h0 = hooks_of(ctx, pre); hp1, h1 = hooks_of(ctx, post)
        hooks_same = zand(zeq(hp0, hp1), zor(znot(hp1), spec_eq(ctx, pre["cw4-hooks"].value, post["cw4-hooks"].value)))
        admin_same = spec_eq(ctx, pre["admin"].value, post["admin"].value)
        v = self.variant
        if v != "UpdateMembers": ob.require("C14.membership_changes_only_in_update_members", members_same)
        if v not in ("AddHook", "RemoveHook"): ob.require("C14.hooks_change_only_in_add_remove_hook", hooks_same)
        if v != "UpdateAdmin": ob.require("C14.admin_changes_only_in_update_admin", admin_same)
        if v == "UpdateMembers":
            hooks = h0 if (h0 is not None and hp0 is not False) else []
            if hp0 is not True and hp0 is not False and h0 is None: hooks = []
            ok, diffs = hook_msgs_ok(ctx, r, hooks)
            ob.require("C14.each_registered_hook_gets_exactly_one_notification", ok)
            if diffs is None and len(hooks) == 0:
                ob.witness("no_hooks")
            else:
                truthful, cur = replay_diffs(ctx, w0, diffs)
                ob.require("C14.notification_old_weights_are_true", truthful)
                # replaying the diffs yields exactly the post-state membership; untouched addresses unchanged
                for a in set(cur) | set(w1):
                    p1, x1 = w1.get(a, (False, 0)); pc, xc = cur.get(a, (False, 0))
                    ob.require("C14.notification_new_weights_match_final_membership", zand(zeq(p1, pc), zimplies(p1, x1 == xc)))
                ob.witness("notified", len(diffs.items) > 0 and len(hooks) > 0)
            ob.require("C14.total_follows_membership", post["total"].value == members_sum(post))
        if v == "AddHook":
            ob.require("C14.add_hook_appends", hp1 is True and h1 is not None and len(h1) == len(h0 or []) + 1 and ctx.atom_of(h1[-1]) is ctx.atom_of(m.get("addr"))
                       and all(ctx.atom_of(x) is ctx.atom_of(y) for x, y in zip(h0 or [], h1)))
        if v == "RemoveHook":
            ob.require("C14.remove_hook_removes_it", h1 is not None and h0 is not None and len(h1) == len(h0) - 1
                       and not any(ctx.atom_of(x) is ctx.atom_of(m.get("addr")) for x in h1))
        ob.witness("ok")
        ob.twin("twin.state_never_changes", zand(members_same, hooks_same, admin_same))


def vcs(tier):
    out = [Group(v) for v in ("UpdateAdmin", "AddHook", "RemoveHook")] + [Group("UpdateMembers", 2, 1), Group("UpdateMembers", 1, 2)]
    out.append(Group("UpdateMembers", 1, 1, large=12))
    try:
        from . import c14_stake
        out += c14_stake.vcs(tier)
    except ImportError:
        pass
    return out


BOUNDS = {"large group": "12 concrete members, all present, symbolic weights, one hook: re-weigh and remove any of the first / last two",
          "members with state": 2, "hooks": "<= 2", "add list": "<= 2", "remove list": "<= 2 (with add <= 1)", "weights": "full u64"}
OUTSIDE = "longer add/remove/hook lists (uniform loops); snapshot bookkeeping is C09's subject"
ASSUMPTIONS = ["TOTAL = sum of member weights in the pre-state (C09's invariant)", "hook contracts' reactions are outside the group (only the emitted messages are checked)"]
