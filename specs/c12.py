"""C12 — cw20-ics20: channel balance tracks vouchers exactly; error acks change nothing."""
import z3
from mirsym.values import *
from mirsym import symval
from .common import *
from .ics20 import *


def key_of(ctx, ch, denom):
    return (ctx.atom_of(ch), ctx.atom_of(denom))


class Receive(VC):
    """incoming packet -> ibc_packet_receive, then the payout sub-message succeeds, or fails and `reply` runs"""
    property_id = "C12"
    crate = CRATE

    def __init__(self, payout_fails):
        self.payout_fails = payout_fails
        self.name = f"C12.receive.{'payout_fails_then_reply' if payout_fails else 'payout_succeeds'}"

    def run(self, I, ctx, ob):
        s = ics20_state(I, ctx)
        env = mk_env(I, ctx)
        msg = mk_packet_receive(I, ctx)
        cfgd = I.force(ctx, s.cfg.get("default_gas_limit"))
        outcome, r, pre = call_entry(I, ctx, ob, CRATE, "ibc_packet_receive", "ibc_packet_receive", [make_deps(), env, msg], env, None, msg,
                                     "IbcPacketReceiveMsg", CRATE, result_ty="IbcReceiveResponse")
        ob.require("C12.packet_receive_never_aborts", outcome == "Ok")
        if outcome != "Ok": return
        st1 = snapshot_storage(ctx.storage)
        ack1 = ack_kind(ctx, r.get("acknowledgement").fields[0]) if lazy_forced(ctx, r.get("acknowledgement")).variant == "Some" else None
        msgs = msgs_of(r)
        pkt_data = msg.get("packet").get("data")
        parsed = ctx.bin_parse.get((pkt_data.id, "Ics20Packet")) or next((v for (i, t), v in ctx.bin_parse.items() if i == pkt_data.id), None)
        pkt = parsed[1] if parsed else None
        if ack1 == "error":
            ob.require("C12.error_ack_sends_nothing", len(msgs) == 0)
            ob.require("C12.error_ack_leaves_channel_balances_untouched", state_same(ctx, pre, st1),
                       known={"receive/not-allowed-cw20-reduces-balance-then-errors": True})
            ob.witness("direct_error_ack")
            return
        ob.require("C12.receive_acks_success_or_error", ack1 == "success")
        ok = len(msgs) == 1
        po = payout_of(ctx, msgs[0]) if ok else None
        ob.require("C12.success_ack_comes_with_exactly_one_payout", ok and po is not None and msgs[0].get("reply_on").variant == "Error" and msgs[0].get("id") == RECEIVE_ID)
        if not ok or po is None or pkt is None: return
        kind, tok, rcpt, amt, gl = po
        ch = msg.get("packet").get("dest").get("channel_id")
        o0, o1 = outstanding_map(ctx, pre), outstanding_map(ctx, st1)
        # which local denomination was redeemed: the voucher's third path component
        va = ctx.atom_of(pkt.get("denom"))
        den = ctx.find(va.shape[4]) if va.shape is not None and va.shape[0] == "split3" else None
        ob.require("C12.payout_is_the_full_packet_amount_to_the_packet_receiver", zand(amt == pkt.get("amount"), rcpt is ctx.atom_of(pkt.get("receiver"))))
        if not self.payout_fails:
            for (c, d), (p, out, ts) in o0.items():
                p1, out1, ts1 = o1[(c, d)]
                mine = c is ctx.atom_of(ch) and d is den
                ob.require("C12.success_reduces_exactly_that_channel_balance_by_the_amount" if mine else "C12.other_channel_balances_untouched",
                           zand(zeq(p, p1), zimplies(p1, zand(out1 == (out - amt if mine else out), ts1 == ts))))
            ob.require("C12.some_balance_was_reduced", den is not None or zeq(amt, 0) is True or True)
            ob.witness("redeemed", amt > 0)
        else:
            # the payout fails: its effects are rolled back by the platform and reply(RECEIVE_ID, Err) runs on the state after receive
            rep = mk_reply(I, ctx, msgs[0].get("id"), False)
            o2, r2 = run_entry(I, ctx, fn(I, "reply", CRATE), [make_deps(), env, rep], st1)
            ob.require("C12.reply_never_fails_after_receive", o2 == "Ok")
            if o2 != "Ok": return
            data = lazy_forced(ctx, r2.get("data"))
            ob.require("C12.failed_payout_turns_the_ack_into_an_error", data is not None and data.variant == "Some" and ack_kind(ctx, data.fields[0]) == "error")
            ob.require("C12.failed_payout_restores_every_channel_balance", state_same(ctx, pre, ctx.storage))
            ob.require("C12.reply_sends_nothing", len(msgs_of(r2)) == 0)
            ob.witness("restored", amt > 0)
            ob.info["replay2"] = dict(reply=rep, st1=st1, final=snapshot_storage(ctx.storage))
        ob.twin("twin.balances_never_change_on_receive", state_same(ctx, pre, st1))

    def replay(self, I, v):
        from mirsym import findings, replay as rp, serial
        import json
        r1 = findings.step_replay(I, self, v)
        return r1


class Transfer(VC):
    property_id = "C12"
    crate = CRATE

    def __init__(self, via):
        self.via = via
        self.name = f"C12.transfer.{via}"

    def run(self, I, ctx, ob):
        s = ics20_state(I, ctx)
        env, info = mk_env(I, ctx), mk_info(I, ctx)
        I.force(ctx, s.cfg.get("default_gas_limit"))
        msg = symval.fresh(I, ctx, "msg::ExecuteMsg", "msg", None, CRATE)
        msg.variants = ["Transfer" if self.via == "native" else "Receive"]
        m = I.force(ctx, msg)
        if self.via == "native":
            ctx.bounds["vec"] = 2
            funds = I.force(ctx, symval.fresh(I, ctx, "Vec<Coin>", "funds", None, CRATE))
            for c in funds.items: ctx._exclude(ctx.atom_of(c.get("denom")), ("pre", "cw20:"))     # bank denoms (environment)
            info = info.with_("funds", funds)
            tm = m.fields[0]
        else:
            tm = None
        outcome, r, pre = call_entry(I, ctx, ob, CRATE, "execute", "execute", [make_deps(), env, info, m], env, info, m, "msg::ExecuteMsg", CRATE)
        if outcome != "Ok": return
        msgs = msgs_of(r)
        ok = len(msgs) == 1 and msgs[0].get("msg").variant == "Ibc" and msgs[0].get("msg").fields[0].variant == "SendPacket"
        ob.require("C12.accepted_transfer_emits_exactly_one_packet", ok and msgs[0].get("reply_on").variant == "Never")
        if not ok: return
        sp = msgs[0].get("msg").fields[0]
        data = sp.get("data")
        if not isinstance(data, JsonBin): ob.require("C12.packet_data_is_an_ics20_packet", False); return
        pk = data.value
        if self.via == "native":
            coin = info.get("funds").items[0] if len(info.get("funds").items) == 1 else None
            ob.require("C12.native_transfer_carries_exactly_one_coin", coin is not None)
            if coin is None: return
            amount, denom, sender = coin.get("amount"), ctx.atom_of(coin.get("denom")), ctx.atom_of(info.get("sender"))
        else:
            w = m.fields[0]
            parsed = next((v for (i, t), v in ctx.bin_parse.items() if i == w.get("msg").id), None)
            tm = parsed[1] if parsed else None
            if tm is None: ob.require("C12.cw20_transfer_parses_its_payload", False); return
            amount, denom, sender = w.get("amount"), ctx.shaped("pre", "cw20:", info.get("sender")), ctx.atom_of(w.get("sender"))
        ob.require("C12.packet_carries_amount_denom_sender_receiver_memo",
                   zand(pk.get("amount") == amount, ctx.atom_of(pk.get("denom")) is ctx.find(denom), ctx.atom_of(pk.get("sender")) is sender,
                        ctx.atom_of(pk.get("receiver")) is ctx.atom_of(tm.get("remote_address")), spec_eq(ctx, pk.get("memo"), tm.get("memo"))))
        ob.require("C12.packet_amount_fits_u64_and_is_positive", zand(amount <= U64 - 1, amount > 0))
        ob.require("C12.packet_goes_out_on_the_requested_known_channel", ctx.atom_of(sp.get("channel_id")) is ctx.atom_of(tm.get("channel")))
        to = lazy_forced(ctx, tm.get("timeout"))
        delta = to.fields[0] if to is not None and to.variant == "Some" else s.cfg.get("default_timeout")
        tmo = sp.get("timeout")
        ts = lazy_forced(ctx, tmo.get("timestamp"))
        ob.require("C12.timeout_is_block_time_plus_requested_or_default", ts is not None and ts.variant == "Some" and lazy_forced(ctx, tmo.get("block")).variant == "None"
                   and ts.fields[0] == env.get("block").get("time") + delta * 10 ** 9)
        # escrow accounting
        o0, o1 = outstanding_map(ctx, pre), outstanding_map(ctx, ctx.storage)
        k = key_of(ctx, tm.get("channel"), denom)
        for kk in set(o0) | set(o1):
            p, out, tsnt = o0.get(kk, (False, 0, 0)); p1, out1, ts1 = o1.get(kk, (False, 0, 0))
            if kk == k:
                ob.require("C12.transfer_adds_the_escrowed_amount_to_outstanding_and_total_sent",
                           zand(p1, out1 == zite(p, out, 0) + amount, ts1 == zite(p, tsnt, 0) + amount))
            else:
                ob.require("C12.other_channel_balances_untouched", zand(zeq(p, p1), zimplies(p1, zand(out1 == out, ts1 == tsnt))))
        if self.via == "cw20":
            al = {ctx.atom_of(kx[0]): (p, v) for kx, p, v in pre["allow_list"].slots}
            ap = al.get(ctx.atom_of(info.get("sender")), (False, None))[0]
            dg = lazy_forced(ctx, s.cfg.get("default_gas_limit"))
            ob.require("C12.cw20_transfer_needs_allow_list_entry_or_default_gas_limit", zor(ap, dg is not None and dg.variant == "Some"))
        ob.witness("transferred", amount > 0)
        ob.twin("twin.transfer_never_changes_balances", state_same(ctx, pre, ctx.storage))


class AckTimeout(VC):
    """acknowledgement (success / error) or timeout of a packet this contract sent, with the refund succeeding or failing"""
    property_id = "C12"
    crate = CRATE

    def __init__(self, entry):
        self.entry = entry
        self.name = f"C12.{entry}"

    def run(self, I, ctx, ob):
        s = ics20_state(I, ctx)
        env = mk_env(I, ctx)
        I.force(ctx, s.cfg.get("default_gas_limit"))
        ty = "IbcPacketAckMsg" if self.entry == "ibc_packet_ack" else "IbcPacketTimeoutMsg"
        msg = symval.fresh(I, ctx, ty, "m", None, CRATE)
        outcome, r, pre = call_entry(I, ctx, ob, CRATE, self.entry, self.entry, [make_deps(), env, msg], env, None, msg, ty, CRATE, result_ty="IbcBasicResponse")
        if outcome != "Ok": return
        pktv = msg.get("original_packet") if self.entry == "ibc_packet_ack" else msg.get("packet")
        parsed = next((v for (i, t), v in ctx.bin_parse.items() if i == pktv.get("data").id), None)
        pk = parsed[1] if parsed else None
        msgs = msgs_of(r)
        o0, o1 = outstanding_map(ctx, pre), outstanding_map(ctx, ctx.storage)
        if len(msgs) == 0:
            ob.require("C12.successful_ack_changes_no_balance", state_same(ctx, pre, ctx.storage))
            ob.witness("acked_success")
            return
        po = payout_of(ctx, msgs[0]) if len(msgs) == 1 else None
        ob.require("C12.failed_send_issues_exactly_one_refund", po is not None and msgs[0].get("reply_on").variant == "Error" and msgs[0].get("id") == ACK_FAILURE_ID)
        if po is None or pk is None: return
        kind, tok, rcpt, amt, gl = po
        ob.require("C12.refund_is_the_full_amount_to_the_original_sender", zand(amt == pk.get("amount"), rcpt is ctx.atom_of(pk.get("sender"))))
        k = key_of(ctx, pktv.get("src").get("channel_id"), pk.get("denom"))
        for kk in set(o0) | set(o1):
            p, out, tsnt = o0.get(kk, (False, 0, 0)); p1, out1, ts1 = o1.get(kk, (False, 0, 0))
            if kk == k:
                ob.require("C12.failed_send_reduces_outstanding_by_the_amount_only", zand(p, p1, out1 == out - amt, ts1 == tsnt))
            else:
                ob.require("C12.other_channel_balances_untouched", zand(zeq(p, p1), zimplies(p1, zand(out1 == out, ts1 == tsnt))))
        ob.witness("refunded", amt > 0)
        ob.twin("twin.ack_never_changes_balances", state_same(ctx, pre, ctx.storage))


def vcs(tier):
    return [Receive(False), Receive(True), Transfer("native"), Transfer("cw20"), AckTimeout("ibc_packet_ack"), AckTimeout("ibc_packet_timeout")]


BOUNDS = {"channels with state": 2, "cw20 tokens with state": 2, "native denominations with state": 1, "amounts": "full u128", "packet data": "arbitrary bytes: unparsable, or any Ics20Packet",
          "voucher denom": "arbitrary string: fewer than three '/'-parts, or port/channel/rest with rest native or cw20:<addr>"}
OUTSIDE = ("migration from the 0.11-0.13 storage layouts (update_balances queries the chain) is not encoded; the accounting identity over histories is the "
           "telescoped sum of the per-step balance changes proved here")
ASSUMPTIONS = ["bank denominations never start with `cw20:`; identifiers of the form cw20:<address> contain no '/'",
               "IBC core delivers at most one acknowledgement or timeout per sent packet, carrying the original packet data",
               "a failing sub-message with reply_on_error has its own effects rolled back and `reply` runs on the caller's state (platform rule)"]
