"""C16 — cw1: CanExecute predicts Execute."""
import z3
from mirsym.values import *
from mirsym import symval
from mirsym.explore import run_entry, snapshot_storage
from .common import *
from .cw1 import *


class Rel(VC):
    """relational VC on one symbolic state, sender and message: the query answers true exactly when Execute{[msg]} succeeds"""
    property_id = "C16"

    def __init__(self, crate):
        self.crate = crate
        self.name = f"C16.{'whitelist' if crate == WL else 'subkeys'}.can_execute_iff_execute_succeeds"

    def run(self, I, ctx, ob):
        crate = self.crate
        # identical to Rel.run but keeps the pieces for the native replay
        if crate == WL:
            admin_state(I, ctx, WL)
            U = []
        else:
            U, al, alw, perm = subkeys_state(I, ctx, nsub=1)
        env = mk_env(I, ctx)
        sender = SymStr(ctx.fresh_id(), "sender", "addr")
        from mirsym.models.cosmwasm import valid_addr_pred
        ctx.assume(valid_addr_pred(ctx, ctx.atom_of(sender)))
        ctx.bounds["vec"] = 2
        m = symval.fresh(I, ctx, "CosmosMsg<Empty>", "m", None, crate)
        pre = snapshot_storage(ctx.storage)
        qname = "query_can_execute" if crate == WL else "contract::query_can_execute"
        qargs = [make_deps(False), sender, m] if crate == WL else [make_deps(False), env, sender, m]
        oq, rq = run_entry(I, ctx, fn(I, qname, crate), qargs, pre)
        info = mk_info(I, ctx, sender=sender)
        ename = "execute_execute" if crate == WL else "contract::execute_execute"
        oe, re_ = run_entry(I, ctx, fn(I, ename, crate), [make_deps(), env, info, VecV([m])], pre)
        ob.outcome = f"q:{oq}/e:{oe}"
        qmsg = EnumV("QueryMsg", "CanExecute", [sender, m], ["sender", "msg"])
        emsg = EnumV("ExecuteMsg", "Execute", [VecV([m])], ["msgs"])
        ob.info["rel"] = dict(env=env, info=info, pre=pre, qmsg=qmsg, emsg=emsg)
        ob.require("C16.query_does_not_fail_for_valid_sender", oq == "Ok")
        if oq != "Ok": return
        can = rq.get("can_execute")
        ob.require("C16.can_execute_true_iff_execute_succeeds", zeq(can, oe == "Ok"))
        ob.witness("can", zand(can, oe == "Ok"))
        ob.witness("cannot", zand(znot(can), oe != "Ok"))
        ob.twin("twin.can_execute_is_always_false", znot(can))



    def replay(self, I, v):
        """two native calls on the same injected state: the CanExecute query and Execute{[msg]}"""
        from mirsym import findings, replay, serial
        ctx, prog = v.ctx, I.prog
        rp = v.info["rel"]
        base = dict(contract=self.crate, crate=self.crate, env=rp["env"], pre_storage=rp["pre"], querier=None)
        conc, rq = findings.build_step_request(I, ctx, v.model, dict(base, entry="query", info=None, msg=rp["qmsg"], msg_ty="msg::QueryMsg<Empty>" if self.crate == WL else "msg::QueryMsg"), prog)
        _, re_ = findings.build_step_request(I, ctx, v.model, dict(base, entry="execute", info=rp["info"], msg=rp["emsg"], msg_ty="msg::ExecuteMsg<Empty>"), prog)
        a, b = replay.run(rq), replay.run(re_)
        nat_can = ((a.get("response") or {}).get("json") or {}).get("can_execute") if a.get("result") == "ok" else None
        nat_ok = b.get("result") == "ok"
        out = {"request": rq, "request_execute": re_, "native": {"query": a.get("result"), "can_execute": nat_can, "execute": b.get("result"), "execute_error": b.get("error")}}
        if a.get("result") != "ok":
            out["reproduced"] = (v.ob_name == "C16.query_does_not_fail_for_valid_sender")
        else:
            out["reproduced"] = (nat_can != nat_ok)
        if not out["reproduced"]: out["why"] = "natively the query and the execute agree"
        return out




def vcs(tier):
    return [Rel(WL), Rel(SK)]


BOUNDS = {"admins": "<= 2", "coins per send / per allowance": "<= 2", "CosmosMsg kinds": "every variant compiled into the crate", "amounts": "full u128",
          "block": "symbolic height/time; all Expiration kinds"}
OUTSIDE = "allowances with more than 2 coins; sender strings that are not valid addresses (excluded by the property)"
ASSUMPTIONS = ["stored state is what the contract's own entry points can write (arbitrary admin list, allowance, permissions)"]
