"""Shared symbolic state / step harness for the cw20-base properties (C01, C02, C13, C19)."""
import z3
from mirsym.values import *
from mirsym import symval
from mirsym.ctx import ItemStore, MapStore
from .common import *

CRATE = "cw20-base"
N = 3
VARIANTS = ["Transfer", "Burn", "Send", "IncreaseAllowance", "DecreaseAllowance", "TransferFrom", "SendFrom", "BurnFrom", "Mint",
            "UpdateMinter", "UpdateMarketing", "UploadLogo"]


def lazy_forced(ctx, v):
    """the concrete shape of a lazy value if the path inspected it, else None"""
    if isinstance(v, (SymEnum, SymVec)): return ctx.forced.get(v.id)
    return v


def expired(ctx, exp, env):
    """z3/bool: is Expiration value `exp` expired at env.block ; None when the path never inspected it"""
    e = lazy_forced(ctx, exp)
    if e is None: return None
    blk = env.get("block")
    if e.variant == "AtHeight": return blk.get("height") >= e.fields[0]
    if e.variant == "AtTime": return blk.get("time") >= e.fields[0]
    return False


def spec_eq(ctx, a, b):
    """structural equality for post-conditions (never forks): lazies are equal only if identical or both inspected"""
    if a is b: return True
    if isinstance(a, (SymEnum, SymVec)) and isinstance(b, (SymEnum, SymVec)) and a.id == b.id: return True
    a, b = lazy_forced(ctx, a), lazy_forced(ctx, b)
    if a is None or b is None: return False
    if isinstance(a, (str, StrAtom, SymStr)) and isinstance(b, (str, StrAtom, SymStr)):
        if isinstance(a, str) and isinstance(b, str): return a == b
        return ctx.atom_of(a) is ctx.atom_of(b)
    if is_int(a) and is_int(b): return zeq(a, b)
    if is_boolish(a) and is_boolish(b): return zeq(a, b)
    if isinstance(a, EnumV) and isinstance(b, EnumV):
        if a.variant != b.variant: return False
        return zand(*[spec_eq(ctx, x, y) for x, y in zip(a.fields, b.fields)])
    if isinstance(a, Struct) and isinstance(b, Struct):
        return zand(*[spec_eq(ctx, x, y) for x, y in zip(a.fields, b.fields)])
    if isinstance(a, tuple) and isinstance(b, tuple) and len(a) == len(b):
        return zand(*[spec_eq(ctx, x, y) for x, y in zip(a, b)])
    if isinstance(a, VecV) and isinstance(b, VecV):
        if len(a) != len(b): return False
        return zand(*[spec_eq(ctx, x, y) for x, y in zip(a.items, b.items)])
    if isinstance(a, JsonBin) and isinstance(b, JsonBin): return spec_eq(ctx, a.value, b.value)
    if isinstance(a, SymBin) and isinstance(b, SymBin): return a.id == b.id
    return False


def resolve(ctx, s, U):
    """index of the universe atom equal to string s, or None (an address with no state).  Forks."""
    for i, u in enumerate(U):
        if ctx.str_eq(s, u): return i
    return None


def cw20_state(I, ctx, n=N, mirror=True, ordered=False):
    """arbitrary cw20-base state over a universe of n addresses; the spender-indexed allowance map mirrors the
    owner-indexed one (invariant of C19) when mirror=True"""
    U = universe(ctx, n, ordered=ordered)
    ti = sym_item(I, ctx, "token_info", "state::TokenInfo", CRATE, present=True)
    bal = sym_map(I, ctx, "balance", [(a,) for a in U], "Uint128", CRATE)
    al = sym_map(I, ctx, "allowance", [(a, b) for a in U for b in U], "AllowanceResponse", CRATE)
    if mirror:
        als = MapStore("allowance_spender", [], None, "AllowanceResponse")
        by = {k: (p, v) for k, p, v in al.slots}
        for s in U:
            for o in U:
                p, v = by[(o, s)]
                als.slots.append([(s, o), p, v])
        ctx.storage["allowance_spender"] = als
    else:
        sym_map(I, ctx, "allowance_spender", [(a, b) for a in U for b in U], "AllowanceResponse", CRATE)
    sym_item(I, ctx, "marketing_info", "MarketingInfoResponse", CRATE)
    sym_item(I, ctx, "logo", "Logo", CRATE)
    cw2_item(I, ctx, CRATE)
    return U


def supply(storage):
    return storage["token_info"].value.get("total_supply")


def bal_of(storage, ctx, atom_or_none, U):
    """(present, value) of the balance slot of universe index i"""
    return None


class Facts:
    pass


def run_step(I, ctx, ob, variant, n=N, assume_supply_inv=True, mirror=True):
    """arbitrary state -> one execute call of the given variant; returns the facts the property specs talk about"""
    f = Facts()
    f.U = U = cw20_state(I, ctx, n, mirror)
    if assume_supply_inv:
        ctx.assume(supply(ctx.storage) == map_sum(ctx.storage["balance"]))
    f.env, f.info = mk_env(I, ctx), mk_info(I, ctx)
    msg = symval.fresh(I, ctx, "Cw20ExecuteMsg", "msg", None, CRATE)
    msg.variants = [variant]
    f.msg = m = I.force(ctx, msg)
    f.variant = variant
    # decide up front which universe member (if any) each address of the call is
    f.sender = resolve(ctx, f.info.get("sender"), U)
    f.addr = {}
    for fld in ("owner", "spender", "recipient", "contract"):
        if m.names and fld in m.names:
            f.addr[fld] = resolve(ctx, m.get(fld), U)
    f.amount = m.get("amount") if m.names and "amount" in m.names else None
    ctx.stubs["verify_logo"] = stub_result("verify_logo")
    f.outcome, f.resp, f.pre = call_entry(I, ctx, ob, CRATE, "execute", "execute", [make_deps(), f.env, f.info, m], f.env, f.info, m,
                                          "Cw20ExecuteMsg", CRATE)
    f.post = ctx.storage
    return f


def slot_map(store):
    return {tuple(k): (p, v) for k, p, v in store.slots}


def balance_deltas(ctx, f):
    """[(key, pre_amount, post_amount)] over every balance slot after the call (absent = 0)"""
    pre = slot_map(f.pre["balance"])
    out = []
    for k, p, v in f.post["balance"].slots:
        pp, pv = pre.get(tuple(k), (False, 0))
        out.append((k, zite(pp, pv, 0), zite(p, v, 0)))
    return out


def is_addr(ctx, key_comp, s):
    return ctx.atom_of(key_comp) is ctx.atom_of(s)


def variant_is(ctx, prog_types, v, name):
    """z3/bool: does enum value v (forced or still lazy) have variant `name`"""
    f = lazy_forced(ctx, v)
    if f is not None and not isinstance(f, (SymEnum, SymVec)): return f.variant == name
    if isinstance(v, SymEnum) and v.disc is not None:
        return v.disc == v.tdef.variant_index(name)
    raise Unsupported(f"variant of lazy {v!r}")
