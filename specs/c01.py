"""C01 — cw20: total supply always equals the sum of all balances."""
import z3
from mirsym.values import *
from mirsym import symval
from .common import *

CRATE = "cw20-base"
N = 3


def cw20_state(I, ctx, n=N, with_allowances=True):
    U = universe(ctx, n, ordered=False)
    ti = sym_item(I, ctx, "token_info", "state::TokenInfo", CRATE, present=True)
    bal = sym_map(I, ctx, "balance", [(a,) for a in U], "Uint128", CRATE)
    if with_allowances:
        al = sym_map(I, ctx, "allowance", [(a, b) for a in U for b in U], "AllowanceResponse", CRATE)
        als = sym_map(I, ctx, "allowance_spender", [(a, b) for a in U for b in U], "AllowanceResponse", CRATE)
    sym_item(I, ctx, "marketing_info", "MarketingInfoResponse", CRATE)
    sym_item(I, ctx, "logo", "Logo", CRATE)
    cw2_item(I, ctx, CRATE)
    return U, ti, bal


def supply(ctx):
    return ctx.storage["token_info"].value.get("total_supply")


def inv_supply(ctx):
    return supply(ctx) == map_sum(ctx.storage["balance"])


class Step(VC):
    property_id = "C01"
    crate = CRATE

    def __init__(self, variant):
        self.variant = variant
        self.name = f"C01.step.{variant}"

    def run(self, I, ctx, ob):
        U, ti, bal = cw20_state(I, ctx)
        ctx.assume(inv_supply(ctx))
        pre_supply = supply(ctx)
        pre_bal = [(k, p, v) for k, p, v in bal.slots]
        env, info = mk_env(I, ctx), mk_info(I, ctx)
        msg = symval.fresh(I, ctx, "Cw20ExecuteMsg", "msg", None, CRATE)
        msg.variants = [self.variant]
        m = I.force(ctx, msg)
        ctx.stubs["verify_logo"] = stub_result("verify_logo")
        outcome, r, pre = call_entry(I, ctx, ob, CRATE, "execute", "execute", [make_deps(), env, info, m], env, info, m,
                                     "Cw20ExecuteMsg", CRATE)
        post_supply = supply(ctx)
        post = ctx.storage["balance"]
        ob.require("C01.supply_eq_sum", post_supply == map_sum(post))
        if outcome != "Ok":
            return
        amount = m.get("amount") if m.names and "amount" in m.names else None
        # per-address delta (new slots count from 0)
        deltas = []
        pre_by_key = {k: (p, v) for k, p, v in pre_bal}
        for k, p, v in post.slots:
            pp, pv = pre_by_key.get(k, (False, 0))
            deltas.append(zite(p, v, 0) - zite(pp, pv, 0))
        nchanged = zsum([zite(d != 0, 1, 0) if not isinstance(d, int) else int(d != 0) for d in deltas])
        v = self.variant
        if v in ("Transfer", "Send", "TransferFrom", "SendFrom"):
            ob.require("C01.move_keeps_supply", post_supply == pre_supply)
            ob.witness("moved", zand(amount > 0, nchanged == 2))
        elif v in ("Burn", "BurnFrom"):
            ob.require("C01.burn_lowers_supply_exactly", post_supply == pre_supply - amount)
            ob.require("C01.burn_changes_one_balance", zimplies(amount > 0, zand(nchanged == 1, zsum(deltas) == -amount)))
            ob.witness("burned", amount > 0)
        elif v == "Mint":
            ob.require("C01.mint_raises_supply_exactly", post_supply == pre_supply + amount)
            ob.require("C01.mint_changes_one_balance", zimplies(amount > 0, zand(nchanged == 1, zsum(deltas) == amount)))
            ob.witness("minted", amount > 0)
        else:
            ob.require("C01.other_calls_change_nothing", zand(post_supply == pre_supply, nchanged == 0))
            ob.witness("ok")
        ob.twin("twin.supply_rises_by_one", post_supply == pre_supply + 1)


VARIANTS = ["Transfer", "Burn", "Send", "IncreaseAllowance", "DecreaseAllowance", "TransferFrom", "SendFrom", "BurnFrom", "Mint",
            "UpdateMinter", "UpdateMarketing", "UploadLogo"]


def vcs(tier):
    return [Step(v) for v in VARIANTS]


def empty_cw20_state(ctx):
    from mirsym.ctx import ItemStore, MapStore
    ctx.storage["token_info"] = ItemStore("token_info", False, None, "state::TokenInfo")
    ctx.storage["marketing_info"] = ItemStore("marketing_info", False, None, "MarketingInfoResponse")
    ctx.storage["logo"] = ItemStore("logo", False, None, "Logo")
    ctx.storage["contract_info"] = ItemStore("contract_info", False, None, "cw2::ContractVersion")
    ctx.storage["balance"] = MapStore("balance", [], None, "Uint128")
    ctx.storage["allowance"] = MapStore("allowance", [], None, "AllowanceResponse")
    ctx.storage["allowance_spender"] = MapStore("allowance_spender", [], None, "AllowanceResponse")


class Base(VC):
    """instantiate establishes the invariant for every initial_balances list (duplicates included) up to the bound"""
    property_id = "C01"
    crate = CRATE
    name = "C01.base.instantiate"

    def __init__(self, nbal=2):
        self.nbal = nbal
        self.name = f"C01.base.instantiate[{nbal}]"

    def run(self, I, ctx, ob):
        empty_cw20_state(ctx)
        ctx.bounds["vec"] = self.nbal
        env, info = mk_env(I, ctx), mk_info(I, ctx)
        msg = symval.fresh(I, ctx, "msg::InstantiateMsg", "msg", None, CRATE)
        # name / symbol are irrelevant to the property: concretised (stated cut)
        msg = msg.with_("name", "Token").with_("symbol", "TOK")
        ctx.stubs["verify_logo"] = stub_result("verify_logo")
        outcome, r, pre = call_entry(I, ctx, ob, CRATE, "instantiate", "instantiate", [make_deps(), env, info, msg], env, info, msg,
                                     "msg::InstantiateMsg", CRATE)
        if outcome != "Ok":
            ob.require("C01.failed_instantiate_leaves_nothing", True)
            return
        bals = I.force(ctx, msg.get("initial_balances"))
        total = zsum([I.deref(ctx, b).get("amount") for b in bals.items])
        ob.require("C01.supply_eq_sum", supply(ctx) == map_sum(ctx.storage["balance"]))
        ob.require("C01.supply_eq_initial_total", supply(ctx) == total)
        ob.witness("instantiated_with_max_accounts", len(bals.items) == self.nbal)
        ob.twin("twin.supply_zero", supply(ctx) == 0)


class Queries(VC):
    """the supply / balance queries report exactly the stored values the invariant speaks about"""
    property_id = "C01"
    crate = CRATE
    name = "C01.query.observability"

    def run(self, I, ctx, ob):
        U, ti, bal = cw20_state(I, ctx, with_allowances=False)
        env = mk_env(I, ctx)
        q = symval.fresh(I, ctx, "msg::QueryMsg", "q", None, CRATE)
        q.variants = ["Balance", "TokenInfo"]
        qm = I.force(ctx, q)
        deps = make_deps(False)
        pre = snapshot_storage(ctx.storage)
        outcome, r = run_entry(I, ctx, fn(I, "query", CRATE), [deps, env, qm], pre)
        ob.outcome = f"{qm.variant}:{outcome}"
        ob.info["replay"] = dict(contract=CRATE, entry="query", crate=CRATE, env=env, info=None, msg=qm, msg_ty="msg::QueryMsg", pre_storage=pre, post_storage=pre,
                                 outcome=outcome, result=r.value if outcome == "Ok" else None,
                                 result_ty="cw20::BalanceResponse" if qm.variant == "Balance" else "TokenInfoResponse", querier=None)
        if outcome != "Ok": return      # only an invalid address string makes the balance query fail
        val = r.value
        if qm.variant == "Balance":
            p, v = pre["balance"].get(ctx, (qm.get("address"),))
            ob.require("C01.balance_query_reads_store", val.get("balance") == zite(p, v, 0))
            ob.witness("balance_of_holder", p)
        else:
            ob.require("C01.token_info_reads_supply", val.get("total_supply") == pre["token_info"].value.get("total_supply"))
            ob.witness("token_info")
        ob.twin("twin.query_returns_7", (val.get("balance") if qm.variant == "Balance" else val.get("total_supply")) == 7)


_old_vcs = vcs


def vcs(tier):
    out = _old_vcs(tier)
    out += [Base(2), Base(4), Queries()]
    if tier == "thorough": out += [Base(3)]
    return out


BOUNDS = {"quick": {"addresses_with_state": N, "initial_balances": 4, "amounts": "full u128, symbolic"},
          "thorough": {"addresses_with_state": N, "initial_balances": 4, "amounts": "full u128, symbolic"}}
OUTSIDE = ("pre-states with more than %d accounts holding balances/allowances besides arbitrary fresh addresses (closed world); "
           "initial_balances longer than the bound; histories are covered by induction: each VC starts from an arbitrary state "
           "satisfying the invariant" % N)
ASSUMPTIONS = ["verify_logo (logo byte scanning) is stubbed as a nondeterministic pure Result; name/symbol are concrete in instantiate",
               "Api::addr_validate is identity-or-error with an arbitrary fixed validity predicate per string"]

SECOND_SOLVER = True      # thorough tier: every non-trivial obligation is re-discharged with cvc5
