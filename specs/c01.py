"""C01 — cw20: total supply always equals the sum of all balances."""
import z3
from mirsym.values import *
from mirsym import symval
from .common import *

CRATE = "cw20-base"
N = 3


def cw20_state(I, ctx, n=N, with_allowances=True):
    U = universe(ctx, n, ordered=False)
    ti = sym_item(I, ctx, "token_info", "state::TokenInfo", CRATE, present=True)
    bal = sym_map(I, ctx, "balance", [(a,) for a in U], "Uint128", CRATE)
    if with_allowances:
        al = sym_map(I, ctx, "allowance", [(a, b) for a in U for b in U], "AllowanceResponse", CRATE)
        als = sym_map(I, ctx, "allowance_spender", [(a, b) for a in U for b in U], "AllowanceResponse", CRATE)
    sym_item(I, ctx, "marketing_info", "MarketingInfoResponse", CRATE)
    sym_item(I, ctx, "logo", "Logo", CRATE)
    cw2_item(I, ctx, CRATE)
    return U, ti, bal


def supply(ctx):
    return ctx.storage["token_info"].value.get("total_supply")


def inv_supply(ctx):
    return supply(ctx) == map_sum(ctx.storage["balance"])


class Step(VC):
    property_id = "C01"
    crate = CRATE

    def __init__(self, variant):
        self.variant = variant
        self.name = f"C01.step.{variant}"

    def run(self, I, ctx, ob):
        U, ti, bal = cw20_state(I, ctx)
        ctx.assume(inv_supply(ctx))
        pre_supply = supply(ctx)
        pre_bal = [(k, p, v) for k, p, v in bal.slots]
        env, info = mk_env(I, ctx), mk_info(I, ctx)
        msg = symval.fresh(I, ctx, "Cw20ExecuteMsg", "msg", None, CRATE)
        msg.variants = [self.variant]
        m = I.force(ctx, msg)
        outcome, r = run_entry(I, ctx, fn(I, "execute", CRATE), [make_deps(), env, info, m])
        ob.outcome = outcome
        post_supply = supply(ctx)
        post = ctx.storage["balance"]
        ob.require("C01.supply_eq_sum", post_supply == map_sum(post))
        if outcome != "Ok":
            return
        amount = m.get("amount") if m.names and "amount" in m.names else None
        # per-address delta (new slots count from 0)
        deltas = []
        pre_by_key = {k: (p, v) for k, p, v in pre_bal}
        for k, p, v in post.slots:
            pp, pv = pre_by_key.get(k, (False, 0))
            deltas.append(zite(p, v, 0) - zite(pp, pv, 0))
        nchanged = zsum([zite(d != 0, 1, 0) if not isinstance(d, int) else int(d != 0) for d in deltas])
        v = self.variant
        if v in ("Transfer", "Send", "TransferFrom", "SendFrom"):
            ob.require("C01.move_keeps_supply", post_supply == pre_supply)
            ob.witness("moved", zand(amount > 0, nchanged == 2))
        elif v in ("Burn", "BurnFrom"):
            ob.require("C01.burn_lowers_supply_exactly", post_supply == pre_supply - amount)
            ob.require("C01.burn_changes_one_balance", zimplies(amount > 0, zand(nchanged == 1, zsum(deltas) == -amount)))
            ob.witness("burned", amount > 0)
        elif v == "Mint":
            ob.require("C01.mint_raises_supply_exactly", post_supply == pre_supply + amount)
            ob.require("C01.mint_changes_one_balance", zimplies(amount > 0, zand(nchanged == 1, zsum(deltas) == amount)))
            ob.witness("minted", amount > 0)
        else:
            ob.require("C01.other_calls_change_nothing", zand(post_supply == pre_supply, nchanged == 0))
            ob.witness("ok")
        ob.twin("twin.supply_rises_by_one", post_supply == pre_supply + 1)


VARIANTS = ["Transfer", "Burn", "Send", "IncreaseAllowance", "DecreaseAllowance", "TransferFrom", "SendFrom", "BurnFrom", "Mint",
            "UpdateMinter", "UpdateMarketing", "UploadLogo"]


def vcs(tier):
    return [Step(v) for v in VARIANTS]
