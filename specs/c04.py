"""C04 — cw3: threshold arithmetic is exact, rounds up, and decides early only soundly."""
import z3
from mirsym.values import *
from mirsym import replay, serial
from .common import *

CRATE = "cw3"
E18, E9 = 10 ** 18, 10 ** 9


def ceil_rel(ctx, name, w, p):
    """fresh n with n = ceil(w*p / 1e18)   (defined by two inequalities, no division)"""
    n = ctx.fresh_int(name, 0, None)
    ctx.assume(n * E18 >= w * p)
    ctx.assume((n - 1) * E18 < w * p)
    return n


def mk_threshold(ctx, kind, total, nine_decimals):
    def dec(name, lo, hi):
        if nine_decimals:
            k = ctx.fresh_int(name + ".e9", lo // E9, hi // E9 + 1)
            return k * E9
        return ctx.fresh_int(name, lo, hi + 1)
    if kind == "AbsoluteCount":
        w = ctx.fresh_int("thr.weight", 1, U64)
        ctx.assume(w <= total)
        return EnumV("Threshold", kind, [w], ["weight"]), dict(w=w)
    if kind == "AbsolutePercentage":
        p = dec("thr.percentage", E18 // 2, E18)
        return EnumV("Threshold", kind, [p], ["percentage"]), dict(p=p)
    t = dec("thr.threshold", E18 // 2, E18)
    q = dec("thr.quorum", 1 if not nine_decimals else E9, E18)
    return EnumV("Threshold", kind, [t, q], ["threshold", "quorum"]), dict(t=t, q=q)


def mk_proposal(I, ctx, kind, expired, nine_decimals, status="Open"):
    total = ctx.fresh_int("total", 0, U64)
    yes, no, ab, veto = [ctx.fresh_int(n, 0, U64) for n in ("yes", "no", "abstain", "veto")]
    ctx.assume(yes + no + ab + veto <= total)
    thr, tp = mk_threshold(ctx, kind, total, nine_decimals)
    h = ctx.fresh_int("block.height", 0, U64)
    eh = ctx.fresh_int("expires.height", 0, U64)
    ctx.assume(h >= eh if expired else h < eh)
    votes = Struct("Votes", [yes, no, ab, veto], ["yes", "no", "abstain", "veto"])
    prop = Struct("Proposal", ["t", "d", 1, EnumV("Expiration", "AtHeight", [eh]), VecV([]), EnumV("Status", status), thr, total, votes,
                               "proposer", NONE],
                  ["title", "description", "start_height", "expires", "msgs", "status", "threshold", "total_weight", "votes", "proposer", "deposit"])
    blk = Struct("BlockInfo", [h, ctx.fresh_int("block.time", 0, U64), "chain"], ["height", "time", "chain_id"])
    return prop, blk, dict(total=total, yes=yes, no=no, ab=ab, veto=veto, kind=kind, expired=expired, **tp)


def spec_pass_at_expiry(ctx, kind, total, yes, no, ab, veto, tp, tag, slack=0):
    """the documented rule evaluated in exact arithmetic (required Yes weight rounded up), plus 'never without Yes'.
    slack=1 lowers each rounded-up requirement by one vote (the tolerance stated for thresholds with more than 9 decimals)"""
    if kind == "AbsoluteCount": return zand(yes >= tp["w"], yes > 0)
    if kind == "AbsolutePercentage":
        n = ceil_rel(ctx, f"need_pct{tag}", total - ab, tp["p"])
        return zand(yes >= n - slack, yes > 0)
    voted = yes + no + ab + veto
    nq = ceil_rel(ctx, f"need_quorum{tag}", total, tp["q"])
    nt = ceil_rel(ctx, f"need_thr{tag}", voted - ab, tp["t"])
    return zand(voted >= nq - slack, yes >= nt - slack, yes > 0)


def call_fn(I, ctx, name, args):
    try:
        return "ret", I.call_mir(ctx, fn(I, name, CRATE), args)
    except Panic as e:
        return "panic", str(e)


class Kernel(VC):
    """replay through the native cw3 library (scenario cw3_kernel)"""
    property_id = "C04"
    crate = CRATE

    def replay(self, I, v):
        d = v.info["kernel"]
        conc = serial.Concretizer(I, v.ctx, v.model, None)
        ev = conc.ev
        thr = {"AbsoluteCount": lambda: {"absolute_count": {"weight": ev(d["w"])}},
               "AbsolutePercentage": lambda: {"absolute_percentage": {"percentage": serial.dec_str(ev(d["p"]))}},
               "ThresholdQuorum": lambda: {"threshold_quorum": {"threshold": serial.dec_str(ev(d["t"])), "quorum": serial.dec_str(ev(d["q"]))}}}[d["kind"]]()
        params = {"threshold": thr, "total_weight": ev(d["total"]),
                  "votes": {"yes": ev(d["yes"]), "no": ev(d["no"]), "abstain": ev(d["ab"]), "veto": ev(d["veto"])},
                  "expires": {"at_height": ev(d["eh"])}, "status": "open", "block": {"height": ev(d["h"]), "time": "0"}}
        req = {"mode": "scenario", "name": "cw3_kernel", "params": params}
        resp = replay.run(req)
        pred = {k: (conc.ev(x) if not isinstance(x, (bool, str)) else x) for k, x in d["predicted"].items()}
        diffs = []
        if resp.get("result") == "panic":
            if not pred.get("panic"): diffs.append("native panicked, predicted a return value")
        else:
            if pred.get("panic"): diffs.append("predicted panic, native returned")
            for k in ("is_passed", "is_rejected", "current_status"):
                if k in pred and pred[k] != resp.get(k): diffs.append(f"{k}: native {resp.get(k)} vs predicted {pred[k]}")
        out = {"request": req, "native": resp, "predicted": pred, "reproduced": not diffs, "diffs": diffs}
        if diffs: out["why"] = "native kernel disagrees with the interpreter"
        return out


class Decide(Kernel):
    def __init__(self, kind, expired, nine):
        self.kind, self.expired, self.nine = kind, expired, nine
        self.name = f"C04.decide.{kind}.{'expired' if expired else 'open'}.{'9dec' if nine else '18dec'}"

    def run(self, I, ctx, ob):
        prop, blk, d = mk_proposal(I, ctx, self.kind, self.expired, self.nine)
        pc, bc = Cell("prop", prop), Cell("blk", blk)
        o1, passed = call_fn(I, ctx, "Proposal::is_passed", [Ref(pc), Ref(bc)])
        o2, rejected = call_fn(I, ctx, "Proposal::is_rejected", [Ref(pc), Ref(bc)])
        ob.outcome = f"{o1}/{o2}"
        d["h"], d["eh"] = blk.get("height"), prop.get("expires").fields[0]
        d["predicted"] = {"panic": o1 == "panic" or o2 == "panic"}
        if o1 == "ret": d["predicted"]["is_passed"] = passed
        if o2 == "ret": d["predicted"]["is_rejected"] = rejected
        ob.info["kernel"] = d
        ob.require("C04.no_panic_for_valid_thresholds", o1 == "ret" and o2 == "ret")
        if o1 != "ret" or o2 != "ret": return
        total, yes, no, ab, veto = d["total"], d["yes"], d["no"], d["ab"], d["veto"]
        sig_zero_yes = yes == 0
        ob.require("C04.never_passed_without_yes_weight", zimplies(passed, yes > 0),
                   known={"passed-with-zero-yes": sig_zero_yes})
        ob.require("C04.never_both_passed_and_rejected", znot(zand(passed, rejected)))
        if self.expired:
            spec = spec_pass_at_expiry(ctx, self.kind, total, yes, no, ab, veto, d, "")
            if self.nine or self.kind == "AbsoluteCount":
                ob.require("C04.expired_decision_equals_documented_formula", zeq(passed, spec), known={"passed-with-zero-yes": sig_zero_yes})
            else:
                # up to 18 decimals: never stricter than exact ...
                ob.require("C04.expired_never_stricter_than_exact", zimplies(spec, passed))
                # ... and within one vote: each rounded-up requirement is missed by at most one vote
                spec1 = spec_pass_at_expiry(ctx, self.kind, total, yes, no, ab, veto, d, ".slack", slack=1)
                ob.require("C04.expired_within_one_vote_of_exact", zimplies(zand(passed, yes > 0), spec1))
            ob.witness("passes", zand(passed, yes > 0))
            ob.witness("fails", znot(passed))
        else:
            # every completion: distribute (part of) the outstanding weight
            r = total - (yes + no + ab + veto)
            y, n, a, v = [ctx.fresh_int(f"later.{k}", 0, U64) for k in ("yes", "no", "abstain", "veto")]
            ctx.assume(y + n + a + v <= r)
            if self.nine or self.kind == "AbsoluteCount":
                final = spec_pass_at_expiry(ctx, self.kind, total, yes + y, no + n, ab + a, veto + v, d, ".final")
                ob.require("C04.early_pass_only_if_every_completion_passes", zimplies(passed, final), known={"passed-with-zero-yes": zand(yes == 0, y == 0)})
                ob.require("C04.early_reject_only_if_no_completion_passes", zimplies(rejected, znot(final)))
            ob.witness("early_pass", zand(passed, yes > 0, r > 0))
            ob.witness("early_reject", zand(rejected, r > 0))
            ob.witness("undecided", zand(znot(passed), znot(rejected)))
        ob.twin("twin.never_passes", znot(passed))


class VotesNeeded(Kernel):
    """the private rounding helper, straight from its MIR: exact for <= 9 decimals, within one vote and never above exact for 18"""
    name = "C04.votes_needed.rounding"

    def run(self, I, ctx, ob):
        w = ctx.fresh_int("weight", 0, U64)
        p = ctx.fresh_int("percentage", 0, E18 + 1)
        o, r = call_fn(I, ctx, "votes_needed", [w, p])
        ob.outcome = o
        # replay through is_passed(AbsolutePercentage, total = w, no abstain): passes with r yes votes, not with r-1
        ob.info["kernel"] = dict(kind="AbsolutePercentage", p=p, total=w, yes=r if o == "ret" else 0, no=0, ab=0, veto=0, h=0, eh=1,
                                 predicted={"panic": o == "panic", "is_passed": True})
        ob.require("C04.votes_needed_never_panics", o == "ret")
        if o != "ret": return
        n = ceil_rel(ctx, "exact", w, p)
        ob.require("C04.votes_needed_never_above_exact_ceiling", r <= n)
        ob.require("C04.votes_needed_within_one_vote", r >= n - 1)
        k = ctx.fresh_int("k9", 0, E9 + 1)
        ob.require("C04.votes_needed_exact_up_to_9_decimals", zimplies(p == k * E9, r == n))
        ob.witness("rounds_up", zand(r * E18 > w * p, r > 0))
        ob.twin("twin.votes_needed_is_floor", r * E18 <= w * p)

    def replay(self, I, v):
        if v.info["kernel"]["predicted"].get("panic"): return super().replay(I, v)
        # two native probes: r yes votes pass, r-1 do not  <=> native votes_needed == r
        a = super().replay(I, v)
        d2 = dict(v.info["kernel"]); d2["yes"] = d2["yes"] - 1; d2["predicted"] = {"is_passed": False}
        r_val = serial.Concretizer(I, v.ctx, v.model, None).ev(v.info["kernel"]["yes"])
        if r_val == 0: return a
        v.info["kernel"] = d2
        b = super().replay(I, v)
        a["second_probe"] = {k: b.get(k) for k in ("request", "native", "predicted", "diffs")}
        a["reproduced"] = bool(a["reproduced"] and b["reproduced"])
        a["diffs"] = a.get("diffs", []) + b.get("diffs", [])
        if not a["reproduced"]: a["why"] = b.get("why") or a.get("why")
        return a


class CurrentStatus(Kernel):
    """current_status is exactly the composition documented: Passed iff open∧is_passed; Rejected iff open∧¬passed∧(rejected∨expired)"""

    def __init__(self, kind):
        self.kind = kind
        self.name = f"C04.current_status.{kind}"

    def run(self, I, ctx, ob):
        for_expired = ctx.choose([True, True], "expired?") == 0
        prop, blk, d = mk_proposal(I, ctx, self.kind, for_expired, True)
        pc, bc = Cell("prop", prop), Cell("blk", blk)
        o1, passed = call_fn(I, ctx, "Proposal::is_passed", [Ref(pc), Ref(bc)])
        o2, rejected = call_fn(I, ctx, "Proposal::is_rejected", [Ref(pc), Ref(bc)])
        o3, st = call_fn(I, ctx, "Proposal::current_status", [Ref(pc), Ref(bc)])
        ob.outcome = f"{o1}/{o2}/{o3}"
        d["h"], d["eh"] = blk.get("height"), prop.get("expires").fields[0]
        d["predicted"] = {"panic": "panic" in (o1, o2, o3)}
        if o1 == "ret": d["predicted"]["is_passed"] = passed
        if o2 == "ret": d["predicted"]["is_rejected"] = rejected
        ob.info["kernel"] = d
        if "panic" in (o1, o2, o3):
            ob.require("C04.no_panic_for_valid_thresholds", False); return
        st = I.force(ctx, st)
        d["predicted"]["current_status"] = st.variant.lower()
        want = "Passed" if False else None
        ob.require("C04.status_passed_iff_is_passed", zeq(st.variant == "Passed", passed))
        ob.require("C04.status_rejected_iff_not_passed_and_rejected_or_expired", zeq(st.variant == "Rejected", zand(znot(passed), zor(rejected, for_expired))))
        ob.require("C04.status_open_otherwise", zeq(st.variant == "Open", zand(znot(passed), znot(rejected), not for_expired)))
        ob.witness("status_" + st.variant)
        ob.twin("twin.status_always_open", st.variant == "Open")


class Monotone(Kernel):
    """decisions persist: once is_passed (is_rejected) answers true it keeps answering true after any further votes and after
    expiry (these are the facts the contract-level VCs C03/C05/C06/C15 assume about the kernel)"""

    def __init__(self, kind, nine):
        self.kind, self.nine = kind, nine
        self.name = f"C04.monotone.{kind}.{'9dec' if nine else '18dec'}"

    def run(self, I, ctx, ob):
        prop, blk, d = mk_proposal(I, ctx, self.kind, False, self.nine)
        total = d["total"]
        y, n, a, v = [ctx.fresh_int(f"more.{k}", 0, U64) for k in ("yes", "no", "abstain", "veto")]
        ctx.assume(d["yes"] + d["no"] + d["ab"] + d["veto"] + y + n + a + v <= total)
        votes2 = Struct("Votes", [d["yes"] + y, d["no"] + n, d["ab"] + a, d["veto"] + v], ["yes", "no", "abstain", "veto"])
        prop2 = prop.with_("votes", votes2)
        later_expired = ctx.choose([True, True], "later block expired?") == 0
        h2 = ctx.fresh_int("later.height", 0, U64)
        ctx.assume(h2 >= blk.get("height"))
        ctx.assume(h2 >= prop.get("expires").fields[0] if later_expired else h2 < prop.get("expires").fields[0])
        blk2 = Struct("BlockInfo", [h2, blk.get("time"), "chain"], blk.names)
        res = []
        for p_, b_ in ((prop, blk), (prop2, blk2)):
            pc, bc = Cell("prop", p_), Cell("blk", b_)
            o1, ps = call_fn(I, ctx, "Proposal::is_passed", [Ref(pc), Ref(bc)])
            o2, rj = call_fn(I, ctx, "Proposal::is_rejected", [Ref(pc), Ref(bc)])
            res.append((o1, ps, o2, rj))
        ob.outcome = "/".join(r[0] + r[2] for r in res)
        d["h"], d["eh"] = blk.get("height"), prop.get("expires").fields[0]
        d["predicted"] = {"panic": any(r[0] == "panic" or r[2] == "panic" for r in res)}
        if res[0][0] == "ret": d["predicted"]["is_passed"] = res[0][1]
        ob.info["kernel"] = d
        ob.require("C04.no_panic_for_valid_thresholds", not d["predicted"]["panic"])
        if d["predicted"]["panic"]: return
        ob.require("C04.passed_persists_under_more_votes_and_expiry", zimplies(res[0][1], res[1][1]))
        ob.require("C04.rejected_persists_under_more_votes_and_expiry", zimplies(res[0][3], res[1][3]))
        ob.witness("persisting_pass", zand(res[0][1], y + n + a + v > 0))
        ob.witness("persisting_reject", zand(res[0][3], y + n + a + v > 0))
        ob.twin("twin.later_tally_never_passes", znot(res[1][1]))


class MonotoneYes(Kernel):
    """further Yes weight never un-passes a proposal, whether or not it has expired (the second monotonicity fact the
    contract-level VCs assume: it lets them decide paths on which a contract admits ballots it should have refused)"""

    def __init__(self, kind, expired, nine):
        self.kind, self.expired, self.nine = kind, expired, nine
        self.name = f"C04.monotone_yes.{kind}.{'expired' if expired else 'open'}.{'9dec' if nine else '18dec'}"

    def run(self, I, ctx, ob):
        prop, blk, d = mk_proposal(I, ctx, self.kind, self.expired, self.nine)
        y = ctx.fresh_int("more.yes", 0, U64)
        ctx.assume(d["yes"] + d["no"] + d["ab"] + d["veto"] + y <= d["total"])
        prop2 = prop.with_("votes", Struct("Votes", [d["yes"] + y, d["no"], d["ab"], d["veto"]], ["yes", "no", "abstain", "veto"]))
        res = []
        for p_ in (prop, prop2):
            res.append(call_fn(I, ctx, "Proposal::is_passed", [Ref(Cell("prop", p_)), Ref(Cell("blk", blk))]))
        ob.outcome = "/".join(r[0] for r in res)
        d["h"], d["eh"] = blk.get("height"), prop.get("expires").fields[0]
        d["predicted"] = {"panic": any(r[0] == "panic" for r in res)}
        if res[0][0] == "ret": d["predicted"]["is_passed"] = res[0][1]
        ob.info["kernel"] = d
        ob.require("C04.no_panic_for_valid_thresholds", not d["predicted"]["panic"])
        if d["predicted"]["panic"]: return
        ob.require("C04.passed_persists_under_more_yes_weight", zimplies(res[0][1], res[1][1]))
        ob.witness("persisting_pass_more_yes", zand(res[0][1], y > 0))
        ob.twin("twin.more_yes_never_passes", znot(res[1][1]))


class KaniCross(VC):
    """second engine: Kani/CBMC on the compiled kernel (path dependency on /repo, so it always sees the current tree).
    AbsoluteCount over all u64 tallies against the documented formula, and `never passed without Yes` for every threshold kind.
    A Kani failure while the MIR interpreter proves the same facts is an engine disagreement (exit 2), never a pass."""
    property_id = "C04"
    crate = CRATE
    name = "C04.kani.cross_check"

    def run(self, I, ctx, ob):
        import os, subprocess, time, shutil
        from mirsym import build
        kdir = os.path.join(build.VERIF, "kani")
        shutil.copy(os.path.join(build.REPO, "Cargo.lock"), os.path.join(kdir, "Cargo.lock"))
        env = dict(os.environ, CARGO_NET_OFFLINE="true")
        env.pop("RUSTUP_TOOLCHAIN", None)
        t0 = time.time()
        try:
            r = subprocess.run(["cargo", "kani", "--target-dir", os.path.join(build.WORK, "target-kani")], cwd=kdir, env=env,
                               stdout=subprocess.PIPE, stderr=subprocess.STDOUT, timeout=1500)
            out = r.stdout.decode(errors="replace")
        except subprocess.TimeoutExpired:
            out = "TIMEOUT"
        ok = "2 successfully verified harnesses, 0 failures" in out
        ob.outcome = "kani:" + ("success" if ok else "not-success")
        ctx.notes.append({"kani_seconds": round(time.time() - t0, 1), "tail": out[-600:]})
        ob.require("C04.kani_agrees_with_the_mir_interpreter", ok)
        ob.witness("kani_ran", ok or "VERIFICATION" in out)
        ob.twin("twin.kani_vacuous", False)


KINDS = ["AbsoluteCount", "AbsolutePercentage", "ThresholdQuorum"]


def vcs(tier):
    out = [VotesNeeded()]
    for k in KINDS:
        for exp in (True, False):
            out.append(Decide(k, exp, True))
            if k != "AbsoluteCount" and exp: out.append(Decide(k, exp, False))
        out.append(CurrentStatus(k))
        out.append(Monotone(k, True))
        out += [MonotoneYes(k, e, True) for e in (True, False)]
        if k != "AbsoluteCount" and tier == "thorough": out += [MonotoneYes(k, e, False) for e in (True, False)]
        if k != "AbsoluteCount" and tier == "thorough": out.append(Monotone(k, False))
    if tier == "thorough": out.append(KaniCross())
    return out


BOUNDS = {"weights": "every total/yes/no/abstain/veto in u64 with sum <= total", "AbsoluteCount weight": "1..total",
          "percentages": "threshold in [0.5,1], quorum in (0,1]; multiples of 1e-9 for the exact clauses, all 18 decimals for the within-one-vote clauses",
          "expiry": "AtHeight, expired and not expired (the kernel only asks is_expired)"}
OUTSIDE = ("early-decision soundness is shown for thresholds with <= 9 decimals (the documented exact regime); for 18-decimal thresholds the "
           "expired decision is shown to be within one vote and never stricter; Expiration kinds other than AtHeight reach the kernel only through is_expired")
ASSUMPTIONS = ["thresholds are valid (Threshold::validate passed at instantiate): AbsoluteCount 1..total, percentages in [0.5,1], quorum in (0,1]",
               "tally does not exceed total weight (C06's invariant)", "Uint128::mul_floor(Decimal) = floor(a*atomics/1e18), panics above u128"]

SECOND_SOLVER = True      # thorough tier: every non-trivial obligation is re-discharged with cvc5
