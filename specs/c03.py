"""C03 — cw3: a proposal's status always equals the outcome its ballots imply (both multisigs)."""
import z3
from mirsym.values import *
from mirsym import symval
from mirsym.explore import run_entry, snapshot_storage
from .common import *
from .cw3ms import *


def new_proposal(f):
    news = f.post["proposals"].slots[2:]
    return news[0] if len(news) == 1 else None


class Step(VC):
    """every call keeps: recorded tally = sum of recorded ballots, and a stored Passed / Rejected status is one the kernel
    (tied to the exact threshold formula by C04) derives from that tally; Execute / Close are admitted exactly on the derived status"""
    property_id = "C03"

    def __init__(self, crate, variant, after=None):
        self.crate, self.variant, self.after = crate, variant, after
        self.extra_crates = ("cw3",)
        self.name = f"C03.{'fixed' if crate == FIXED else 'flex'}." + (f"chain.{after}.then." if after else "") + variant

    def run(self, I, ctx, ob):
        f = ms_step(I, ctx, ob, self.crate, self.variant, after=self.after)
        v = self.variant
        p0p, p0 = slot_map(f.pre["proposals"])[(f.pid,)]
        if f.outcome != "Ok":
            if v == "Execute" and f.on_focus and f.outcome == "Err" and self.crate == FIXED:
                cur = I.force(ctx, kernel(I, ctx, "current_status", p0, f.blk))
                ob.require("C03.execute_refused_only_when_not_passed", zimplies(p0p, cur.variant != "Passed"))
            return
        p1p, p1 = focus_post(ctx, f)
        if v == "Propose":
            np_ = new_proposal(f)
            if np_ is None: ob.require("C03.propose_creates_one_proposal", False); return
            key, pres, prop = np_
            nb = [s for s in f.post["votes"].slots[len(f.V):]]
            ob.require("C03.new_proposal_has_exactly_the_proposer_ballot", len(nb) == 1 and nb[0][1] is True and ctx.atom_of(nb[0][0][1]) is ctx.atom_of(f.sender))
            if len(nb) == 1:
                b = nb[0][2]
                vt = prop.get("votes")
                ob.require("C03.new_tally_equals_new_ballot", zand(variant_yes(ctx, b), vt.get("yes") == b.get("weight"), vt.get("no") == 0, vt.get("abstain") == 0, vt.get("veto") == 0))
            ob.require("C03.new_status_is_justified_by_its_tally", status_inv(I, ctx, prop, f.blk))
            ob.require("C03.new_status_is_what_the_kernel_derives", _is_current(I, ctx, prop, f.blk))
            ob.witness("proposed_passing", status_is(ctx, prop, "Passed"))
            ob.witness("proposed_open", status_is(ctx, prop, "Open"))
        elif f.on_focus:
            ob.require("C03.tally_equals_sum_of_ballots", zimplies(p1p, votes_match_ballots(ctx, f.post, p1)))
            ob.require("C03.stored_status_is_justified_by_the_ballots", zimplies(p1p, zor(status_is(ctx, p1, "Executed"), status_inv(I, ctx, p1, f.blk))))
            cur0 = I.force(ctx, kernel(I, ctx, "current_status", p0, f.blk))
            if v == "Execute":
                ob.require("C03.execute_admitted_only_on_derived_passed", cur0.variant == "Passed")
                ob.require("C03.never_executable_without_yes_weight", p0.get("votes").get("yes") > 0)
            if v == "Close":
                ob.require("C03.close_admitted_only_on_derived_not_passed", cur0.variant not in ("Passed", "Executed"))
            if v == "Vote":
                ob.require("C03.vote_stores_the_derived_status", _is_current(I, ctx, p1, f.blk))
                ob.witness("vote_passes_it", zand(status_is(ctx, p0, "Open"), status_is(ctx, p1, "Passed")))
                ob.witness("vote_rejects_it", zand(status_is(ctx, p0, "Open"), status_is(ctx, p1, "Rejected")))
        ob.witness("ok")
        ob.twin("twin.tally_never_changes", spec_eq(ctx, p0.get("votes"), p1.get("votes")) if (v == "Vote" and f.on_focus and p1 is not None) else False)


class LargeVote(VC):
    """a proposal of the fixed multisig that already carries more ballots than a default ListVotes page (11 of 12 voters have
    voted Yes with their own weights) receives the last voter's ballot: the recorded tally must still be the sum of all recorded
    ballots and the stored status the one the kernel derives from it"""
    property_id = "C03"
    crate = FIXED
    extra_crates = ("cw3",)
    N = 12
    name = "C03.fixed.Vote[12 voters, 11 ballots]"

    def run(self, I, ctx, ob):
        from mirsym import replay as _rp
        from mirsym.ctx import MapStore
        install_kernel_abstraction(I, ctx)
        n = self.N
        V = sorted(_rp.addr_pool(n, prefix="voter"))
        cfg = sym_item(I, ctx, "config", "state::Config", FIXED, present=True).value
        cnt = sym_item(I, ctx, "proposal_count", "u64", FIXED, present=True)
        cw2_item(I, ctx, FIXED)
        pid = ctx.fresh_int("focus.id", 1, U64)
        ctx.assume(pid <= cnt.value)
        ctx.bounds["vec"] = 1
        focus = symval.fresh(I, ctx, "cw3::Proposal", "focus", None, FIXED)
        props = MapStore("proposals", [[(pid,), True, focus]], ["u64"], "cw3::Proposal")
        ctx.storage["proposals"] = props
        W = [ctx.fresh_int(f"weight[{i}]", 1, U64) for i in range(n)]
        ctx.storage["voters"] = MapStore("voters", [[(a,), True, w] for a, w in zip(V, W)], None, "u64")
        votes = MapStore("votes", [], ["u64", None], "cw3::Ballot")
        for a, w in zip(V[:-1], W[:-1]):
            votes.slots.append([(pid, a), True, Struct("Ballot", [w, EnumV("Vote", "Yes")], ["weight", "vote"])])
        ctx.storage["votes"] = votes
        total = zsum(W)
        ctx.assume(total < U64)
        ctx.assume(zand(cfg.get("total_weight") == total, focus.get("total_weight") == total))
        vv = focus.get("votes")
        ctx.assume(zand(vv.get("yes") == zsum(W[:-1]), vv.get("no") == 0, vv.get("abstain") == 0, vv.get("veto") == 0))
        valid_threshold(I, ctx, focus.get("threshold"), focus.get("total_weight"))
        env = mk_env(I, ctx)
        blk = env.get("block")
        ctx.assume(zand(znot(status_is(ctx, focus, "Pending")), status_inv(I, ctx, focus, blk), focus.get("start_height") <= blk.get("height")))
        info = mk_info(I, ctx, sender=V[-1])
        vote = symval.fresh(I, ctx, "cw3::Vote", "vote", None, FIXED)
        m = EnumV("ExecuteMsg", "Vote", [pid, vote], ["proposal_id", "vote"])
        outcome, r, pre = call_entry(I, ctx, ob, FIXED, "execute", "execute", [make_deps(), env, info, m], env, info, m, "msg::ExecuteMsg", FIXED)
        if outcome != "Ok": return
        post = ctx.storage
        p1p, p1 = slot_map(post["proposals"])[(pid,)]
        ob.require("C03.tally_equals_sum_of_ballots", zimplies(p1p, votes_match_ballots(ctx, post, p1)))
        ob.require("C03.stored_status_is_justified_by_the_ballots", zimplies(p1p, zor(status_is(ctx, p1, "Executed"), status_inv(I, ctx, p1, blk))))
        ob.require("C03.vote_stores_the_derived_status", _is_current(I, ctx, p1, blk))
        ob.require("C03.twelfth_ballot_recorded", len(post["votes"].slots) == n and post["votes"].slots[-1][1] is True)
        ob.witness("large_vote_ok")
        ob.twin("twin.large_tally_never_changes", spec_eq(ctx, focus.get("votes"), p1.get("votes")))


def variant_yes(ctx, ballot):
    from .cw20 import variant_is
    return variant_is(ctx, None, ballot.get("vote"), "Yes")


def _is_current(I, ctx, prop, blk):
    """stored status == current_status(stored proposal) i.e. storing was the kernel's decision at this block (idempotent)"""
    cur = I.force(ctx, kernel(I, ctx, "current_status", prop, blk))
    return status_is(ctx, prop, cur.variant)


class Query(VC):
    """the status a query returns is the kernel's current_status of the stored proposal at the query's block"""
    property_id = "C03"

    def __init__(self, crate):
        self.crate = crate
        self.extra_crates = ("cw3",)
        self.name = f"C03.{'fixed' if crate == FIXED else 'flex'}.query_proposal"

    def run(self, I, ctx, ob):
        install_kernel_abstraction(I, ctx)
        V, cfg, pid, focus = ms_state(I, ctx, self.crate)
        env = mk_env(I, ctx)
        blk = env.get("block")
        vv = focus.get("votes")
        ctx.assume(vv.get("yes") + vv.get("no") + vv.get("abstain") + vv.get("veto") <= focus.get("total_weight"))
        valid_threshold(I, ctx, focus.get("threshold"), focus.get("total_weight"))
        st = snapshot_storage(ctx.storage)
        ctx.assume(znot(status_is(ctx, focus, "Pending")))
        o, r = run_entry(I, ctx, fn(I, "query_proposal", self.crate), [make_deps(False), env, pid], st)
        ob.outcome = o
        ob.info["replay"] = dict(contract=self.crate, entry="query", crate=self.crate, env=env, info=None, msg=EnumV("QueryMsg", "Proposal", [pid], ["proposal_id"]),
                                 msg_ty="msg::QueryMsg", pre_storage=st, post_storage=st, outcome=o, result=r if o == "Ok" else None, result_ty="cw3::ProposalResponse", querier=None)
        if o != "Ok": return
        cur = I.force(ctx, kernel(I, ctx, "current_status", focus, blk))
        got = I.force(ctx, r.get("status"))
        ob.require("C03.query_reports_the_derived_status", got.variant == cur.variant)
        ob.require("C03.query_reports_total_weight_of_the_proposal", _thr_total(ctx, r.get("threshold")) == focus.get("total_weight"))
        ob.witness("reports_" + got.variant)
        ob.twin("twin.query_always_open", got.variant == "Open")


def _thr_total(ctx, t):
    t = lazy_forced(ctx, t)
    return t.get("total_weight")


def kernel_fact_vcs(tier):
    """the facts about the real kernel (from its MIR) that the abstraction above assumes and that tie a derived status to the exact
    threshold formula; they are C04's VCs re-run under this property, so a change to the kernel that breaks the link is reported here too"""
    from . import c04
    out = []
    for vc in c04.vcs(tier):
        if ".decide." in vc.name or ".monotone." in vc.name or ".current_status." in vc.name:
            vc.property_id = "C03"
            vc.name = vc.name.replace("C04.", "C03.kernel.")
            out.append(vc)
    return out


def vcs(tier):
    out = []
    for c in (FIXED, FLEX):
        out += [Step(c, v) for v in ("Propose", "Vote", "Execute", "Close")] + [Query(c)]
    out.append(LargeVote())
    # two-call chains on one proposal (thorough): the second call is judged on the state the first really left behind
    if tier == "thorough":
        CHV = ("Vote", "Execute", "Close")
        for c in (FIXED, FLEX): out += [Step(c, b, after=a) for a in CHV for b in CHV]
    return out + kernel_fact_vcs(tier)


BOUNDS = {"large proposal": "fixed multisig, 12 concrete voters with symbolic weights, 11 recorded Yes ballots (more than a default ListVotes page), the twelfth voter casts any vote",
          "voters / group members with state": NV, "proposals with state": "1 focus (symbolic id and content) + 1 bystander", "messages per proposal": "<= 1",
          "weights": "full u64", "thresholds": "all three kinds, valid", "block / expiry": "symbolic"}
OUTSIDE = ("the arithmetic meaning of is_passed / is_rejected is C04's subject: here they are uninterpreted functions of (tally, total, threshold, expired) "
           "constrained by the facts C04 proves from their MIR (never both; passed => yes > 0; persistence under further votes and expiry)")
ASSUMPTIONS = ["C06's invariant in the pre-state (ballot weights and totals come from one membership snapshot, so tally <= total)",
               "kernel abstraction justified by C04 (C04.never_both_passed_and_rejected, C04.never_passed_without_yes_weight, C04.*_persists_under_more_votes_and_expiry)"]
