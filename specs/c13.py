"""C13 — cw20: only the current minter mints, and never beyond the cap."""
import z3
from mirsym.values import *
from mirsym import symval
from .common import *
from .cw20 import *
from . import c01


def mint_of(ctx, storage):
    """(has_minter: bool, minter, cap_opt) of a state whose mint option has been inspected / forced"""
    m = lazy_forced(ctx, storage["token_info"].value.get("mint"))
    if m is None: return None
    if m.variant == "None": return (False, None, None)
    md = m.fields[0]
    cap = lazy_forced(ctx, md.get("cap"))
    return (True, md.get("minter"), cap)


def cap_inv(ctx, storage):
    mi = mint_of(ctx, storage)
    if mi is None or not mi[0] or mi[2] is None or mi[2].variant == "None": return True
    return supply(storage) <= mi[2].fields[0]


class Step(VC):
    property_id = "C13"
    crate = CRATE

    def __init__(self, variant):
        self.variant = variant
        self.name = f"C13.step.{variant}"

    def run(self, I, ctx, ob):
        U = cw20_state(I, ctx)
        st = ctx.storage
        # force the minter configuration so that the invariant can speak about it
        m = I.force(ctx, st["token_info"].value.get("mint"))
        if m.variant == "Some": I.force(ctx, m.fields[0].get("cap"))
        ctx.assume(supply(st) == map_sum(st["balance"]))
        ctx.assume(cap_inv(ctx, st))
        pre_mint = mint_of(ctx, st)
        pre_supply = supply(st)
        env, info = mk_env(I, ctx), mk_info(I, ctx)
        msg = symval.fresh(I, ctx, "Cw20ExecuteMsg", "msg", None, CRATE)
        msg.variants = [self.variant]
        mm = I.force(ctx, msg)
        ctx.stubs["verify_logo"] = stub_result("verify_logo")
        outcome, r, pre = call_entry(I, ctx, ob, CRATE, "execute", "execute", [make_deps(), env, info, mm], env, info, mm, "Cw20ExecuteMsg", CRATE)
        post = ctx.storage
        post_mint = mint_of(ctx, post)
        if outcome != "Ok": return
        sender = info.get("sender")
        rose = supply(post) > pre_supply
        is_minter = pre_mint[0] and ctx.atom_of(pre_mint[1]) is ctx.atom_of(sender)
        ob.require("C13.supply_rises_only_by_minter_mint", zimplies(rose, self.variant == "Mint" and is_minter))
        if self.variant == "Mint":
            ob.require("C13.mint_only_by_current_minter", is_minter)
        ob.require("C13.supply_within_cap", cap_inv(ctx, post))
        # minter record changes only through UpdateMinter by the minter; cap survives a hand-over
        same_mint = (post_mint is not None and pre_mint[0] == post_mint[0] and
                     (not pre_mint[0] or (ctx.atom_of(pre_mint[1]) is ctx.atom_of(post_mint[1]) and spec_eq(ctx, pre_mint[2], post_mint[2]) is not False
                                          and _cap_eq(pre_mint[2], post_mint[2]))))
        if self.variant == "UpdateMinter":
            ob.require("C13.update_minter_only_by_minter", is_minter)
            if post_mint[0]:
                ob.require("C13.cap_survives_handover", _cap_eq(pre_mint[2], post_mint[2]))
                nm = lazy_forced(ctx, mm.get("new_minter"))
                ob.require("C13.new_minter_is_the_requested_one", nm is not None and nm.variant == "Some" and ctx.atom_of(nm.fields[0]) is ctx.atom_of(post_mint[1]))
            ob.witness("handed_over", post_mint[0])
            ob.witness("renounced", not post_mint[0])
        else:
            ob.require("C13.minter_record_changes_only_in_update_minter", same_mint)
        if not pre_mint[0]:
            ob.require("C13.renounced_is_forever", not post_mint[0] and self.variant not in ("Mint", "UpdateMinter"))
        if self.variant == "Mint": ob.witness("minted", mm.get("amount") > 0)
        ob.witness("ok")
        ob.twin("twin.supply_never_rises", znot(rose) if self.variant == "Mint" else False)


def _cap_eq(a, b):
    if a is None or b is None: return False
    if a.variant != b.variant: return False
    if a.variant == "None": return True
    return zeq(a.fields[0], b.fields[0])


class Base(VC):
    property_id = "C13"
    crate = CRATE
    name = "C13.base.instantiate"

    def run(self, I, ctx, ob):
        c01.empty_cw20_state(ctx)
        env, info = mk_env(I, ctx), mk_info(I, ctx)
        msg = symval.fresh(I, ctx, "msg::InstantiateMsg", "msg", None, CRATE)
        msg = msg.with_("name", "Token").with_("symbol", "TOK")
        ctx.stubs["verify_logo"] = stub_result("verify_logo")
        outcome, r, pre = call_entry(I, ctx, ob, CRATE, "instantiate", "instantiate", [make_deps(), env, info, msg], env, info, msg,
                                     "msg::InstantiateMsg", CRATE)
        if outcome != "Ok": return
        st = ctx.storage
        mi = lazy_forced(ctx, msg.get("mint"))
        sm = mint_of(ctx, st)
        ob.require("C13.minter_as_requested", mi is not None and sm is not None and (mi.variant == "Some") == sm[0])
        if sm is not None and sm[0]:
            req = mi.fields[0]
            ob.require("C13.minter_and_cap_as_requested", ctx.atom_of(req.get("minter")) is ctx.atom_of(sm[1]) and _cap_eq(lazy_forced(ctx, req.get("cap")), sm[2]))
            ob.witness("with_cap", sm[2] is not None and sm[2].variant == "Some")
        ob.require("C13.initial_supply_within_cap", cap_inv(ctx, st))
        ob.witness("ok")
        ob.twin("twin.no_minter_ever", sm is not None and not sm[0])


class Migrate(VC):
    """migrate never touches the minter record or the supply"""
    property_id = "C13"
    crate = CRATE
    name = "C13.step.migrate"

    def run(self, I, ctx, ob):
        U = cw20_state(I, ctx, n=1, mirror=False, ordered=True)
        st = ctx.storage
        st["contract_info"].present = True
        m = I.force(ctx, st["token_info"].value.get("mint"))
        if m.variant == "Some": I.force(ctx, m.fields[0].get("cap"))
        pre_mint, pre_supply = mint_of(ctx, st), supply(st)
        env = mk_env(I, ctx)
        msg = Struct("MigrateMsg", [], [])
        outcome, r, pre = call_entry(I, ctx, ob, CRATE, "migrate", "migrate", [make_deps(), env, msg], env, None, msg, "msg::MigrateMsg", CRATE)
        if outcome != "Ok": return
        post_mint = mint_of(ctx, ctx.storage)
        ob.require("C13.migrate_keeps_minter_and_supply", zand(zeq(supply(ctx.storage), pre_supply), post_mint is not None and post_mint[0] == pre_mint[0]
                   and (not pre_mint[0] or (ctx.atom_of(pre_mint[1]) is ctx.atom_of(post_mint[1]) and _cap_eq(pre_mint[2], post_mint[2])))))
        ob.witness("migrated")
        ob.twin("twin.supply_is_7_after_migrate", supply(ctx.storage) == 7)


def vcs(tier):
    return [Step(v) for v in VARIANTS] + [Base(), Migrate()]


BOUNDS = {"addresses_with_state": N, "amounts": "full u128", "initial_balances": 2}
OUTSIDE = "as C01; histories closed by induction on the invariant `minter with cap c => supply <= c` and absorbing `mint = None`"
ASSUMPTIONS = ["verify_logo stubbed", "semver versions of stored contract_info are arbitrary (symbolic triples)"]

SECOND_SOLVER = True      # thorough tier: every non-trivial obligation is re-discharged with cvc5
