"""C17 — cw1: the admin set changes only by admins while mutable; freezing is permanent."""
import z3
from mirsym.values import *
from mirsym import symval
from .common import *
from .cw1 import *


def admin_list_same(ctx, a, b):
    return spec_eq(ctx, a, b)


class Step(VC):
    property_id = "C17"

    def __init__(self, crate, variant):
        self.crate, self.variant = crate, variant
        self.name = f"C17.{'whitelist' if crate == WL else 'subkeys'}.{variant}"

    def run(self, I, ctx, ob):
        crate = self.crate
        if crate == WL:
            admin_state(I, ctx, WL)
            U = []
        else:
            U, al, alw, perm = subkeys_state(I, ctx, nsub=2)
        env, info = mk_env(I, ctx), mk_info(I, ctx)
        sender = info.get("sender")
        ctx.bounds["vec"] = 2
        msg = symval.fresh(I, ctx, "msg::ExecuteMsg<Empty>", "msg", None, crate)
        msg.variants = [self.variant]
        m = I.force(ctx, msg)
        if self.variant == "Execute":
            mv = m.get("msgs"); mv.bound = 1
        pre_mut = ctx.storage["admin_list"].value.get("mutable")
        outcome, r, pre = call_entry(I, ctx, ob, crate, "execute", "execute", [make_deps(), env, info, m], env, info, m, "msg::ExecuteMsg<Empty>", crate)
        if outcome != "Ok": return
        post = ctx.storage
        a0, a1 = pre["admin_list"].value, post["admin_list"].value
        same_admins = spec_eq(ctx, a0.get("admins"), a1.get("admins"))
        same_flag = zeq(a0.get("mutable"), a1.get("mutable"))
        adm = is_admin(I, ctx, pre, sender)
        if self.variant in ("UpdateAdmins", "Freeze"):
            ob.require("C17.admin_list_changes_only_by_admin_while_mutable", zand(adm, pre_mut))
            if self.variant == "Freeze":
                ob.require("C17.freeze_keeps_admins_and_clears_flag", zand(same_admins, znot(a1.get("mutable"))))
            else:
                new = I.force(ctx, m.get("admins"))
                cur = lazy_forced(ctx, a1.get("admins"))
                ob.require("C17.update_installs_requested_admins", zand(same_flag, cur is not None and len(cur.items) == len(new.items)
                           and all(ctx.atom_of(x) is ctx.atom_of(y) for x, y in zip(cur.items, new.items))))
        else:
            ob.require("C17.other_calls_leave_admin_list_alone", zand(same_admins, same_flag))
        ob.require("C17.frozen_is_forever", zimplies(znot(pre_mut), zand(same_admins, znot(a1.get("mutable")))))
        if crate == SK:
            for ns in ("allowances", "permissions"):
                s0, s1 = slot_map(pre[ns]), slot_map(post[ns])
                for k in set(s0) | set(s1):
                    p0, v0 = s0.get(k, (False, None)); p1, v1 = s1.get(k, (False, None))
                    same = zand(zeq(p0, p1), zor(znot(p1), spec_eq(ctx, v0, v1) if v0 is not None and v1 is not None else False))
                    own_spend = ns == "allowances" and self.variant == "Execute" and ctx.atom_of(k[0]) is ctx.atom_of(sender)
                    # a subkey's own spending may lower an allowance it already has; it never creates one
                    ob.require(f"C17.{ns}_change_only_by_admin" + ("_or_own_spend" if ns == "allowances" else ""), zor(same, adm, zand(own_spend, p0)))
        ob.witness("ok")
        ob.twin("twin.admin_list_never_changes", zand(same_admins, same_flag) if self.variant in ("UpdateAdmins", "Freeze") else False)


class Base(VC):
    property_id = "C17"

    def __init__(self, crate):
        self.crate = crate
        self.name = f"C17.{'whitelist' if crate == WL else 'subkeys'}.instantiate"

    def run(self, I, ctx, ob):
        from mirsym.ctx import ItemStore, MapStore
        crate = self.crate
        ctx.storage["admin_list"] = ItemStore("admin_list", False, None, "cw1_whitelist::state::AdminList" if crate == SK else "state::AdminList")
        ctx.storage["contract_info"] = ItemStore("contract_info", False, None, "cw2::ContractVersion")
        if crate == SK:
            ctx.storage["allowances"] = MapStore("allowances", [], None, "state::Allowance")
            ctx.storage["permissions"] = MapStore("permissions", [], None, "state::Permissions")
        env, info = mk_env(I, ctx), mk_info(I, ctx)
        ctx.bounds["vec"] = 2
        msg = symval.fresh(I, ctx, "cw1_whitelist::msg::InstantiateMsg", "msg", None, crate)
        outcome, r, pre = call_entry(I, ctx, ob, crate, "instantiate", "instantiate" if crate == WL else "contract::instantiate", [make_deps(), env, info, msg], env, info, msg,
                                     "cw1_whitelist::msg::InstantiateMsg", crate)
        if outcome != "Ok": return
        a1 = ctx.storage["admin_list"].value
        new = I.force(ctx, msg.get("admins"))
        cur = lazy_forced(ctx, a1.get("admins"))
        ob.require("C17.instantiate_installs_requested_admins_and_flag", zand(zeq(a1.get("mutable"), msg.get("mutable")), cur is not None and len(cur.items) == len(new.items)
                   and all(ctx.atom_of(x) is ctx.atom_of(y) for x, y in zip(cur.items, new.items))))
        ob.witness("ok")
        ob.twin("twin.instantiate_always_mutable", a1.get("mutable"))


def vcs(tier):
    out = [Step(WL, v) for v in ("Execute", "Freeze", "UpdateAdmins")]
    out += [Step(SK, v) for v in ("Execute", "Freeze", "UpdateAdmins", "IncreaseAllowance", "DecreaseAllowance", "SetPermissions")]
    out += [Base(WL), Base(SK)]
    return out


BOUNDS = {"admins": "<= 2 stored, <= 2 requested", "subkeys with state": 2, "coins per allowance": "<= 2", "relayed messages": "<= 1"}
OUTSIDE = "longer admin lists (is_admin is a uniform scan); histories are closed by induction (frozen flag absorbing)"
ASSUMPTIONS = []
