"""C18 — cw20-ics20: the token allow-list is governance-only and only ever loosens."""
import z3
from mirsym.values import *
from mirsym import symval
from mirsym.ctx import ItemStore, MapStore
from .common import *
from .ics20 import *


def limit_of(ctx, info):
    """('None'|'Some', value) of an AllowInfo.gas_limit / Option<u64>"""
    g = lazy_forced(ctx, info)
    return g


def loosened(ctx, old, new):
    """new limit >= old limit in the order Some(x) <= Some(y) iff x <= y, everything <= None (unlimited)"""
    o, n = lazy_forced(ctx, old), lazy_forced(ctx, new)
    if o is None or n is None: return spec_eq(ctx, old, new)
    if n.variant == "None": return True
    if o.variant == "None": return False
    return n.fields[0] >= o.fields[0]


def gov_state_same(ctx, a, b):
    return zand(state_same(ctx, a, b, ("allow_list",)), spec_eq(ctx, a["admin"].value, b["admin"].value),
                spec_eq(ctx, a["ics20_config"].value, b["ics20_config"].value))


class Exec(VC):
    property_id = "C18"
    crate = CRATE

    def __init__(self, variant):
        self.variant = variant
        self.name = f"C18.execute.{variant}"

    def run(self, I, ctx, ob):
        s = ics20_state(I, ctx)
        env, info = mk_env(I, ctx), mk_info(I, ctx)
        sender = info.get("sender")
        msg = symval.fresh(I, ctx, "msg::ExecuteMsg", "msg", None, CRATE)
        msg.variants = [self.variant]
        m = I.force(ctx, msg)
        for k, p, v in ctx.storage["allow_list"].slots: I.force(ctx, v.get("gas_limit"))
        if self.variant == "Transfer":
            ctx.bounds["vec"] = 1
            info = info.with_("funds", I.force(ctx, symval.fresh(I, ctx, "Vec<Coin>", "funds", None, CRATE)))
        outcome, r, pre = call_entry(I, ctx, ob, CRATE, "execute", "execute", [make_deps(), env, info, m], env, info, m, "msg::ExecuteMsg", CRATE)
        if outcome != "Ok": return
        post = ctx.storage
        adm = lazy_forced(ctx, pre["admin"].value)
        by_gov = adm is not None and adm.variant == "Some" and ctx.atom_of(adm.fields[0]) is ctx.atom_of(sender)
        v = self.variant
        if v == "Allow":
            ob.require("C18.only_governance_allows_tokens", by_gov)
            a0 = {ctx.atom_of(k[0]): (p, x) for k, p, x in pre["allow_list"].slots}
            a1 = {ctx.atom_of(k[0]): (p, x) for k, p, x in post["allow_list"].slots}
            tgt = ctx.atom_of(m.fields[0].get("contract"))
            for t in set(a0) | set(a1):
                p0, x0 = a0.get(t, (False, None)); p1, x1 = a1.get(t, (False, None))
                ob.require("C18.allowed_tokens_are_never_removed", zimplies(p0, p1))
                if t is tgt:
                    ob.require("C18.allow_installs_the_requested_limit", zand(p1, spec_eq(ctx, x1.get("gas_limit"), m.fields[0].get("gas_limit"))))
                    if x0 is not None:
                        ob.require("C18.gas_limit_is_never_lowered", zimplies(p0, loosened(ctx, x0.get("gas_limit"), x1.get("gas_limit"))))
                else:
                    ob.require("C18.other_entries_untouched", zand(zeq(p0, p1), zimplies(p1, spec_eq(ctx, x0, x1) if x0 is not None and x1 is not None else False)))
            ob.require("C18.allow_leaves_governance_and_config_alone", zand(spec_eq(ctx, pre["admin"].value, post["admin"].value), spec_eq(ctx, pre["ics20_config"].value, post["ics20_config"].value)))
            ob.witness("allowed")
        elif v == "UpdateAdmin":
            ob.require("C18.only_governance_hands_governance_over", by_gov)
            na = lazy_forced(ctx, post["admin"].value)
            ob.require("C18.new_governance_is_the_requested_address", na is not None and na.variant == "Some" and ctx.atom_of(na.fields[0]) is ctx.atom_of(m.get("admin")))
            ob.require("C18.update_admin_leaves_allow_list_alone", state_same(ctx, pre, post, ("allow_list",)))
            ob.witness("handed_over")
        else:
            ob.require("C18.transfers_never_touch_governance_state", gov_state_same(ctx, pre, post))
            if v == "Receive":
                al = {ctx.atom_of(k[0]): (p, x) for k, p, x in pre["allow_list"].slots}
                ap = al.get(ctx.atom_of(sender), (False, None))[0]
                dg = lazy_forced(ctx, s.cfg.get("default_gas_limit"))
                ob.require("C18.cw20_transfer_needs_allowed_token_or_default_gas_limit", zor(ap, dg is not None and dg.variant == "Some"))
            ob.witness("transferred")
        ob.twin("twin.allow_list_never_changes", state_same(ctx, pre, post, ("allow_list",)) if v == "Allow" else False)


class Ibc(VC):
    """IBC entry points and reply never touch governance state, and every payout carries the token's current limit or else the default"""
    property_id = "C18"
    crate = CRATE

    def __init__(self, entry):
        self.entry = entry
        self.name = f"C18.{entry}"

    def run(self, I, ctx, ob):
        s = ics20_state(I, ctx)
        env = mk_env(I, ctx)
        dg = I.force(ctx, s.cfg.get("default_gas_limit"))
        for k, p, v in ctx.storage["allow_list"].slots: I.force(ctx, v.get("gas_limit"))
        ty = {"ibc_packet_receive": "IbcPacketReceiveMsg", "ibc_packet_ack": "IbcPacketAckMsg", "ibc_packet_timeout": "IbcPacketTimeoutMsg", "reply": "Reply"}[self.entry]
        if self.entry == "reply":
            msg = mk_reply(I, ctx, [RECEIVE_ID, ACK_FAILURE_ID][ctx.choose([True, True], "reply id")], ctx.choose([True, True], "submsg ok?") == 0)
        else:
            msg = symval.fresh(I, ctx, ty, "m", None, CRATE)
        outcome, r, pre = call_entry(I, ctx, ob, CRATE, self.entry, self.entry, [make_deps(), env, msg], env, None, msg, ty, CRATE,
                                     result_ty={"ibc_packet_receive": "IbcReceiveResponse", "reply": "Response"}.get(self.entry, "IbcBasicResponse"))
        if outcome != "Ok": return
        ob.require("C18.ibc_entry_points_never_touch_governance_state", gov_state_same(ctx, pre, ctx.storage))
        for sm in msgs_of(r):
            po = payout_of(ctx, sm)
            if po is None: ob.require("C18.only_payouts_are_sent", False); continue
            kind, tok, rcpt, amt, gl = po
            g = lazy_forced(ctx, gl)
            if kind == "native":
                ob.require("C18.native_payout_has_no_gas_limit", g is not None and g.variant == "None")
            else:
                al = {ctx.atom_of(k[0]): (p, x) for k, p, x in pre["allow_list"].slots}
                p, x = al.get(tok, (False, None))
                if p is True or (x is not None and p is not False and ctx.check(p) != z3.unsat and ctx.check(z3.Not(p)) == z3.unsat):
                    ob.require("C18.cw20_payout_carries_the_tokens_current_limit", spec_eq(ctx, g, x.get("gas_limit")))
                elif x is not None and p is not False:
                    ob.require("C18.cw20_payout_carries_token_limit_or_default", zite(p, spec_eq(ctx, g, x.get("gas_limit")), spec_eq(ctx, g, dg) if dg.variant == "Some" else False))
                else:
                    ob.require("C18.cw20_payout_without_entry_carries_the_default", dg.variant == "Some" and spec_eq(ctx, g, dg))
                ob.witness("cw20_payout")
        ob.witness("ok")
        ob.twin("twin.no_payout_ever", len(msgs_of(r)) == 0)


class Base(VC):
    property_id = "C18"
    crate = CRATE
    name = "C18.instantiate"

    def run(self, I, ctx, ob):
        for ns, ty in (("admin", "Option<Addr>"), ("ics20_config", "state::Config"), ("reply_args", "state::ReplyArgs"), ("contract_info", "cw2::ContractVersion")):
            ctx.storage[ns] = ItemStore(ns, False, None, ty)
        for ns, ty in (("channel_info", "state::ChannelInfo"), ("channel_state", "state::ChannelState"), ("allow_list", "state::AllowInfo")):
            ctx.storage[ns] = MapStore(ns, [], None, ty)
        env, info = mk_env(I, ctx), mk_info(I, ctx)
        ctx.bounds["vec"] = 2
        msg = symval.fresh(I, ctx, "msg::InitMsg", "msg", None, CRATE)
        outcome, r, pre = call_entry(I, ctx, ob, CRATE, "instantiate", "instantiate", [make_deps(), env, info, msg], env, info, msg, "msg::InitMsg", CRATE)
        if outcome != "Ok": return
        adm = lazy_forced(ctx, ctx.storage["admin"].value)
        ob.require("C18.governance_is_the_requested_address", adm is not None and adm.variant == "Some" and ctx.atom_of(adm.fields[0]) is ctx.atom_of(msg.get("gov_contract")))
        cfg = ctx.storage["ics20_config"].value
        ob.require("C18.config_as_requested", zand(cfg.get("default_timeout") == msg.get("default_timeout"), spec_eq(ctx, cfg.get("default_gas_limit"), msg.get("default_gas_limit"))))
        al = lazy_forced(ctx, msg.get("allowlist"))
        a1 = {ctx.atom_of(k[0]): (p, x) for k, p, x in ctx.storage["allow_list"].slots}
        ob.require("C18.initial_allow_list_as_requested", al is not None and all(ctx.atom_of(e.get("contract")) in a1 for e in al.items))
        ob.witness("instantiated")
        ob.twin("twin.no_governance", adm is not None and adm.variant == "None")


class Migrate(VC):
    """migrating a contract already on the current storage layout: governance and allow list untouched, a configured default gas limit stays configured"""
    property_id = "C18"
    crate = CRATE
    name = "C18.migrate.current_layout"

    def run(self, I, ctx, ob):
        s = ics20_state(I, ctx, nch=1, ntok=1)
        st = ctx.storage
        st["contract_info"].present = True
        ci = st["contract_info"].value
        from mirsym.models.cosmwasm import parse_version
        pv = parse_version(I, ctx, ci.get("version"))
        if pv.variant != "Ok": raise Infeasible()
        ver = pv.fields[0]
        # newer than 0.13.0: none of the legacy-layout conversions runs (those are outside this VC, see OUTSIDE)
        ctx.assume(zor(ver.fields[0] > 0, zand(ver.fields[0] == 0, ver.fields[1] > 13), zand(ver.fields[0] == 0, ver.fields[1] == 13, ver.fields[2] > 0)))
        env = mk_env(I, ctx)
        dg0 = I.force(ctx, s.cfg.get("default_gas_limit"))
        msg = symval.fresh(I, ctx, "msg::MigrateMsg", "msg", None, CRATE)
        outcome, r, pre = call_entry(I, ctx, ob, CRATE, "migrate", "migrate", [make_deps(), env, msg], env, None, msg, "msg::MigrateMsg", CRATE)
        if outcome != "Ok": return
        post = ctx.storage
        ob.require("C18.migrate_leaves_governance_and_allow_list_alone", zand(state_same(ctx, pre, post, ("allow_list", "channel_state")), spec_eq(ctx, pre["admin"].value, post["admin"].value)))
        dg1 = lazy_forced(ctx, post["ics20_config"].value.get("default_gas_limit"))
        req = lazy_forced(ctx, msg.get("default_gas_limit"))
        ob.require("C18.configured_default_gas_limit_stays_configured", dg1 is not None and (dg0.variant == "None" or dg1.variant == "Some"))
        ob.require("C18.migrate_sets_default_only_as_requested", dg1 is not None and req is not None and (spec_eq(ctx, dg1, req) if req.variant == "Some" else spec_eq(ctx, dg1, dg0)))
        ob.witness("migrated")
        ob.twin("twin.default_gas_limit_never_set", dg1 is not None and dg1.variant == "None")


def vcs(tier):
    return [Exec(v) for v in ("Allow", "UpdateAdmin", "Transfer", "Receive")] + [Ibc(e) for e in ("ibc_packet_receive", "ibc_packet_ack", "ibc_packet_timeout", "reply")] + [Base(), Migrate()]


BOUNDS = {"tokens with allow-list state": 2, "channels": 2, "gas limits": "symbolic u64 / unlimited", "allowlist in InitMsg": "<= 2"}
OUTSIDE = "migrate from the 0.11-0.13 storage layouts (it rewrites config from the v1 layout and queries balances) is not encoded; only the current-layout path is"
ASSUMPTIONS = ["as C12"]
