"""C20 — all list queries paginate completely: every item once, in order, within limits."""
import z3
from mirsym.values import *
from mirsym import symval
from mirsym.ctx import ItemStore, MapStore
from mirsym.explore import run_entry, snapshot_storage
from .common import *
from .cw20 import lazy_forced, spec_eq, expired

N = 3
MAX_LIMIT, DEFAULT_LIMIT = 30, 10


class Listing(VC):
    """one page of one listing over a universe of N ordered keys with arbitrary presence, symbolic limit and cursor:
    page = the first min(L, remaining) present (and, where the listing filters, eligible) keys strictly beyond the cursor, in
    listing order, with L = min(limit or 10, 30); every item carries the stored value of its key.
    Completeness over successive pages follows: the next cursor is the last key returned and the bound is exclusive."""
    property_id = "C20"

    def __init__(self, name, crate, fname, ns, val_ty, key="str", prefix=None, reverse=False, args=None, items=None, key_of=None, check=None,
                 extra_state=None, eligible=None, extra_crates=(), n=N, cursor_validated=False, q=None, large=False):
        self.name = f"C20.{name}" + ("[large]" if large else "")
        self.large = large
        self.crate, self.fname, self.ns, self.val_ty, self.key, self.prefix, self.reverse = crate, fname, ns, val_ty, key, prefix, reverse
        self.args, self.items, self.key_of, self.check_item, self.extra_state, self.eligible = args, items, key_of, check, extra_state, eligible
        self.extra_crates, self.n, self.cursor_validated = extra_crates, n, cursor_validated
        self.q = q            # (QueryMsg type, variant, field names builder, json list field, json key field) for the native replay

    def run(self, I, ctx, ob):
        crate = self.crate
        n = self.n if not self.large else MAX_LIMIT + 3
        env = mk_env(I, ctx)
        # ---- universe of keys (ordered) and the listed map with decided presence
        # large variant: more entries than the maximum page, concrete ordered keys, every key present: what varies is the limit,
        # the cursor (absent / first key / a key in the middle) and, for filtering listings, where the eligible entries sit
        if self.large and self.key == "str" and self.cursor_validated:
            from mirsym import replay as _rp
            K = sorted(_rp.addr_pool(n, prefix="listed"))          # listings that validate the cursor need real (bech32) addresses
        elif self.large and self.key == "str":
            K = [f"k{i:02d}" for i in range(n)]
        elif self.large:
            K = list(range(1, n + 1))
        elif self.key == "str":
            K = universe(ctx, n, "k", ordered=True)
        else:
            K = [ctx.fresh_int(f"id{i}", 1, U64) for i in range(n)]
            for a, b in zip(K, K[1:]): ctx.assume(a < b)
        pfx = None
        slots = []
        if self.prefix == "str":
            pfx = ctx.new_atom("prefix"); other = ctx.new_atom("other_prefix")
            ctx.diseq.append((pfx, other)); ctx.assume(pfx.rank != other.rank)
            pfx.extra["touched"] = other.extra["touched"] = True
            from mirsym.models.cosmwasm import valid_addr_pred
            ctx.assume(valid_addr_pred(ctx, pfx))
        elif self.prefix == "u64":
            pfx = ctx.fresh_int("prefix.id", 1, U64); other = ctx.fresh_int("other.id", 1, U64)
            ctx.assume(pfx != other)
        st = MapStore(self.ns, [], None, self.val_ty)
        present = []
        for i, k in enumerate(K):
            p = True if self.large else ctx.choose([True, True], f"key{i} present?") == 0
            present.append(p)
            v = symval.fresh(I, ctx, self.val_ty, f"{self.ns}[{i}]", None, crate)
            st.slots.append([((pfx, k) if pfx is not None else (k,)), p, v])
        if pfx is not None:
            # an entry under another prefix must never show up
            st.slots.append([(other, K[0]), True, symval.fresh(I, ctx, self.val_ty, f"{self.ns}[other]", None, crate)])
        ctx.storage[self.ns] = st
        if self.extra_state: self.extra_state(I, ctx, self)
        # ---- inputs
        limit = symval.fresh(I, ctx, "Option<u32>", "limit", None, crate)
        lim = I.force(ctx, limit)
        L = lim.fields[0] if lim.variant == "Some" else DEFAULT_LIMIT
        Leff = zite(L < MAX_LIMIT, L, MAX_LIMIT) if not isinstance(L, int) else min(L, MAX_LIMIT)
        has_cursor = ctx.choose([True, True], "cursor?") == 0
        cursor = None
        if has_cursor and self.large:
            ci = [0, n // 2][ctx.choose([True, True], "cursor at first / middle key")]
            if self.reverse: ci = n - 1 - ci
            cursor = K[ci]
        elif has_cursor:
            cursor = SymStr(ctx.fresh_id(), "cursor") if self.key == "str" else ctx.fresh_int("cursor", 0, U64)
        cur_opt = Some(cursor) if has_cursor else NONE
        # position of the cursor relative to the keys (decided here so that the expected page is concrete)
        beyond = []
        for k in K:
            if not has_cursor: beyond.append(True); continue
            if self.large:
                beyond.append((cursor < k) if not self.reverse else (k < cursor)); continue
            if self.key == "str":
                if ctx.str_eq(cursor, k): beyond.append(False)
                else: beyond.append(ctx.str_lt(cursor, k) if not self.reverse else ctx.str_lt(k, cursor))
            else:
                beyond.append(ctx.branch(cursor < k if not self.reverse else k < cursor, "cursor<key"))
        if self.cursor_validated and has_cursor:
            from mirsym.models.cosmwasm import valid_addr_pred
            ctx.assume(valid_addr_pred(ctx, ctx.atom_of(cursor)))
        elig = [True] * n
        if self.eligible and self.large:
            # a run of ineligible (expired) entries right after the listing's start, of a length around the page limits
            run_len = [0, 1, DEFAULT_LIMIT, MAX_LIMIT, MAX_LIMIT + 1][ctx.choose([True] * 5, "length of the ineligible run")]
            start = 0 if not has_cursor else (K.index(cursor) + 1)
            for i in range(n):
                dead = start <= i < start + run_len
                elig[i] = not dead
                self.make_eligible(I, ctx, st, i, env, not dead)
        elif self.eligible: elig = [self.eligible(I, ctx, self, st.slots[i][2], env) for i in range(n)]
        expect = [i for i in range(n) if present[i] and beyond[i] and elig[i]]
        if self.reverse: expect.reverse()
        pre = snapshot_storage(ctx.storage)
        args = self.args(make_deps(False), env, pfx, cur_opt, limit)
        o, r = run_entry(I, ctx, fn(I, self.fname, crate), args, pre)
        ob.outcome = o
        if self.q is not None:
            qty, variant, mk, jlist, jkey = self.q
            names, vals = mk(pfx, cur_opt, limit)
            ob.info["replay"] = dict(contract=crate, entry="query", crate=crate, env=env, info=None, msg=EnumV(qty.split("::")[-1].split("<")[0], variant, vals, names), msg_ty=qty,
                                     pre_storage=pre, post_storage=pre, outcome=o, result=None, result_ty=None, querier=None)
            ob.info["page"] = [self.key_of(I, ctx, it) for it in self.items(I, ctx, r)] if o == "Ok" else None
        ob.require("C20.listing_does_not_fail", o == "Ok")
        if o != "Ok": return
        page = list(self.items(I, ctx, r))
        R = len(expect)
        ob.require("C20.page_length_is_min_of_limit_and_remaining", zand(zimplies(Leff >= R, len(page) == R), zimplies(Leff < R, Leff == len(page))))
        ob.require("C20.page_never_exceeds_limit_or_maximum", zand(len(page) <= Leff, len(page) <= MAX_LIMIT))
        ok = True
        for j, it in enumerate(page):
            if j >= R: ok = False; break
            i = expect[j]
            kk = self.key_of(I, ctx, it)
            same = (ctx.atom_of(kk) is ctx.atom_of(K[i])) if self.key == "str" else zeq(kk, K[i])
            ok = zand(ok, same)
            if self.check_item is not None: ok = zand(ok, self.check_item(I, ctx, it, st.slots[i][2], env))
        ob.require("C20.page_is_the_next_items_in_key_order_with_their_stored_values", ok)
        ob.witness("full_page", len(page) == n or (self.large and len(page) == MAX_LIMIT))
        ob.witness("cut_by_limit", zand(Leff < R) if R > 0 else False)
        ob.witness("after_cursor", has_cursor and len(page) > 0)
        ob.witness("default_limit", lim.variant == "None")
        ob.twin("twin.page_always_empty", len(page) == 0)


    def make_eligible(self, I, ctx, st, i, env, alive):
        """large variant of a filtering listing: give entry i an expiry that has / has not passed at the query's block"""
        v = st.slots[i][2]
        h = ctx.fresh_int(f"{self.ns}[{i}].expires.height", 0, U64)
        blk = env.get("block").get("height")
        ctx.assume(h > blk if alive else h <= blk)
        st.slots[i][2] = v.with_("expires", EnumV("Expiration", "AtHeight", [h]))

    def replay(self, I, v):
        """native query with the same state, cursor and limit: compare the page's key sequence"""
        from mirsym import findings, replay as rp
        info = v.info.get("replay")
        if info is None: return {"reproduced": None, "why": "no native query mapping for this listing"}
        conc, req = findings.build_step_request(I, v.ctx, v.model, info, I.prog)
        resp = rp.run(req)
        qty, variant, mk, jlist, jkey = self.q
        pred = v.info.get("page")
        predk = None if pred is None else [conc.string(k) if self.key == "str" else conc.ev(k) for k in pred]
        nat = None
        if resp.get("result") == "ok":
            js = (resp.get("response") or {}).get("json") or {}
            nat = [(x if jkey is None else x.get(jkey)) for x in js.get(jlist, [])]
        out = {"request": req, "native": {"result": resp.get("result"), "error": resp.get("error"), "page_keys": nat}, "predicted_page_keys": predk}
        out["reproduced"] = (nat == predk) and ((resp.get("result") == "ok") == (info["outcome"] == "Ok"))
        if not out["reproduced"]: out["why"] = "native page differs from the interpreter's page (encoder fault or string-order concretisation)"
        return out


# ------------------------------------------------------------------ adapters
def _f(name): return lambda I, ctx, it: it.get(name)


def _stub_kernel(I, ctx, vc):
    # which status a listed proposal shows is C03's subject: here current_status is a nondeterministic stub
    def current_status(I_, ctx_, callee, args, crate):
        return symval.fresh(I_, ctx_, "cw3::Status", "listed.status", None, vc.crate)
    ctx.stubs["current_status"] = current_status


def _prop_check(I, ctx, it, stored, env):
    return zand(spec_eq(ctx, it.get("title"), stored.get("title")), spec_eq(ctx, it.get("msgs"), stored.get("msgs")), spec_eq(ctx, it.get("expires"), stored.get("expires")),
                spec_eq(ctx, it.get("proposer"), stored.get("proposer")))


def _unexpired(I, ctx, vc, val, env):
    e = I.force(ctx, val.get("expires"))
    x = expired(ctx, e, env)
    return not ctx.branch(x, "allowance expired?") if not isinstance(x, bool) else not x


def _flex_cfg(I, ctx, vc):
    sym_item(I, ctx, "config", "state::Config", vc.crate, present=True)


def listings():
    L = []
    A = lambda d, e, p, c, l: [d, c, l]
    L.append(Listing("cw20.all_accounts", "cw20-base", "query_all_accounts", "balance", "Uint128", args=A,
                     items=lambda I, ctx, r: r.get("accounts").items, key_of=lambda I, ctx, it: it,
                     q=("msg::QueryMsg", "AllAccounts", lambda p, c, l: (["start_after", "limit"], [c, l]), "accounts", None)))
    for nm, fn_, ns, kf, qv, qf in (("cw20.owner_allowances", "query_owner_allowances", "allowance", "spender", "AllAllowances", "owner"),
                                    ("cw20.spender_allowances", "query_spender_allowances", "allowance_spender", "owner", "AllSpenderAllowances", "spender")):
        L.append(Listing(nm, "cw20-base", fn_, ns, "AllowanceResponse", prefix="str", args=lambda d, e, p, c, l: [d, p, c, l],
                         q=("msg::QueryMsg", qv, (lambda qf_: (lambda p, c, l: ([qf_, "start_after", "limit"], [p, c, l])))(qf), "allowances", kf),
                         items=lambda I, ctx, r: r.get("allowances").items, key_of=_f(kf),
                         check=lambda I, ctx, it, s, env: zand(it.get("allowance") == s.get("allowance"), spec_eq(ctx, it.get("expires"), s.get("expires")))))
    L.append(Listing("subkeys.all_allowances", "cw1-subkeys", "query_all_allowances", "allowances", "state::Allowance", args=lambda d, e, p, c, l: [d, e, c, l],
                     items=lambda I, ctx, r: r.get("allowances").items, key_of=_f("spender"), eligible=_unexpired, n=2,
                     q=("msg::QueryMsg", "AllAllowances", lambda p, c, l: (["start_after", "limit"], [c, l]), "allowances", "spender"),
                     check=lambda I, ctx, it, s, env: zand(spec_eq(ctx, it.get("balance"), s.get("balance")), spec_eq(ctx, it.get("expires"), s.get("expires")))))
    L.append(Listing("subkeys.all_permissions", "cw1-subkeys", "query_all_permissions", "permissions", "state::Permissions", args=A,
                     items=lambda I, ctx, r: r.get("permissions").items, key_of=_f("spender"),
                     q=("msg::QueryMsg", "AllPermissions", lambda p, c, l: (["start_after", "limit"], [c, l]), "permissions", "spender"),
                     check=lambda I, ctx, it, s, env: spec_eq(ctx, it.get("permissions"), s)))
    for crate, tag in (("cw3-fixed-multisig", "fixed"), ("cw3-flex-multisig", "flex")):
        for rev in (False, True):
            L.append(Listing(f"{tag}.{'reverse' if rev else 'list'}_proposals", crate, "reverse_proposals" if rev else "list_proposals", "proposals", "cw3::Proposal", key="u64", reverse=rev,
                             args=lambda d, e, p, c, l: [d, e, c, l], items=lambda I, ctx, r: r.get("proposals").items, key_of=_f("id"), check=_prop_check,
                             q=("msg::QueryMsg", "ReverseProposals" if rev else "ListProposals", (lambda rv: (lambda p, c, l: (["start_before" if rv else "start_after", "limit"], [c, l])))(rev), "proposals", "id"),
                             extra_state=_stub_kernel, extra_crates=("cw3",), n=2))
        L.append(Listing(f"{tag}.list_votes", crate, "list_votes", "votes", "cw3::Ballot", prefix="u64", args=lambda d, e, p, c, l: [d, p, c, l], cursor_validated=(tag == "flex"),
                         items=lambda I, ctx, r: r.get("votes").items, key_of=_f("voter"),
                         q=("msg::QueryMsg", "ListVotes", lambda p, c, l: (["proposal_id", "start_after", "limit"], [p, c, l]), "votes", "voter"),
                         check=lambda I, ctx, it, s, env: zand(it.get("weight") == s.get("weight"), spec_eq(ctx, it.get("vote"), s.get("vote")))))
    L.append(Listing("fixed.list_voters", "cw3-fixed-multisig", "list_voters", "voters", "u64", args=A,
                     items=lambda I, ctx, r: r.get("voters").items, key_of=_f("addr"), check=lambda I, ctx, it, s, env: it.get("weight") == s,
                     q=("msg::QueryMsg", "ListVoters", lambda p, c, l: (["start_after", "limit"], [c, l]), "voters", "addr")))
    for crate, tag, fname in (("cw4-group", "group", "query_list_members"), ("cw4-stake", "stake", "list_members")):
        L.append(Listing(f"{tag}.list_members", crate, fname, "members", "u64", args=A, cursor_validated=True,
                         items=lambda I, ctx, r: r.get("members").items, key_of=_f("addr"), check=lambda I, ctx, it, s, env: it.get("weight") == s,
                         q=("msg::QueryMsg", "ListMembers", lambda p, c, l: (["start_after", "limit"], [c, l]), "members", "addr")))
    L.append(Listing("ics20.list_allowed", "cw20-ics20", "list_allowed", "allow_list", "state::AllowInfo", args=A, cursor_validated=True,
                     items=lambda I, ctx, r: r.get("allow").items, key_of=_f("contract"),
                     q=("msg::QueryMsg", "ListAllowed", lambda p, c, l: (["start_after", "limit"], [c, l]), "allow", "contract"),
                     check=lambda I, ctx, it, s, env: spec_eq(ctx, it.get("gas_limit"), s.get("gas_limit"))))
    return L


class FlexVoters(VC):
    """cw3-flex list_voters is a pass-through of the group's ListMembers page (cursor and limit forwarded unchanged)"""
    property_id = "C20"
    crate = "cw3-flex-multisig"
    name = "C20.flex.list_voters_passthrough"

    def run(self, I, ctx, ob):
        from .cw3ms import GroupEnv
        cfg = sym_item(I, ctx, "config", "state::Config", self.crate, present=True).value
        G = universe(ctx, 2, "g", ordered=True)
        genv = GroupEnv(I, ctx, cfg.get("group_addr").fields[0], G)
        seen = {}

        def list_members(I_, ctx_, m):
            seen["start_after"], seen["limit"] = m.get("start_after"), m.get("limit")
            ctx_.bounds["vec"] = 2
            page = symval.fresh(I_, ctx_, "Vec<cw4::Member>", "group.page", None, self.crate)
            seen["page"] = I_.force(ctx_, page)
            return Ok(Struct("MemberListResponse", [seen["page"]], ["members"]))
        genv.list_members = list_members
        ctx.env = genv
        start = symval.fresh(I, ctx, "Option<String>", "start_after", None, self.crate)
        limit = symval.fresh(I, ctx, "Option<u32>", "limit", None, self.crate)
        o, r = run_entry(I, ctx, fn(I, "list_voters", self.crate), [make_deps(False), start, limit], snapshot_storage(ctx.storage))
        ob.outcome = o
        if o != "Ok": return
        ob.require("C20.flex_voters_forwards_cursor_and_limit", zand(spec_eq(ctx, seen.get("start_after"), start), spec_eq(ctx, seen.get("limit"), limit)))
        page = seen["page"].items
        out = r.get("voters").items
        ob.require("C20.flex_voters_returns_the_group_page_unchanged", len(out) == len(page) and zand(*[zand(ctx.atom_of(a.get("addr")) is ctx.atom_of(b.get("addr")), a.get("weight") == b.get("weight")) for a, b in zip(out, page)]))
        ob.witness("passed_through", len(page) == 2)
        ob.twin("twin.flex_voters_always_empty", len(out) == 0)


def vcs(tier):
    out = listings() + [FlexVoters()]
    # states larger than the maximum page (33 entries), ~15 s per listing
    import copy
    for L in listings():
        if "proposals" in L.name: continue           # 33 symbolic proposals do not finish in the time budget (stated in OUTSIDE)
        if True:
            big = copy.copy(L); big.large = True; big.name = L.name + "[large]"
            out.append(big)
    return out


BOUNDS = {"large states": "33 concrete ordered keys, all present (more than the maximum page of 30): limit absent or any u32, cursor absent / first / middle key, for the filtering listing an expired run of length 0, 1, 10, 30 or 31 right after the start",
          "keys per listing": "3 ordered symbolic keys (2 for proposals / subkey allowances) with every presence pattern, plus an entry under a foreign prefix for prefixed listings",
          "limit": "absent or any u32", "cursor": "absent, a listed key, or any other key (before, between, after)"}
OUTSIDE = ("large states for the two proposal listings (33 symbolic proposals exceed the time budget); listings with more items than the universes, in particular more than 33: covered by the limit formula L = min(limit or 10, 30) proved for every u32 "
           "together with the trusted semantics of Iterator::take and of ordered range iteration; multi-page completeness is the paper argument in the VC's docstring")
ASSUMPTIONS = ["cw-storage-plus range/prefix iteration returns keys in ascending byte order (hand model); string order is an abstract total order consistent with equality",
               "for listings that validate the cursor (cw4, ics20) the cursor is a valid address"]
