"""C09 — cw4: total and point-in-time member weights always match the true history."""
import z3
from mirsym.values import *
from mirsym import symval, serial
from mirsym.ctx import ItemStore, MapStore
from mirsym.explore import run_entry, snapshot_storage
from .common import *
from .cw4 import *
from .c10 import stake_state

K = 2      # changelog entries per key in the pre-state


def fill_changelogs(I, ctx, U, H, crate, with_total=True, k=K):
    """arbitrary snapshot bookkeeping written by earlier blocks: up to k changelog entries per member key (and for TOTAL),
    at strictly increasing heights, none later than the current block (block heights never decrease)"""
    ml = MapStore("members__changelog", [], [None, "u64"], "ChangeSet<u64>")
    for a in U:
        prev = None
        for j in range(k):
            g = ctx.fresh_int(f"chg[{a.name}].{j}.height", 0, U64)
            p = ctx.fresh_bool(f"chg[{a.name}].{j}.present")
            if prev is not None: ctx.assume(g > prev)
            ctx.assume(z3.Implies(p, g <= H))
            prev = g
            ml.slots.append([(a, g), p, symval.fresh(I, ctx, "ChangeSet<u64>", f"chg[{a.name}].{j}", None, "cw-storage-plus")])
    ctx.storage["members__changelog"] = ml
    if with_total:
        tl = MapStore("total__changelog", [], ["u64"], "ChangeSet<u64>")
        prev = None
        for j in range(k):
            g = ctx.fresh_int(f"tchg.{j}.height", 0, U64)
            p = ctx.fresh_bool(f"tchg.{j}.present")
            if prev is not None: ctx.assume(g > prev)
            ctx.assume(z3.Implies(p, g <= H))
            prev = g
            tl.slots.append([(g,), p, symval.fresh(I, ctx, "ChangeSet<u64>", f"tchg.{j}", None, "cw-storage-plus")])
        ctx.storage["total__changelog"] = tl


def opt_eq(ctx, a, b):
    """equality of two Option<u64> results that the queries produced (both concrete shapes on this path)"""
    if a is b: return True
    if isinstance(a, SymEnum) and isinstance(b, SymEnum) and a.id == b.id: return True
    a, b = lazy_forced(ctx, a), lazy_forced(ctx, b)
    if a is None or b is None: return False
    if a.variant != b.variant: return False
    return True if a.variant == "None" else zeq(a.fields[0], b.fields[0])


def q_member(I, ctx, crate, storage, addr, h):
    saved = ctx.storage
    ctx.storage = snapshot_storage(storage)
    try:
        o, r = run_entry(I, ctx, fn(I, "query_member", crate), [make_deps(False), addr, h], storage)
    finally:
        ctx.storage = saved
    return o, (r.get("weight") if o == "Ok" else None)


def q_total(I, ctx, crate, storage, h):
    saved = ctx.storage
    ctx.storage = snapshot_storage(storage)
    try:
        o, r = run_entry(I, ctx, fn(I, "query_total_weight", crate), [make_deps(False), h], storage)
    finally:
        ctx.storage = saved
    return o, (r.get("weight") if o == "Ok" else None)


class Snap(VC):
    """one membership-changing call at block H: history at heights <= H is not rewritten, heights > H see the new value"""
    property_id = "C09"

    def __init__(self, crate, variant, what, k=K):
        self.crate, self.variant, self.what, self.k = crate, variant, what, k
        self.name = f"C09.{'group' if crate == GROUP else 'stake'}.{variant}.{what}_history[changelog<={k}]"

    def run(self, I, ctx, ob):
        crate = self.crate
        if crate == GROUP:
            U = group_state(I, ctx, GROUP, n=2, nhooks=0)
            ctx.storage["cw4-hooks"].present = False
        else:
            U, cfg = stake_state(I, ctx, n=2, nclaims=1, nhooks=0)
            ctx.storage["cw4-hooks"].present = False
            I.force(ctx, cfg.get("denom")); I.force(ctx, cfg.get("unbonding_period"))
            ctx.assume(cfg.get("min_bond") >= 1)
        env, info = mk_env(I, ctx), mk_info(I, ctx)
        H = env.get("block").get("height")
        fill_changelogs(I, ctx, U, H, crate, with_total=(crate == GROUP), k=self.k)
        msg = symval.fresh(I, ctx, "msg::ExecuteMsg", "msg", None, crate)
        msg.variants = [self.variant]
        m = I.force(ctx, msg)
        if self.variant == "UpdateMembers":
            m.get("add").bound = 1; m.get("remove").bound = 1
        if self.variant == "Bond":
            ctx.bounds["vec"] = 1
            info = info.with_("funds", symval.fresh(I, ctx, "Vec<Coin>", "funds", None, crate))
        h = ctx.fresh_int("query.height", 0, U64)
        qa = U[0] if self.what == "member" else None
        pre_store = snapshot_storage(ctx.storage)
        if self.what == "member":
            o0, hist0 = q_member(I, ctx, crate, pre_store, qa, Some(h))
            _, cur0 = q_member(I, ctx, crate, pre_store, qa, NONE)
        else:
            o0, hist0 = q_total(I, ctx, crate, pre_store, Some(h))
        outcome, r, pre = call_entry(I, ctx, ob, crate, "execute", "execute", [make_deps(), env, info, m], env, info, m, "msg::ExecuteMsg", crate)
        if outcome != "Ok" or o0 != "Ok": return
        post_store = snapshot_storage(ctx.storage)
        if self.what == "member":
            o1, hist1 = q_member(I, ctx, crate, post_store, qa, Some(h))
            o2, cur1 = q_member(I, ctx, crate, post_store, qa, NONE)
            past = opt_eq(ctx, hist1, hist0)
            future = opt_eq(ctx, hist1, cur1)
        else:
            o1, hist1 = q_total(I, ctx, crate, post_store, Some(h))
            o2, cur1 = q_total(I, ctx, crate, post_store, NONE)
            past, future = zeq(hist1, hist0), zeq(hist1, cur1)
        ob.require("C09.history_queries_do_not_fail", o1 == "Ok" and o2 == "Ok")
        if o1 != "Ok" or o2 != "Ok": return
        ob.require("C09.heights_up_to_current_block_keep_their_recorded_value", zimplies(h <= H, past))
        ob.require("C09.future_heights_see_the_value_after_this_block", zimplies(h > H, future))
        ob.require("C09.changelog_heights_never_exceed_the_block", zand(*[zimplies(p, k[-1] <= H) for ns in ("members__changelog", "total__changelog") if ns in ctx.storage
                                                                          for k, p, v in ctx.storage[ns].slots]))
        if self.crate == GROUP:
            ob.require("C09.total_equals_sum_of_member_weights", zimplies(pre["total"].value == members_sum(pre), ctx.storage["total"].value == members_sum(ctx.storage)))
            if self.variant == "UpdateMembers":
                # the true history is what the admin asked for: afterwards every added address is a member with exactly the requested
                # weight (also weight 0) unless the same call removes it, and every removed address is not a member
                adds = lazy_forced(ctx, m.get("add")); rems = lazy_forced(ctx, m.get("remove"))
                now = {ctx.atom_of(k[0]): (p, w) for k, p, w in ctx.storage["members"].slots}
                removed = {ctx.atom_of(x) for x in (rems.items if rems is not None else [])}
                for x in (adds.items if adds is not None else []):
                    a = ctx.atom_of(x.get("addr"))
                    p, w = now.get(a, (False, 0))
                    ob.require("C09.update_installs_exactly_the_requested_weights", znot(p) if a in removed else zand(p, w == x.get("weight")))
                for a in removed:
                    ob.require("C09.update_removes_the_requested_members", znot(now.get(a, (False, 0))[0]))
        ob.witness("queried_past", h <= H)
        ob.witness("queried_future", h > H)
        if self.what == "member":
            ob.witness("weight_changed_now", znot(opt_eq(ctx, cur0, cur1)))
        ob.twin("twin.history_always_equals_current", future if self.what != "member" else opt_eq(ctx, hist1, cur1))


class Base(VC):
    """instantiate at block H0: nothing existed at the start of H0 or before; later heights see the initial members / total"""
    property_id = "C09"
    crate = GROUP
    name = "C09.group.instantiate.history"

    def __init__(self, nmembers=2):
        self.nmembers = nmembers
        if nmembers != 2: self.name = f"C09.group.instantiate.history[members<={nmembers}]"

    def run(self, I, ctx, ob):
        for ns, ty in (("admin", "Option<Addr>"), ("cw4-hooks", "Vec<Addr>"), ("total", "u64"), ("contract_info", "cw2::ContractVersion")):
            ctx.storage[ns] = ItemStore(ns, False, None, ty)
        for ns, ty, kt in (("members", "u64", None), ("members__changelog", "ChangeSet<u64>", [None, "u64"]), ("members__checkpoints", "u32", ["u64"]),
                           ("total__changelog", "ChangeSet<u64>", ["u64"]), ("total__checkpoints", "u32", ["u64"])):
            ctx.storage[ns] = MapStore(ns, [], kt, ty)
        env, info = mk_env(I, ctx), mk_info(I, ctx)
        H = env.get("block").get("height")
        ctx.bounds["vec"] = self.nmembers
        msg = symval.fresh(I, ctx, "msg::InstantiateMsg", "msg", None, GROUP)
        outcome, r, pre = call_entry(I, ctx, ob, GROUP, "instantiate", "instantiate", [make_deps(), env, info, msg], env, info, msg, "msg::InstantiateMsg", GROUP)
        if outcome != "Ok": return
        members = I.force(ctx, msg.get("members"))
        st = snapshot_storage(ctx.storage)
        ob.require("C09.total_equals_sum_of_member_weights", st["total"].value == members_sum(st))
        ob.require("C09.total_equals_sum_of_initial_weights", st["total"].value == zsum([x.get("weight") for x in members.items]))
        h = ctx.fresh_int("query.height", 0, U64)
        o, t = q_total(I, ctx, GROUP, st, Some(h))
        ob.require("C09.total_before_instantiation_is_zero", zand(o == "Ok", zimplies(h <= H, t == 0) if o == "Ok" else False))
        ob.require("C09.total_after_instantiation_is_initial", zimplies(h > H, t == st["total"].value) if o == "Ok" else False)
        for x in members.items:
            o, w = q_member(I, ctx, GROUP, st, x.get("addr"), Some(h))
            if o != "Ok": ob.require("C09.history_queries_do_not_fail", False); continue
            wv = lazy_forced(ctx, w)
            ob.require("C09.no_member_before_instantiation", zimplies(h <= H, wv is not None and wv.variant == "None"))
            ob.require("C09.initial_weight_visible_afterwards", zimplies(h > H, wv is not None and wv.variant == "Some" and wv.fields[0] == x.get("weight")) if wv is not None and wv.variant == "Some" else zimplies(h > H, False))
        ob.witness("instantiated_with_members", len(members.items) == 2)
        ob.twin("twin.total_always_zero", st["total"].value == 0)


class RawKeys(VC):
    """the raw keys published by the cw4 package address the same cells as the contracts' typed storage definitions"""
    property_id = "C09"

    def __init__(self, crate):
        self.crate = crate
        self.name = f"C09.{'group' if crate == GROUP else 'stake'}.raw_keys"

    def run(self, I, ctx, ob):
        ctx.storage_default_empty = True
        crate = self.crate
        members = I.const(ctx, None, "state::MEMBERS") if False else I.call_mir(ctx, I.prog.resolve("state::MEMBERS", crate), [])
        total = I.call_mir(ctx, I.prog.resolve("state::TOTAL", crate), [])
        from mirsym.models.storage import _ns, _nskey
        prim = members.get("primary") if isinstance(members, Struct) and members.names else members.fields[0]
        ns_members = _nskey(_ns(I, ctx, prim))
        tprim = total.get("primary") if isinstance(total, Struct) and total.names and "primary" in total.names else total
        ns_total = _nskey(_ns(I, ctx, tprim))
        key = I.call_mir(ctx, I.prog.resolve("member_key", "cw4"), ["someaddress"])
        key = I.deref(ctx, key)
        got = bytes(key.items) if isinstance(key, VecV) and all(isinstance(b, int) for b in key.items) else None
        ob.outcome = "ret"
        ob.require("C09.members_map_uses_published_namespace", ns_members == "members")
        ob.require("C09.total_item_uses_published_key", ns_total == "total")
        ob.require("C09.member_key_matches_map_layout", got == serial.map_key(ns_members, ["someaddress"]))
        tk = I.prog.resolve("TOTAL_KEY", "cw4"); mk = I.prog.resolve("MEMBERS_KEY", "cw4")
        ob.require("C09.published_constants", tk is not None and mk is not None and tk.src.strip('"') == "total" and mk.src.strip('"') == "members")
        ob.witness("evaluated")
        ob.twin("twin.raw_key_is_empty", got == b"")


class Current(VC):
    """smart queries without height read exactly the primary cells (the ones raw queries read)"""
    property_id = "C09"

    def __init__(self, crate):
        self.crate = crate
        self.name = f"C09.{'group' if crate == GROUP else 'stake'}.current_queries_read_primary_cells"

    def run(self, I, ctx, ob):
        crate = self.crate
        if crate == GROUP: U = group_state(I, ctx, GROUP, n=2, nhooks=0)
        else: U, cfg = stake_state(I, ctx, n=2, nclaims=1, nhooks=0)
        st = snapshot_storage(ctx.storage)
        qa = SymStr(ctx.fresh_id(), "q.addr")
        resolve(ctx, qa, U)
        o, w = q_member(I, ctx, crate, st, qa, NONE)
        ob.outcome = o
        ob.info["replay"] = dict(contract=crate, entry="query", crate=crate, env=mk_env(I, ctx), info=None, msg=EnumV("QueryMsg", "Member", [qa, NONE], ["addr", "at_height"]),
                                 msg_ty="msg::QueryMsg", pre_storage=st, post_storage=st, outcome=o, result=Struct("MemberResponse", [w], ["weight"]) if o == "Ok" else None,
                                 result_ty="cw4::MemberResponse", querier=None)
        if o != "Ok": return
        p, v = st["members"].get(ctx, (qa,))
        wv = lazy_forced(ctx, w)
        ob.require("C09.member_query_reads_primary_cell", wv is not None and zand(zeq(p, wv.variant == "Some"), zimplies(p, wv.fields[0] == v) if wv.variant == "Some" else True))
        if crate == GROUP:
            o2, t = q_total(I, ctx, crate, st, NONE)
        else:
            o2, r2 = run_entry(I, ctx, fn(I, "query_total_weight", crate), [make_deps(False)], st)
            t = r2.get("weight") if o2 == "Ok" else None
        ob.require("C09.total_query_reads_primary_cell", o2 == "Ok" and zeq(t, st["total"].value))
        ob.witness("member_found", p)
        ob.twin("twin.member_query_always_none", wv is not None and wv.variant == "None")


def vcs(tier):
    k = 1 if tier == "quick" else K
    out = [Snap(GROUP, "UpdateMembers", "member", k), Snap(GROUP, "UpdateMembers", "total", k), Base(),
           Snap(STAKE, "Bond", "member", k), Snap(STAKE, "Unbond", "member", k),
           RawKeys(GROUP), RawKeys(STAKE), Current(GROUP), Current(STAKE)]
    out.append(Base(4))
    return out


BOUNDS = {"members with state": 2, "changelog entries per key in the pre-state": "1 (quick) / 2 (thorough)", "add / remove lists": "<= 1 each", "heights": "symbolic u64 (query height, block height, changelog heights)",
          "weights": "full u64"}
OUTSIDE = ("more than %d earlier changelog entries per key (the lookup is a range query for the first entry at or after h; entries are ordered); "
           "the history quantifier is closed by induction: the step VC shows that one call at block H leaves every answer for h <= H untouched and "
           "makes every answer for h > H the new current value" % K)
ASSUMPTIONS = ["block heights never decrease between calls (chain rule) — changelog entries of the pre-state are at heights <= the current block",
               "cw-storage-plus SnapshotMap/SnapshotItem/Snapshot are interpreted from their own MIR over the Map/Item model"]
