"""C19 — cw20: the three allowance views agree, also after migration."""
import z3
from mirsym.values import *
from mirsym import symval
from mirsym.explore import run_entry, snapshot_storage
from .common import *
from .cw20 import *


def mirror_holds(ctx, storage, ob, tag):
    al, als = slot_map(storage["allowance"]), slot_map(storage["allowance_spender"])
    def key_atoms(k): return tuple(ctx.atom_of(c) for c in k)
    A = {key_atoms(k): v for k, v in al.items()}
    S = {key_atoms(k): v for k, v in als.items()}
    for (o, s) in set(A) | {(b, a) for (a, b) in S}:
        p0, v0 = A.get((o, s), (False, None))
        p1, v1 = S.get((s, o), (False, None))
        eq = True
        if v0 is not None and v1 is not None:
            eq = zand(zeq(v0.get("allowance"), v1.get("allowance")) if v0 is not v1 else True, spec_eq(ctx, v0.get("expires"), v1.get("expires")))
        elif v0 is None: eq = znot(p1)
        else: eq = znot(p0)
        ob.require(tag, zand(zeq(p0, p1), zimplies(p0, eq)))


class Step(VC):
    property_id = "C19"
    crate = CRATE

    def __init__(self, variant):
        self.variant = variant
        self.name = f"C19.step.{variant}"

    def run(self, I, ctx, ob):
        f = run_step(I, ctx, ob, self.variant, mirror=True)
        if f.outcome != "Ok": return
        mirror_holds(ctx, f.post, ob, "C19.owner_and_spender_maps_mirror_each_other")
        ob.witness("ok")
        al0, al1 = slot_map(f.pre["allowance"]), slot_map(f.post["allowance"])
        ob.twin("twin.allowances_never_change", zand(len(al0) == len(al1), *[zand(zeq(al0[k][0], al1[k][0]), spec_eq(ctx, al0[k][1], al1[k][1])) for k in al0 if k in al1])
                if self.variant in ("IncreaseAllowance", "TransferFrom", "SendFrom", "BurnFrom", "DecreaseAllowance") else False)


class Migrate(VC):
    """migrating a pre-0.14 token (no spender listing at all) builds the mirror; migrating a newer one keeps it"""
    property_id = "C19"
    crate = CRATE

    def __init__(self, old):
        self.old = old
        self.name = f"C19.migrate.{'pre_0_14' if old else 'recent'}"

    def run(self, I, ctx, ob):
        U = cw20_state(I, ctx, n=2, mirror=not self.old, ordered=True)
        st = ctx.storage
        if self.old:
            for s in st["allowance_spender"].slots: s[1] = False      # the listing did not exist before 0.14
        st["contract_info"].present = True
        ci = st["contract_info"].value
        from mirsym.models.cosmwasm import parse_version
        env = mk_env(I, ctx)
        msg = Struct("MigrateMsg", [], [])
        outcome, r, pre = call_entry(I, ctx, ob, CRATE, "migrate", "migrate", [make_deps(), env, msg], env, None, msg, "msg::MigrateMsg", CRATE)
        if outcome != "Ok": return
        # which side of 0.14.0 was the stored version on this path?
        a = ctx.atom_of(ci.get("version"))
        ver = a.version[1] if a.version is not None else None
        if ver is None:
            if a.text is None: raise Unsupported("migrate did not parse the stored version")
            import re
            mm = re.match(r"(\d+)\.(\d+)\.(\d+)", a.text)
            ver = Struct("Version", [int(x) for x in mm.groups()], ["major", "minor", "patch"])
        is_old = zor(ver.fields[0] < 0, zand(ver.fields[0] == 0, ver.fields[1] < 14))
        if self.old:
            ctx_old = is_old
            al, als = slot_map(ctx.storage["allowance"]), slot_map(ctx.storage["allowance_spender"])
            for (o, s), (p0, v0) in al.items():
                p1, v1 = als.get((s, o), (False, None))
                ob.require("C19.migration_builds_spender_listing", zimplies(ctx_old, zand(zeq(p0, p1), zimplies(p0, spec_eq(ctx, v0, v1) if v1 is not None else False))))
            ob.witness("migrated_old", ctx_old)
        else:
            mirror_holds(ctx, ctx.storage, ob, "C19.migration_keeps_mirror")
            ob.witness("migrated_recent", znot(is_old))
        ob.twin("twin.spender_listing_stays_empty", zand(*[znot(p) for k, p, v in ctx.storage["allowance_spender"].slots]) if self.old else False)


class Views(VC):
    """on a state satisfying the mirror invariant the three queries report the same amount and expiry"""
    property_id = "C19"
    crate = CRATE
    name = "C19.views.agree"

    def run(self, I, ctx, ob):
        U = cw20_state(I, ctx, n=2, mirror=True, ordered=True)
        env = mk_env(I, ctx)
        owner = SymStr(ctx.fresh_id(), "q.owner")
        spender = SymStr(ctx.fresh_id(), "q.spender")
        oi, si = resolve(ctx, owner, U), resolve(ctx, spender, U)
        pre = snapshot_storage(ctx.storage)
        deps = make_deps(False)
        o1, r1 = run_entry(I, ctx, fn(I, "query_allowance", CRATE), [deps, owner, spender], pre)
        o2, r2 = run_entry(I, ctx, fn(I, "query_owner_allowances", CRATE), [deps, owner, NONE, Some(30)], pre)
        o3, r3 = run_entry(I, ctx, fn(I, "query_spender_allowances", CRATE), [deps, spender, NONE, Some(30)], pre)
        ob.outcome = f"{o1}/{o2}/{o3}"
        ob.info["replay"] = dict(contract=CRATE, entry="query", crate=CRATE, env=env, info=None, msg=EnumV("QueryMsg", "AllAllowances", [owner, NONE, Some(30)], ["owner", "start_after", "limit"]),
                                 msg_ty="msg::QueryMsg", pre_storage=pre, post_storage=pre, outcome=o2, result=r2 if o2 == "Ok" else None, result_ty="AllAllowancesResponse", querier=None)
        if (o1, o2, o3) != ("Ok", "Ok", "Ok"): return
        p, v = pre["allowance"].get(ctx, (owner, spender))
        single = (r1.get("allowance"), r1.get("expires"))
        in_owner = [x for x in r2.get("allowances").items if ctx.atom_of(x.get("spender")) is ctx.atom_of(spender)]
        in_spender = [x for x in r3.get("allowances").items if ctx.atom_of(x.get("owner")) is ctx.atom_of(owner)]
        present = p if isinstance(p, bool) else None
        # listings were produced by forking on presence, so on this path presence is decided
        listed_o, listed_s = len(in_owner) == 1, len(in_spender) == 1
        ob.require("C19.listed_by_owner_iff_listed_by_spender", listed_o == listed_s and len(in_owner) <= 1 and len(in_spender) <= 1)
        ob.require("C19.listed_iff_present", zeq(p, listed_o))
        if listed_o and listed_s:
            a, b = in_owner[0], in_spender[0]
            ob.require("C19.three_views_same_amount", zand(single[0] == a.get("allowance"), single[0] == b.get("allowance")))
            ob.require("C19.three_views_same_expiry", zand(spec_eq(ctx, single[1], a.get("expires")), spec_eq(ctx, single[1], b.get("expires"))))
            ob.witness("listed")
        else:
            ob.require("C19.absent_reads_zero", zimplies(znot(p), single[0] == 0))
            ob.witness("absent")
        ob.twin("twin.single_query_always_zero", single[0] == 0)


def vcs(tier):
    return [Step(v) for v in VARIANTS] + [Migrate(True), Migrate(False), Views()]


BOUNDS = {"addresses_with_state": N, "migration / views": "2 addresses (4 owner-spender pairs)", "amounts": "full u128"}
OUTSIDE = "more owner/spender pairs than the universe; listing pages are C20's subject (here limit=30, no cursor)"
ASSUMPTIONS = ["a pre-0.14 token has no spender-indexed entries at all (the map did not exist)", "verify_logo stubbed"]
