"""C15 — cw3-flex: deposits are taken once and returned at most once, as promised."""
import z3
from mirsym.values import *
from mirsym import symval
from .common import *
from .cw3ms import *
from .c03 import new_proposal

CRATE = FLEX


def is_refund(ctx, sm, deposit, proposer):
    """z3/bool: sub-message sm returns exactly `deposit` to `proposer`"""
    cm = sm.get("msg")
    den = lazy_forced(ctx, deposit.get("denom"))
    if den is None: return False
    common = zand(sm.get("reply_on").variant == "Never", sm.get("id") == 0, sm.get("gas_limit").variant == "None")
    if den.variant == "Native":
        if not (cm.variant == "Bank" and cm.fields[0].variant == "Send"): return False
        sd = cm.fields[0]
        coins = sd.get("amount").items
        if len(coins) != 1: return False
        return zand(common, ctx.atom_of(sd.get("to_address")) is ctx.atom_of(proposer), coins[0].get("amount") == deposit.get("amount"),
                    ctx.atom_of(coins[0].get("denom")) is ctx.atom_of(den.fields[0]))
    if not (cm.variant == "Wasm" and cm.fields[0].variant == "Execute"): return False
    ex = cm.fields[0]
    pl = ex.get("msg")
    if not (isinstance(pl, JsonBin) and isinstance(pl.value, EnumV) and pl.value.variant == "Transfer"): return False
    return zand(common, ctx.atom_of(ex.get("contract_addr")) is ctx.atom_of(den.fields[0]), len(ex.get("funds").items) == 0,
                ctx.atom_of(pl.value.get("recipient")) is ctx.atom_of(proposer), pl.value.get("amount") == deposit.get("amount"))


class Step(VC):
    property_id = "C15"
    crate = FLEX

    def __init__(self, variant, after=None):
        self.variant, self.after = variant, after
        self.extra_crates = ("cw3",)
        self.name = "C15.flex." + (f"chain.{after}.then." if after else "") + variant

    def run(self, I, ctx, ob):
        v = self.variant
        f = ms_step(I, ctx, ob, FLEX, v, after=self.after)
        if f.outcome != "Ok": return
        out = msgs_of(f.resp)
        if v == "Propose":
            dep = lazy_forced(ctx, f.cfg.get("proposal_deposit"))
            np_ = new_proposal(f)
            if np_ is None or dep is None: ob.require("C15.propose_inspects_deposit_config", False); return
            prop = np_[2]
            funds = lazy_forced(ctx, f.info.get("funds"))
            if dep.variant == "None":
                ob.require("C15.no_deposit_configured_takes_nothing", zand(len(out) == 0, lazy_forced(ctx, prop.get("deposit")).variant == "None"))
                ob.witness("free_proposal")
            else:
                d = dep.fields[0]
                den = lazy_forced(ctx, d.get("denom"))
                ob.require("C15.proposal_records_the_deposit_it_paid", spec_eq(ctx, prop.get("deposit"), f.cfg.get("proposal_deposit")))
                if den is None: ob.require("C15.propose_inspects_deposit_config", False); return
                if den.variant == "Native":
                    ok = funds is not None and len(funds.items) == 1
                    if ok: ok = zand(funds.items[0].get("amount") == d.get("amount"), ctx.atom_of(funds.items[0].get("denom")) is ctx.atom_of(den.fields[0]))
                    ob.require("C15.native_deposit_paid_exactly", ok)
                    ob.require("C15.native_deposit_pulls_nothing_else", len(out) == 0)
                    ob.witness("native_deposit_paid")
                else:
                    ok = len(out) == 1
                    if ok:
                        sm = out[0]; cm = sm.get("msg")
                        ok = cm.variant == "Wasm" and cm.fields[0].variant == "Execute"
                        if ok:
                            ex = cm.fields[0]; pl = ex.get("msg")
                            ok = isinstance(pl, JsonBin) and isinstance(pl.value, EnumV) and pl.value.variant == "TransferFrom"
                            if ok:
                                t = pl.value
                                ok = zand(ctx.atom_of(ex.get("contract_addr")) is ctx.atom_of(den.fields[0]), len(ex.get("funds").items) == 0,
                                          ctx.atom_of(t.get("owner")) is ctx.atom_of(f.sender), ctx.atom_of(t.get("recipient")) is ctx.atom_of(f.env.get("contract").get("address")),
                                          t.get("amount") == d.get("amount"), sm.get("reply_on").variant == "Never")
                    ob.require("C15.cw20_deposit_pulled_exactly_once_from_proposer", ok)
                    ob.witness("cw20_deposit_pulled")
        elif v in ("Execute", "Close") and f.on_focus:
            p0p, p0 = slot_map(f.pre["proposals"])[(f.pid,)]
            dep = lazy_forced(ctx, p0.get("deposit"))
            if dep is None: ob.require("C15.deposit_inspected", False); return
            want = list(lazy_forced(ctx, p0.get("msgs")).items) if v == "Execute" else []
            if dep.variant == "None":
                ob.require("C15.nothing_to_return_without_deposit", len(out) == len(want))
            else:
                d = dep.fields[0]
                must = True if v == "Execute" else d.get("refund_failed_proposals")
                refunds = [is_refund(ctx, sm, d, p0.get("proposer")) for sm in out[:len(out) - len(want)]]
                n_extra = len(out) - len(want)
                ob.require("C15.deposit_returned_exactly_when_promised_and_only_to_proposer",
                           zand(n_extra <= 1, zeq(n_extra == 1, must) if isinstance(must, bool) else (must if n_extra == 1 else znot(must)), *(refunds if n_extra == 1 else [])))
                # leaving the status for good makes a second return impossible (C05: Executed / Rejected are final for Execute / Close)
                p1p, p1 = focus_post(ctx, f)
                ob.require("C15.return_happens_together_with_a_final_status", status_is(ctx, p1, "Executed" if v == "Execute" else "Rejected"))
                # a call that returns a deposit must leave a trace in the proposal's record: if the stored proposal is unchanged, the
                # very same call would succeed again and return the deposit a second time
                if n_extra == 1:
                    ob.require("C15.a_returned_deposit_is_recorded", znot(zand(zeq(p0p, p1p), spec_eq(ctx, p0, p1))))
                # chain: once an earlier call on this proposal has returned the deposit, no later call returns it again
                f1 = getattr(f, "first", None)
                if f1 is not None and getattr(f1, "on_focus", False):
                    out1 = msgs_of(f1.resp)
                    p00 = slot_map(f1.pre["proposals"])[(f.pid,)][1]
                    want1 = list(lazy_forced(ctx, p00.get("msgs")).items) if f1.variant == "Execute" else []
                    first_returned = (len(out1) - len(want1)) == 1
                    if first_returned:
                        ob.require("C15.deposit_returned_at_most_once_across_calls", n_extra == 0)
                ob.witness("returned_on_" + v, n_extra == 1)
        elif v == "Vote":
            ob.require("C15.votes_move_no_deposit", len(out) == 0)
        ob.witness("ok")
        ob.twin("twin.no_message_ever_sent", len(out) == 0)


class Recoverable(VC):
    """when refunds for failed proposals are promised, every failed proposal's deposit is actually recoverable:
    once it has expired, Close succeeds (and by the Step VC returns the deposit) whatever way it failed"""
    property_id = "C15"
    crate = FLEX
    name = "C15.flex.failed_proposal_deposit_recoverable"
    extra_crates = ("cw3",)

    def run(self, I, ctx, ob):
        f = ms_step(I, ctx, ob, FLEX, "Close")
        if not f.on_focus: return
        p0p, p0 = slot_map(f.pre["proposals"])[(f.pid,)]
        dep = lazy_forced(ctx, p0.get("deposit"))
        if dep is None:
            dep = None
        e = expired(ctx, p0.get("expires"), f.env)
        passed_now = kernel(I, ctx, "is_passed", p0, f.blk)
        failed = zand(p0p, e if e is not None else False, zor(status_is(ctx, p0, "Rejected"), zand(status_is(ctx, p0, "Open"), znot(passed_now))))
        # a stored Rejected proposal was either closed (deposit already handled) or voted down before expiry (deposit still held):
        # the ghost `refund_pending` tells the two apart; Close must succeed for the latter
        pending = ctx.fresh_bool("ghost.refund_pending")
        promised = False
        if dep is not None and dep.variant == "Some": promised = dep.fields[0].get("refund_failed_proposals")
        ob.require("C15.failed_proposal_with_promised_refund_can_be_closed", zimplies(zand(failed, promised, pending), f.outcome == "Ok"),
                   known={"flex/voted-down-before-expiry-deposit-stuck": zand(status_is(ctx, p0, "Rejected"), pending)})
        ob.witness("failed_and_promised", zand(failed, promised, pending))
        ob.twin("twin.close_never_succeeds", f.outcome != "Ok")


def vcs(tier):
    out = [Step(v) for v in ("Propose", "Vote", "Execute", "Close")] + [Recoverable()]
    if tier != "thorough": out.append(Step("Close", after="Close"))          # a second Close never pays again
    # two-call chains on one proposal (thorough): the second call is judged on the state the first really left behind
    if tier == "thorough":
        CHV = ("Vote", "Execute", "Close")
        out += [Step(b, after=a) for a in CHV for b in CHV]
    return out


BOUNDS = {"group members with state": NV, "proposals with state": "1 focus + 1 bystander", "messages per proposal": "<= 1", "funds coins": "<= 1 (vec bound)",
          "deposit": "native and cw20, any amount, refund flag on/off"}
OUTSIDE = "the token contracts' own behaviour (a cw20 TransferFrom that fails reverts the Propose: same transaction); more than one coin in info.funds is rejected by must_pay"
ASSUMPTIONS = ["ghost refund_pending: a stored Rejected status with the deposit still held arises from a vote that decided the proposal before expiry (execute_vote stores Rejected and sends nothing)",
               "kernel abstraction as in C03"]
