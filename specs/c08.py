"""C08 — cw1-subkeys: a subkey never spends beyond its unexpired native allowance."""
import z3
from mirsym.values import *
from mirsym import symval
from .common import *
from .cw1 import *

CRATE = SK


def coins_of(ctx, allowance):
    c = lazy_forced(ctx, allowance.get("balance").fields[0])
    return None if c is None else list(c.items)


def distinct_denoms(ctx, coins):
    ds = [ctx.atom_of(c.get("denom")) for c in coins]
    for i, a in enumerate(ds):
        for b in ds[i + 1:]:
            if a is b or not ctx._known_distinct(a, b): return False
    return True


def send_msg(I, ctx, name, ncoin):
    coins = SymVec(ctx.fresh_id(), "Coin", f"{name}.amount", ncoin, 0, SK)
    send = EnumV("BankMsg", "Send", [SymStr(ctx.fresh_id(), f"{name}.to"), coins], ["to_address", "amount"])
    return EnumV("CosmosMsg", "Bank", [send])


class Spend(VC):
    property_id = "C08"
    crate = SK

    def __init__(self, nmsgs, ncoin):
        self.nmsgs, self.ncoin = nmsgs, ncoin
        self.name = f"C08.spend[msgs={nmsgs},coins<={ncoin}]"

    def run(self, I, ctx, ob):
        U, al, alw, perm = subkeys_state(I, ctx, nsub=2, nadm=1)
        env, info = mk_env(I, ctx), mk_info(I, ctx)
        sender = info.get("sender")
        si = resolve(ctx, sender, U)
        pre_coins = force_balance(I, ctx, alw.slots[si][2]).items if si is not None else []
        msgs = VecV([send_msg(I, ctx, f"send{i}", self.ncoin) for i in range(self.nmsgs)])
        m = EnumV("ExecuteMsg", "Execute", [msgs], ["msgs"])
        outcome, r, pre = call_entry(I, ctx, ob, SK, "execute", "execute", [make_deps(), env, info, m], env, info, m, "msg::ExecuteMsg<Empty>", SK)
        if outcome != "Ok": return
        adm = is_admin(I, ctx, pre, sender)
        post = ctx.storage
        s0, s1 = slot_map(pre["allowances"]), slot_map(post["allowances"])
        p0s, p1s = slot_map(pre["permissions"]), slot_map(post["permissions"])
        ob.require("C08.permissions_untouched_by_spending", zand(len(p0s) == len(p1s), *[zand(zeq(p0s[k][0], p1s[k][0]), spec_eq(ctx, p0s[k][1], p1s[k][1])) for k in p0s]))
        for k in set(s0) | set(s1):
            p0, v0 = s0.get(k, (False, None)); p1, v1 = s1.get(k, (False, None))
            mine = (not adm) and ctx.atom_of(k[0]) is ctx.atom_of(sender)
            if not mine:
                ob.require("C08.other_allowances_untouched", zand(zeq(p0, p1), zor(znot(p1), spec_eq(ctx, v0, v1) if v0 is not None and v1 is not None else False)))
                continue
            sent = []
            for cm in msgs.items:
                cs = lazy_forced(ctx, cm.fields[0].get("amount"))
                sent += list(cs.items) if cs is not None else []
            if not sent and self.nmsgs == 0: continue
            spent = coins_by_denom(ctx, sent)
            before = coins_by_denom(ctx, pre_coins)
            after_coins = coins_of(ctx, v1)
            if after_coins is None:
                ob.require("C08.allowance_value_inspected", self.nmsgs == 0); continue
            after = coins_by_denom(ctx, after_coins)
            e = expired(ctx, v0.get("expires"), env)
            ob.require("C08.spend_needs_present_unexpired_allowance", zand(p0, znot(e) if e is not None else False))
            for d in set(spent) | set(before) | set(after):
                ob.require("C08.allowance_deducted_exactly_per_denom", zand(before.get(d, 0) >= spent.get(d, 0), after.get(d, 0) == before.get(d, 0) - spent.get(d, 0)))
            ob.require("C08.sent_denoms_were_granted", all(d in before for d in spent))
            ob.require("C08.distinct_denoms_preserved", distinct_denoms(ctx, after_coins))
            ob.require("C08.spend_keeps_expiry_and_entry", zand(p1, spec_eq(ctx, v0.get("expires"), v1.get("expires"))))
            ob.witness("spent_something", zor(*[x > 0 for x in spent.values()]) if spent else False)
        if adm: ob.witness("admin_spend")
        ob.twin("twin.allowances_never_shrink", zand(all(spec_eq(ctx, s0[k][1], s1[k][1]) is True for k in s0), *[zeq(s0[k][0], s1[k][0]) for k in s0]) if not adm and self.nmsgs > 0 else False)


class Grant(VC):
    property_id = "C08"
    crate = SK

    def __init__(self, variant):
        self.variant = variant
        self.name = f"C08.{variant}"

    def run(self, I, ctx, ob):
        U, al, alw, perm = subkeys_state(I, ctx, nsub=2, nadm=1)
        env, info = mk_env(I, ctx), mk_info(I, ctx)
        sender = info.get("sender")
        msg = symval.fresh(I, ctx, "msg::ExecuteMsg<Empty>", "msg", None, SK)
        msg.variants = [self.variant]
        m = I.force(ctx, msg)
        ti = resolve(ctx, m.get("spender"), U)
        pre_coins = force_balance(I, ctx, alw.slots[ti][2]).items if ti is not None else []
        outcome, r, pre = call_entry(I, ctx, ob, SK, "execute", "execute", [make_deps(), env, info, m], env, info, m, "msg::ExecuteMsg<Empty>", SK)
        if outcome != "Ok": return
        post = ctx.storage
        adm = is_admin(I, ctx, pre, sender)
        ob.require("C08.grants_change_only_by_admins", adm)
        s0, s1 = slot_map(pre["allowances"]), slot_map(post["allowances"])
        coin = m.get("amount")
        d_msg = ctx.atom_of(coin.get("denom"))
        exp_in = lazy_forced(ctx, m.get("expires"))
        for k in set(s0) | set(s1):
            p0, v0 = s0.get(k, (False, None)); p1, v1 = s1.get(k, (False, None))
            target = ctx.atom_of(k[0]) is ctx.atom_of(m.get("spender"))
            if not target:
                ob.require("C08.other_allowances_untouched", zand(zeq(p0, p1), zor(znot(p1), spec_eq(ctx, v0, v1) if v0 is not None and v1 is not None else False)))
                continue
            ob.require("C08.no_self_grant", ctx.atom_of(k[0]) is not ctx.atom_of(sender))
            e0 = expired(ctx, v0.get("expires"), env) if v0 is not None else None
            live = zand(p0, znot(e0)) if e0 is not None else False          # present and unexpired before the call
            before = coins_by_denom(ctx, pre_coins)
            after_coins = coins_of(ctx, v1) if v1 is not None else None
            if self.variant == "IncreaseAllowance":
                if after_coins is None: ob.require("C08.allowance_value_inspected", False); continue
                after = coins_by_denom(ctx, after_coins)
                ob.require("C08.increase_creates_or_keeps_entry", p1)
                for d in set(before) | set(after) | {d_msg}:
                    base = zite(live, before.get(d, 0), 0)           # an expired entry restarts from zero
                    ob.require("C08.increase_adds_exactly_on_one_denom", after.get(d, 0) == base + (coin.get("amount") if d is d_msg else 0))
                ob.require("C08.distinct_denoms_preserved", zimplies(live, distinct_denoms(ctx, after_coins)) if live is not False else distinct_denoms(ctx, after_coins))
            else:
                ob.require("C08.decrease_needs_live_allowance", live)
                after = coins_by_denom(ctx, after_coins) if after_coins is not None else {}
                ob.require("C08.decrease_denom_was_granted", d_msg in before)
                for d in set(before) | set(after):
                    want = before.get(d, 0)
                    if d is d_msg: want = zite(before.get(d, 0) > coin.get("amount"), before.get(d, 0) - coin.get("amount"), 0)
                    ob.require("C08.decrease_saturates_on_one_denom", zite(p1, after.get(d, 0), 0) == zite(p1, want, 0))
                left = zor(*[(before.get(d, 0) if d is not d_msg else zite(before.get(d, 0) > coin.get("amount"), before.get(d, 0) - coin.get("amount"), 0)) > 0 for d in before]) if before else False
                ob.require("C08.entry_removed_iff_nothing_left", zeq(p1, left))
                if after_coins is not None: ob.require("C08.distinct_denoms_preserved", zimplies(p1, distinct_denoms(ctx, after_coins)))
            # expiry handling
            if exp_in is not None and exp_in.variant == "Some":
                en = expired(ctx, exp_in.fields[0], env)
                ob.require("C08.new_expiry_not_in_past", znot(en) if en is not None else False)
                if v1 is not None: ob.require("C08.new_expiry_installed", zimplies(p1, spec_eq(ctx, v1.get("expires"), exp_in.fields[0])))
            elif exp_in is not None and v1 is not None:
                if self.variant == "IncreaseAllowance":
                    e1 = expired(ctx, v1.get("expires"), env)
                    ob.require("C08.resulting_allowance_not_already_expired", znot(e1) if e1 is not None else False)
                # a call that names no expiry never moves the deadline of a live allowance (a top-up must not make it permanent) ...
                if v0 is not None and live is not False:
                    ob.require("C08.no_expiry_given_keeps_the_deadline", zimplies(zand(live, p1), spec_eq(ctx, v1.get("expires"), v0.get("expires"))))
                # ... and a grant that starts afresh without one never expires
                if self.variant == "IncreaseAllowance":
                    fresh_ok = is_never(ctx, v1.get("expires"))
                    ob.require("C08.fresh_grant_without_expiry_never_expires", zimplies(znot(live) if live is not False else True, fresh_ok))
        ob.witness("granted")
        ob.twin("twin.grant_calls_change_nothing", zand(all(spec_eq(ctx, s0[k][1], s1[k][1]) is True for k in s0 if k in s1) and len(s0) == len(s1), *[zeq(s0[k][0], s1[k][0]) for k in s0 if k in s1]))


def is_never(ctx, exp):
    e = lazy_forced(ctx, exp)
    return e is not None and e.variant == "Never"


class Ghost(VC):
    """cumulative bound per (subkey, denom): allowance + spent <= granted is preserved by every call (telescoping made a solver fact)"""
    property_id = "C08"
    crate = SK

    def __init__(self, variant):
        self.variant = variant
        self.name = f"C08.ghost.{variant}"

    def run(self, I, ctx, ob):
        U, al, alw, perm = subkeys_state(I, ctx, nsub=1, nadm=1)
        env, info = mk_env(I, ctx), mk_info(I, ctx)
        sender = info.get("sender")
        pre_coins = force_balance(I, ctx, alw.slots[0][2]).items
        if self.variant == "Execute":
            msgs = VecV([send_msg(I, ctx, "send0", 2)])
            m = EnumV("ExecuteMsg", "Execute", [msgs], ["msgs"])
        else:
            msg = symval.fresh(I, ctx, "msg::ExecuteMsg<Empty>", "msg", None, SK)
            msg.variants = [self.variant]
            m = I.force(ctx, msg)
        outcome, r, pre = call_entry(I, ctx, ob, SK, "execute", "execute", [make_deps(), env, info, m], env, info, m, "msg::ExecuteMsg<Empty>", SK)
        if outcome != "Ok": return
        k = (U[0],)
        p0, v0 = slot_map(pre["allowances"])[k]
        p1, v1 = slot_map(ctx.storage["allowances"]).get(k, (False, None))
        before = coins_by_denom(ctx, pre_coins)
        ac = coins_of(ctx, v1) if v1 is not None else None
        after = coins_by_denom(ctx, ac) if ac is not None else ({} if v1 is None else None)
        if after is None:
            # value never inspected by the call: unchanged
            after = before if v1 is v0 or spec_eq(ctx, v0, v1) is True else None
        if after is None:
            ob.require("C08.allowance_value_inspected", False); return
        adm = is_admin(I, ctx, pre, sender)
        is_me = ctx.atom_of(sender) is ctx.atom_of(U[0])
        spent_now = {}
        if self.variant == "Execute" and not adm and is_me:
            cs = lazy_forced(ctx, m.get("msgs").items[0].fields[0].get("amount"))
            spent_now = coins_by_denom(ctx, list(cs.items)) if cs is not None else {}
        grant_now = {}
        if self.variant == "IncreaseAllowance" and ctx.atom_of(m.get("spender")) is ctx.atom_of(U[0]):
            grant_now = {ctx.atom_of(m.get("amount").get("denom")): m.get("amount").get("amount")}
        for d in set(before) | set(after) | set(spent_now) | set(grant_now):
            g0 = ctx.fresh_int(f"granted[{d.name}]", 0, None); sp0 = ctx.fresh_int(f"spent[{d.name}]", 0, None)
            cur0, cur1 = zite(p0, before.get(d, 0), 0), zite(p1, after.get(d, 0), 0)
            ob.require("C08.cumulative_spend_within_grants", zimplies(cur0 + sp0 <= g0, cur1 + sp0 + spent_now.get(d, 0) <= g0 + grant_now.get(d, 0)))
        ob.witness("ok")
        ob.twin("twin.ghost_vacuous", False)


def vcs(tier):
    out = [Spend(1, 2), Spend(2, 1), Grant("IncreaseAllowance"), Grant("DecreaseAllowance"),
           Ghost("Execute"), Ghost("IncreaseAllowance"), Ghost("DecreaseAllowance"), Ghost("SetPermissions")]
    out += [Spend(1, 4)]
    if tier == "thorough": out += [Spend(2, 2)]
    return out


BOUNDS = {"subkeys with state": 2, "coins per allowance": "<= 2", "bank sends per call": "<= 2", "coins per send": "<= 2 (1 when two sends, quick)", "admins": "<= 1 listed",
          "amounts": "full u128", "expiry": "all three kinds, symbolic block"}
OUTSIDE = "allowances with more than 2 denominations, longer message lists (the deduction loop is uniform); histories by induction + ghost VC"
ASSUMPTIONS = ["representation invariant assumed in the pre-state and re-established in the post-state: pairwise distinct denoms in a stored NativeBalance"]
