"""C11 — cw20-ics20: escrow always covers outstanding vouchers, channel by channel."""
import z3
from mirsym.values import *
from mirsym import symval
from .common import *
from .ics20 import *
from .c12 import key_of


def holdings_cover(ctx, s, storage, holdings):
    cs = []
    for d in s.D:
        tot = zsum([zite(p, v.get("outstanding"), 0) for k, p, v in storage["channel_state"].slots if ctx.atom_of(k[1]) is ctx.find(d)])
        cs.append(holdings[d] >= tot)
    return zand(*cs)


def denom_of_payout(ctx, kind, tok):
    """the local denomination string a payout of (kind, token) corresponds to"""
    return tok if kind == "native" else ctx.find(ctx.shaped("pre", "cw20:", tok))


class Flow(VC):
    property_id = "C11"
    crate = CRATE

    def __init__(self, flow, sub_fails):
        self.flow, self.sub_fails = flow, sub_fails
        self.name = f"C11.{flow}.{'submsg_fails' if sub_fails else 'submsg_ok'}"

    def run(self, I, ctx, ob):
        s = ics20_state(I, ctx)
        env = mk_env(I, ctx)
        I.force(ctx, s.cfg.get("default_gas_limit"))
        hold = dict(s.holdings)
        # ghost per (channel, denom): tokens escrowed by transfers and tokens paid out (redemptions + refunds) on that channel
        esc, paid = {}, {}
        for k, p, v in ctx.storage["channel_state"].slots:
            kk = key_of(ctx, k[0], k[1])
            esc[kk] = ctx.fresh_int(f"escrowed[{k[0].name},{k[1].name}]", 0, None)
            paid[kk] = ctx.fresh_int(f"paid[{k[0].name},{k[1].name}]", 0, None)
            ctx.assume(paid[kk] + zite(p, v.get("outstanding"), 0) <= esc[kk])
        if self.flow == "receive":
            msg = mk_packet_receive(I, ctx)
            outcome, r, pre = call_entry(I, ctx, ob, CRATE, "ibc_packet_receive", "ibc_packet_receive", [make_deps(), env, msg], env, None, msg,
                                         "IbcPacketReceiveMsg", CRATE, result_ty="IbcReceiveResponse")
            chan = msg.get("packet").get("dest").get("channel_id")
            rid = RECEIVE_ID
        elif self.flow in ("ack", "timeout"):
            ty = "IbcPacketAckMsg" if self.flow == "ack" else "IbcPacketTimeoutMsg"
            ent = "ibc_packet_ack" if self.flow == "ack" else "ibc_packet_timeout"
            msg = symval.fresh(I, ctx, ty, "m", None, CRATE)
            outcome, r, pre = call_entry(I, ctx, ob, CRATE, ent, ent, [make_deps(), env, msg], env, None, msg, ty, CRATE, result_ty="IbcBasicResponse")
            pk = msg.get("original_packet") if self.flow == "ack" else msg.get("packet")
            chan = pk.get("src").get("channel_id")
            rid = ACK_FAILURE_ID
        if outcome != "Ok":
            ob.require("C11.receive_never_aborts", self.flow != "receive")
            return
        msgs = msgs_of(r)
        st1 = snapshot_storage(ctx.storage)
        o0, o1 = outstanding_map(ctx, pre), outstanding_map(ctx, st1)
        if len(msgs) == 0:
            ob.require("C11.nothing_released_means_no_balance_reduced", state_same(ctx, pre, st1))
            ob.witness("released_nothing")
            return
        po = payout_of(ctx, msgs[0]) if len(msgs) == 1 else None
        ob.require("C11.at_most_one_payout_per_packet", po is not None)
        if po is None: return
        kind, tok, rcpt, amt, gl = po
        den = denom_of_payout(ctx, kind, tok)
        k = (ctx.atom_of(chan), den)
        p0, out0, ts0 = o0.get(k, (False, 0, 0))
        ob.require("C11.payout_only_against_sufficient_balance_of_that_channel_and_denom", zand(p0, out0 >= amt))
        if self.flow == "receive":
            pkt_data = msg.get("packet").get("data")
            parsed = next((v for (i, t), v in ctx.bin_parse.items() if i == pkt_data.id), None)
            pkt = parsed[1] if parsed else None
            va = ctx.atom_of(pkt.get("denom")) if pkt is not None else None
            ok = va is not None and va.shape is not None and va.shape[0] == "split3"
            if ok:
                src = msg.get("packet").get("src")
                ok = (ctx.find(va.shape[2]) is ctx.atom_of(src.get("port_id")) and ctx.find(va.shape[3]) is ctx.atom_of(src.get("channel_id"))
                      and ctx.find(va.shape[4]) is den)
            ob.require("C11.release_only_for_vouchers_of_this_port_channel_and_denom", ok)
        if not self.sub_fails:
            # the payout executes: tokens leave the contract
            if den in [ctx.find(d) for d in s.D]:
                dd = [d for d in s.D if ctx.find(d) is den][0]
                hold[dd] = hold[dd] - amt
            final = st1
            paid[k] = paid.get(k, 0) + amt
        else:
            # the platform calls reply with the id the contract put on the failing sub-message
            rep = mk_reply(I, ctx, msgs[0].get("id"), False)
            o2, r2 = run_entry(I, ctx, fn(I, "reply", CRATE), [make_deps(), env, rep], st1)
            ob.require("C11.reply_never_fails", o2 == "Ok")
            if o2 != "Ok": return
            final = snapshot_storage(ctx.storage)
        ob.require("C11.holdings_cover_outstanding_per_denomination", holdings_cover(ctx, s, final, hold))
        of = outstanding_map(ctx, final)
        for kk in esc:
            p, out, ts = of.get(kk, (False, 0, 0))
            ob.require("C11.paid_out_never_exceeds_escrowed_per_channel_and_denom", paid[kk] + zite(p, out, 0) <= esc[kk])
        for kk in set(o0) | set(of):
            if kk == k: continue
            a, b = o0.get(kk, (False, 0, 0)), of.get(kk, (False, 0, 0))
            ob.require("C11.other_channels_and_denoms_untouched", zand(zeq(a[0], b[0]), zimplies(b[0], a[1] == b[1])))
        ob.witness("released", amt > 0)
        ob.twin("twin.holdings_never_change", False)


class Escrow(VC):
    """user transfers: the escrowed amount is credited to exactly the (channel, denom) balance it backs"""
    property_id = "C11"
    crate = CRATE

    def __init__(self, via):
        self.via = via
        self.name = f"C11.transfer.{via}"

    def run(self, I, ctx, ob):
        s = ics20_state(I, ctx)
        env, info = mk_env(I, ctx), mk_info(I, ctx)
        I.force(ctx, s.cfg.get("default_gas_limit"))
        hold = dict(s.holdings)
        msg = symval.fresh(I, ctx, "msg::ExecuteMsg", "msg", None, CRATE)
        msg.variants = ["Transfer" if self.via == "native" else "Receive"]
        m = I.force(ctx, msg)
        if self.via == "native":
            ctx.bounds["vec"] = 2
            funds = I.force(ctx, symval.fresh(I, ctx, "Vec<Coin>", "funds", None, CRATE))
            for c in funds.items: ctx._exclude(ctx.atom_of(c.get("denom")), ("pre", "cw20:"))
            info = info.with_("funds", funds)
        outcome, r, pre = call_entry(I, ctx, ob, CRATE, "execute", "execute", [make_deps(), env, info, m], env, info, m, "msg::ExecuteMsg", CRATE)
        if outcome != "Ok": return
        if self.via == "native":
            coin = info.get("funds").items[0]
            amount, den = coin.get("amount"), ctx.atom_of(coin.get("denom"))
        else:
            amount, den = m.fields[0].get("amount"), ctx.find(ctx.shaped("pre", "cw20:", info.get("sender")))
        # the platform / the cw20 token credited `amount` of `den` to the contract before this call
        for d in s.D:
            if ctx.find(d) is den: hold[d] = hold[d] + amount
        ob.require("C11.holdings_cover_outstanding_per_denomination", holdings_cover(ctx, s, ctx.storage, hold))
        o0, o1 = outstanding_map(ctx, pre), outstanding_map(ctx, ctx.storage)
        tm = m.fields[0] if self.via == "native" else next((v for (i, t), v in ctx.bin_parse.items() if i == m.fields[0].get("msg").id), (None, None))[1]
        k = (ctx.atom_of(tm.get("channel")), den)
        for kk in set(o0) | set(o1):
            a, b = o0.get(kk, (False, 0, 0)), o1.get(kk, (False, 0, 0))
            if kk == k:
                ob.require("C11.escrow_is_credited_to_the_balance_of_the_received_denomination_on_that_channel", zand(b[0], b[1] == zite(a[0], a[1], 0) + amount))
            else:
                ob.require("C11.other_channels_and_denoms_untouched", zand(zeq(a[0], b[0]), zimplies(b[0], a[1] == b[1])))
        ob.witness("escrowed", amount > 0)
        ob.twin("twin.transfer_escrows_nothing", state_same(ctx, pre, ctx.storage))


def vcs(tier):
    out = [Flow(f, b) for f in ("receive", "ack", "timeout") for b in (False, True)]
    out += [Escrow("native"), Escrow("cw20")]
    return out


BOUNDS = {"channels with state": 2, "cw20 tokens with state": 2, "native denominations with state": 1, "amounts": "full u128", "counterparty": "arbitrary packet bytes / denom / amount / receiver"}
OUTSIDE = "denominations beyond the universe are handled as fresh addresses with no balance (closed world); one ack-or-timeout per sent packet is an IBC-core assumption (a replayed ack is harmless only up to outstanding)"
ASSUMPTIONS = ["ghost holdings: info.funds / a spec-following cw20's Receive credited the contract before the call; a payout sub-message that succeeds moves exactly its amount",
               "bank denominations never start with `cw20:`", "a failing reply_on_error sub-message is rolled back and `reply` runs (platform rule)"]
