"""C14 (cw4-stake part): hooks hear bond/unbond driven weight changes truthfully; admin-only hook/admin management."""
import z3
from mirsym.values import *
from mirsym import symval
from .common import *
from .cw4 import *
from .c10 import stake_state, member_inv
from .c14 import hook_msgs_ok, replay_diffs


class Stake(VC):
    property_id = "C14"
    crate = STAKE

    def __init__(self, variant):
        self.variant = variant
        self.name = f"C14.stake.{variant}"

    def run(self, I, ctx, ob):
        U, cfg = stake_state(I, ctx, n=2, nclaims=1, nhooks=2)
        st = ctx.storage
        I.force(ctx, cfg.get("denom")); I.force(ctx, cfg.get("unbonding_period"))
        ctx.assume(cfg.get("min_bond") >= 1)
        env, info = mk_env(I, ctx), mk_info(I, ctx)
        sender = info.get("sender")
        msg = symval.fresh(I, ctx, "msg::ExecuteMsg", "msg", None, STAKE)
        msg.variants = [self.variant]
        m = I.force(ctx, msg)
        v = self.variant
        if v == "Bond":
            ctx.bounds["vec"] = 1
            info = info.with_("funds", symval.fresh(I, ctx, "Vec<Coin>", "funds", None, STAKE))
        outcome, r, pre = call_entry(I, ctx, ob, STAKE, "execute", "execute", [make_deps(), env, info, m], env, info, m, "msg::ExecuteMsg", STAKE)
        if outcome != "Ok": return
        post = ctx.storage
        adm = stored_admin(ctx, pre)
        by_admin = adm is not None and adm[0] and ctx.atom_of(adm[1]) is ctx.atom_of(sender)
        w0, w1 = weight_map(ctx, pre), weight_map(ctx, post)
        hp0, h0 = hooks_of(ctx, pre); hp1, h1 = hooks_of(ctx, post)
        hooks_same = zand(zeq(hp0, hp1), zor(znot(hp1), spec_eq(ctx, pre["cw4-hooks"].value, post["cw4-hooks"].value)))
        admin_same = spec_eq(ctx, pre["admin"].value, post["admin"].value)
        if v in ("UpdateAdmin", "AddHook", "RemoveHook"):
            ob.require("C14.hook_and_admin_management_is_admin_only", by_admin)
            ob.require("C14.management_calls_leave_membership_alone", zand(*[zand(zeq(w0[a][0], w1.get(a, (False, 0))[0]), zimplies(w0[a][0], w0[a][1] == w1.get(a, (False, 0))[1])) for a in w0]))
        else:
            ob.require("C14.hooks_and_admin_untouched_by_staking", zand(hooks_same, admin_same))
            staker = m.fields[0].get("sender") if v == "Receive" else sender
            changed = []
            for a in set(w0) | set(w1):
                p0, x0 = w0.get(a, (False, 0)); p1, x1 = w1.get(a, (False, 0))
                same = zand(zeq(p0, p1), zimplies(p1, x0 == x1))
                if a is not ctx.atom_of(staker):
                    ob.require("C14.only_the_staker_weight_changes", same)
            hooks = h0 if (h0 is not None and hp0 is not False) else []
            out = msgs_of(r)
            if v == "Claim":
                ob.require("C14.claim_sends_no_hook_messages", len(out) == 1 and out[0].get("msg").variant in ("Bank", "Wasm") and not _is_hook(out[0]))
            else:
                a = ctx.atom_of(staker)
                p0, x0 = w0.get(a, (False, 0)); p1, x1 = w1.get(a, (False, 0))
                same = zand(zeq(p0, p1), zimplies(p1, x0 == x1))
                if len(out) == 0:
                    ob.require("C14.silent_only_when_weight_unchanged_or_no_hooks", zor(same, len(hooks) == 0 or hp0 is False, znot(hp0) if not isinstance(hp0, bool) else False))
                    ob.witness("silent")
                else:
                    ok, diffs = hook_msgs_ok(ctx, r, hooks)
                    ob.require("C14.each_registered_hook_gets_exactly_one_notification", ok)
                    if diffs is not None:
                        ob.require("C14.notification_is_one_entry_for_the_staker", len(diffs.items) == 1 and ctx.atom_of(diffs.items[0].get("key")) is a)
                        truthful, cur = replay_diffs(ctx, w0, diffs)
                        ob.require("C14.notification_old_weights_are_true", truthful)
                        pc, xc = cur.get(a, (False, 0))
                        ob.require("C14.notification_new_weights_match_final_membership", zand(zeq(p1, pc), zimplies(p1, x1 == xc)))
                        ob.require("C14.no_notification_without_a_change", znot(same))
                        ob.witness("notified_stake")
        ob.witness("ok")
        ob.twin("twin.stake_weights_never_change", zand(*[zand(zeq(w0.get(a, (False, 0))[0], w1.get(a, (False, 0))[0]), zimplies(w1.get(a, (False, 0))[0], w0.get(a, (False, 0))[1] == w1.get(a, (False, 0))[1])) for a in set(w0) | set(w1)]) if v in ("Bond", "Unbond") else False)


def _is_hook(sm):
    cm = sm.get("msg")
    if cm.variant != "Wasm": return False
    pl = cm.fields[0].get("msg") if cm.fields[0].variant == "Execute" else None
    return isinstance(pl, JsonBin) and isinstance(pl.value, EnumV) and pl.value.variant == "MemberChangedHook"


def vcs(tier):
    return [Stake(v) for v in ("Bond", "Unbond", "Receive", "Claim", "UpdateAdmin", "AddHook", "RemoveHook")]
