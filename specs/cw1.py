"""Shared symbolic state / helpers for the cw1 proxies (C07, C08, C16, C17)."""
import z3
from mirsym.values import *
from mirsym import symval
from mirsym.ctx import ItemStore, MapStore
from .common import *
from .cw20 import lazy_forced, expired, spec_eq, resolve, slot_map

WL, SK = "cw1-whitelist", "cw1-subkeys"
NADM, NSUB, NCOIN = 2, 2, 2


def admin_state(I, ctx, crate, nadm=NADM):
    ctx.bounds["vec"] = nadm
    al = sym_item(I, ctx, "admin_list", "cw1_whitelist::state::AdminList" if crate == SK else "state::AdminList", crate, present=True)
    cw2_item(I, ctx, crate)
    return al


def subkeys_state(I, ctx, nsub=NSUB, ncoin=NCOIN, nadm=NADM, ordered=False):
    al = admin_state(I, ctx, SK, nadm)
    U = universe(ctx, nsub, "k", ordered=ordered)
    ctx.bounds["vec"] = ncoin
    alw = sym_map(I, ctx, "allowances", [(a,) for a in U], "state::Allowance", SK)
    perm = sym_map(I, ctx, "permissions", [(a,) for a in U], "state::Permissions", SK)
    return U, al, alw, perm


def force_balance(I, ctx, allowance):
    """make the coin list of an Allowance concrete (length fork) and assume the representation invariant: distinct denoms"""
    nb = allowance.get("balance")
    coins = I.force(ctx, nb.fields[0])
    ds = [c.get("denom") for c in coins.items]
    for i, a in enumerate(ds):
        for b in ds[i + 1:]:
            x, y = ctx.atom_of(a), ctx.atom_of(b)
            ctx.diseq.append((x, y)); ctx.assume(x.rank != y.rank)
    return coins


def admins_of(I, ctx, storage):
    v = lazy_forced(ctx, storage["admin_list"].value.get("admins"))
    return None if v is None else list(v.items)


def is_admin(I, ctx, storage, who):
    """python bool: is `who` in the stored admin list (decided on this path; forks to decide if not yet compared)"""
    adm = I.force(ctx, storage["admin_list"].value.get("admins"))
    return any(ctx.str_eq(a, who) for a in adm.items)


def coins_by_denom(ctx, coins):
    """{denom class root: total amount} over a concrete coin list"""
    out = {}
    for c in coins:
        r = ctx.atom_of(c.get("denom"))
        out[r] = out.get(r, 0) + c.get("amount")
    return out


def msg_kind(m):
    """('bank','Send') etc. for a forced CosmosMsg"""
    inner = m.fields[0]
    return m.variant, getattr(inner, "variant", None)
