"""C05 — cw3: passed proposals execute at most once; the lifecycle only moves forward."""
import z3
from mirsym.values import *
from mirsym import symval
from .common import *
from .cw3ms import *

ORDER = {"Pending": 0, "Open": 1, "Rejected": 2, "Passed": 2, "Executed": 3}


def msgs_are(ctx, out, want):
    if len(out) != len(want): return False
    ok = True
    for sm, m in zip(out, want):
        ok = zand(ok, spec_eq(ctx, sm.get("msg"), m), sm.get("reply_on").variant == "Never", sm.get("id") == 0, sm.get("gas_limit").variant == "None")
    return ok


class Step(VC):
    property_id = "C05"

    def __init__(self, crate, variant, after=None):
        self.crate, self.variant, self.after = crate, variant, after
        self.extra_crates = ("cw3",)
        self.name = f"C05.{'fixed' if crate == FIXED else 'flex'}." + (f"chain.{after}.then." if after else "") + variant

    def run(self, I, ctx, ob):
        f = ms_step(I, ctx, ob, self.crate, self.variant, after=self.after)
        if f.outcome != "Ok": return
        v = self.variant
        out = msgs_of(f.resp)
        p0p, p0 = slot_map(f.pre["proposals"])[(f.pid,)]
        p1p, p1 = focus_post(ctx, f)
        other0 = f.pre["proposals"].slots[1]; other1 = f.post["proposals"].slots[1]
        ob.require("C05.other_proposals_untouched", zand(zeq(other0[1], other1[1]), spec_eq(ctx, other0[2], other1[2])))
        cur0 = I.force(ctx, kernel(I, ctx, "current_status", p0, f.blk)) if f.on_focus else None
        if v == "Execute":
            ob.require("C05.execute_targets_existing_proposal", f.on_focus is True)
            if not f.on_focus: return
            ob.require("C05.execute_only_while_passed", cur0.variant == "Passed")
            want = list(I.force(ctx, p0.get("msgs")).items)
            dep = lazy_forced(ctx, p0.get("deposit")) if self.crate == FLEX else None
            if dep is not None and dep.variant == "Some":
                ob.require("C05.execute_dispatches_refund_then_exactly_the_proposed_messages", len(out) == len(want) + 1 and msgs_are(ctx, out[1:], want))
            else:
                ob.require("C05.execute_dispatches_exactly_the_proposed_messages", msgs_are(ctx, out, want))
            ob.require("C05.executed_is_recorded", zand(p1p, status_is(ctx, p1, "Executed"), prop_fields_same(ctx, p0, p1, ("status",))))
            if self.crate == FLEX:
                ex = lazy_forced(ctx, f.cfg.get("executor"))
                if ex is not None and ex.variant == "Some":
                    e = lazy_forced(ctx, ex.fields[0])
                    if e is not None and e.variant == "Only":
                        ob.require("C05.execute_only_by_authorised_caller", ctx.atom_of(e.fields[0]) is ctx.atom_of(f.sender))
                    elif e is not None and e.variant == "Member":
                        ob.require("C05.execute_only_by_authorised_caller", f.si is not None and f.genv.now[f.V[f.si]][0])
                    else:
                        ob.require("C05.execute_only_by_authorised_caller", False)
            ob.witness("executed_with_msgs", len(want) > 0)
        elif v == "Close":
            ob.require("C05.close_targets_existing_proposal", f.on_focus is True)
            if not f.on_focus: return
            e = expired(ctx, p0.get("expires"), f.env)
            ob.require("C05.close_only_when_expired_and_not_passed", zand(e if e is not None else False, cur0.variant not in ("Passed", "Executed")))
            ob.require("C05.closed_is_recorded_rejected", zand(p1p, status_is(ctx, p1, "Rejected"), prop_fields_same(ctx, p0, p1, ("status",))))
            want = list(lazy_forced(ctx, p0.get("msgs")).items) if lazy_forced(ctx, p0.get("msgs")) is not None else []
            ob.require("C05.close_never_dispatches_proposal_messages", len(out) <= 1 and not any(spec_eq(ctx, sm.get("msg"), w) is True for sm in out for w in want) if self.crate == FLEX else len(out) == 0)
            ob.witness("closed")
        elif v == "Vote":
            ob.require("C05.vote_dispatches_nothing", len(out) == 0)
            if f.on_focus:
                ob.require("C05.vote_changes_only_status_and_tally", zand(p1p, prop_fields_same(ctx, p0, p1, ("status", "votes"))))
                same = zand(*[zeq(status_is(ctx, p0, n), status_is(ctx, p1, n)) for n in ORDER])
                ob.require("C05.stored_status_only_moves_forward", zor(same, zand(status_is(ctx, p0, "Open"), zor(status_is(ctx, p1, "Passed"), status_is(ctx, p1, "Rejected")))))
                ob.witness("voted")
        elif v == "Propose":
            cnt0, cnt1 = f.pre["proposal_count"], f.post["proposal_count"]
            newid = zite(cnt0.present, cnt0.value, 0) + 1
            ob.require("C05.ids_unique_and_increasing", zand(cnt1.present is True, cnt1.value == newid))
            news = [s for s in f.post["proposals"].slots[2:]]
            ob.require("C05.propose_creates_exactly_one_proposal", len(news) == 1 and news[0][1] is True)
            if len(news) == 1:
                ob.require("C05.new_id_is_the_next_counter_value", news[0][0][0] == newid)
                np_ = news[0][2]
                ob.require("C05.existing_focus_untouched", zand(zeq(p0p, p1p), spec_eq(ctx, p0, p1)))
                ob.require("C05.proposal_content_as_submitted", zand(spec_eq(ctx, np_.get("msgs"), f.msg.get("msgs")), spec_eq(ctx, np_.get("title"), f.msg.get("title")),
                           spec_eq(ctx, np_.get("description"), f.msg.get("description")), np_.get("start_height") == f.blk.get("height"),
                           spec_eq(ctx, np_.get("threshold"), f.cfg.get("threshold")), ctx.atom_of(np_.get("proposer")) is ctx.atom_of(f.sender)))
                # expiry never later than the maximum voting period
                mx = lazy_forced(ctx, f.cfg.get("max_voting_period"))
                ex = lazy_forced(ctx, np_.get("expires"))
                ok = False
                if mx is not None and ex is not None:
                    if mx.variant == "Height" and ex.variant == "AtHeight": ok = ex.fields[0] <= f.blk.get("height") + mx.fields[0]
                    if mx.variant == "Time" and ex.variant == "AtTime": ok = ex.fields[0] <= f.blk.get("time") + mx.fields[0] * 10 ** 9
                ob.require("C05.expiry_not_later_than_max_voting_period", ok)
                ob.witness("proposed")
            if self.crate == FIXED: ob.require("C05.propose_dispatches_nothing", len(out) == 0)
        elif v == "MemberChangedHook":
            ob.require("C05.hook_changes_nothing", zand(zeq(p0p, p1p), spec_eq(ctx, p0, p1), len(out) == 0))
        ob.witness("ok")
        ob.twin("twin.status_never_changes", spec_eq(ctx, p0.get("status"), p1.get("status")) if (v in ("Execute", "Close") and f.on_focus and p1 is not None) else False)


class Time(VC):
    """the status a query reports only moves forward as blocks pass (no call in between)"""
    property_id = "C05"
    crate = "cw3"

    def __init__(self, kind):
        self.kind = kind
        self.name = f"C05.time.{kind}"

    def run(self, I, ctx, ob):
        from .c04 import mk_proposal
        stored = ["Open", "Rejected", "Passed", "Executed"][ctx.choose([True] * 4, "stored status")]
        prop, blk, d = mk_proposal(I, ctx, self.kind, False, True, status=stored)
        ob.outcome = "ret"
        h2 = ctx.fresh_int("later.height", 0, U64); ctx.assume(h2 >= blk.get("height"))
        d["h"], d["eh"], d["h2"], d["stored"] = blk.get("height"), prop.get("expires").fields[0], h2, stored
        ob.info["time"] = d
        blk2 = Struct("BlockInfo", [h2, blk.get("time"), "chain"], blk.names)
        inv = zand(zimplies(stored == "Passed", kernel(I, ctx, "is_passed", prop, blk)))
        ctx.assume(inv)
        s1 = I.force(ctx, kernel(I, ctx, "current_status", prop, blk))
        s2 = I.force(ctx, kernel(I, ctx, "current_status", prop, blk2))
        ob.require("C05.observed_status_only_moves_forward_with_time", ORDER[s2.variant] >= ORDER[s1.variant] and (s1.variant == s2.variant or s1.variant == "Open"))
        ob.witness("expires_in_between", zand(h2 >= d["eh"] if "eh" in d else True))
        ob.witness("ok")
        ob.twin("twin.status_never_changes_with_time", s1.variant == s2.variant)

    def replay(self, I, v):
        """two native probes of the cw3 library (scenario cw3_kernel): the same stored proposal observed at the earlier and at the later block"""
        from mirsym import replay, serial
        d = v.info["time"]
        ev = serial.Concretizer(I, v.ctx, v.model, None).ev
        thr = {"AbsoluteCount": lambda: {"absolute_count": {"weight": ev(d["w"])}},
               "AbsolutePercentage": lambda: {"absolute_percentage": {"percentage": serial.dec_str(ev(d["p"]))}},
               "ThresholdQuorum": lambda: {"threshold_quorum": {"threshold": serial.dec_str(ev(d["t"])), "quorum": serial.dec_str(ev(d["q"]))}}}[d["kind"]]()
        base = {"threshold": thr, "total_weight": ev(d["total"]),
                "votes": {"yes": ev(d["yes"]), "no": ev(d["no"]), "abstain": ev(d["ab"]), "veto": ev(d["veto"])},
                "expires": {"at_height": ev(d["eh"])}, "status": d["stored"].lower()}
        reqs = [{"mode": "scenario", "name": "cw3_kernel", "params": dict(base, block={"height": ev(d[k]), "time": "0"})} for k in ("h", "h2")]
        a, b = replay.run(reqs[0]), replay.run(reqs[1])
        out = {"request": reqs[0], "request_later": reqs[1], "native": {"earlier": a, "later": b}}
        if a.get("result") != "ok" or b.get("result") != "ok":
            out["reproduced"] = False; out["why"] = "native kernel did not return a status"
            return out
        s1, s2 = str(a.get("current_status")).capitalize(), str(b.get("current_status")).capitalize()
        fwd = ORDER.get(s2, -1) >= ORDER.get(s1, 99) and (s1 == s2 or s1 == "Open")
        out["reproduced"] = not fwd
        out["observed"] = f"{s1} at height {ev(d['h'])} -> {s2} at height {ev(d['h2'])}"
        if fwd: out["why"] = "natively the observed status moves forward"
        return out


def vcs(tier):
    out = [Step(FIXED, v) for v in ("Propose", "Vote", "Execute", "Close")]
    out += [Step(FLEX, v) for v in ("Propose", "Vote", "Execute", "Close", "MemberChangedHook")]
    out += [Time(k) for k in ("AbsoluteCount", "AbsolutePercentage", "ThresholdQuorum")]
    # two-call chains on one proposal (the second call is judged on the state the first really left behind)
    CH = ("Vote", "Execute", "Close")
    pairs = [(a, b) for a in CH for b in CH] if tier == "thorough" else []       # quick: single steps only (a flex chain takes minutes)
    for c in (FIXED, FLEX):
        out += [Step(c, b, after=a) for a, b in pairs]
    return out


BOUNDS = {"voters / group members with state": NV, "proposals with state": "1 focus (symbolic id, arbitrary content) + 1 bystander", "messages per proposal": "<= 1",
          "weights": "full u64", "thresholds": "all three kinds, valid", "expiry": "all kinds, symbolic block"}
OUTSIDE = ("proposals with more messages (relay loop uniform); re-entrancy and failed dispatch are covered by the platform rule that messages are "
           "dispatched after the state write and a failing message without reply reverts the transaction (status back to Passed)")
ASSUMPTIONS = ["C06's invariant: recorded tally = sum of ballots <= total weight (flex: group snapshot at start height)",
               "thresholds stored in config/proposals were validated at instantiation"]
