#!/bin/bash
# run every registered quick (or thorough) check sequentially; print one line per property
tier=${1:-quick}
cd /verif
for i in $(seq -w 1 20); do
  p=C$i
  s=$(date +%s)
  out=$(./check $p --tier $tier 2>&1); code=$?
  e=$(date +%s)
  echo "$p exit=$code $((e-s))s $(echo "$out" | grep -E 'holds within|VIOLATION|INCONCLUSIVE|KNOWN-FINDING' | head -3 | cut -c1-160 | tr '\n' '|')"
done
