#!/usr/bin/env python3
"""regenerate MANIFEST.json from the table below (keeps it schema-valid and the not_applicable list current)"""
import json, os
V = os.path.dirname(os.path.dirname(os.path.abspath(__file__)))
TECH = "solver-based: symbolic execution of rustc MIR (regenerated from /repo each run) + SMT (z3 5.1), inductive step VCs, native replay of counterexamples"
NOTE = ("bounded (see evidence.coverage.bounds); trusted: hand models of cosmwasm-std / cw-storage-plus core / Rust std listed in evidence.models_used, "
        "the platform rollback rule, closed-world storage; dependency crates cw-utils/cw-controllers/cw2/snapshot layer are interpreted from their own MIR")
CHECKS = {
 "C01": "Inductive VCs over the real MIR of cw20-base instantiate/execute/query: invariant supply = sum of balances, exact supply/balance deltas per call kind, for every u128 amount, every sender/recipient aliasing and every pre-state within the universe bound.",
 "C02": "Per-call frame and allowance VCs over the real MIR of all twelve cw20 execute variants (who may lose balance, exact moved amount, allowance lowered exactly, expiry respected, Send/SendFrom notification exact) plus a ghost-counter VC that turns the cumulative 'never more than granted' bound into a solver fact.",
 "C13": "Inductive VCs: supply rises only in a Mint by the stored minter and stays within the cap; the minter record changes only in UpdateMinter by the minter and keeps the cap; mint=None is absorbing under every execute variant and migrate; instantiate establishes the cap invariant.",
 "C19": "Inductive VC that the owner- and spender-indexed allowance maps mirror each other under every execute variant, that migrate from a pre-0.14 layout builds the mirror (semver comparison symbolic), and a relational VC that the three allowance queries agree on amount and expiry.",
 "C04": "Solver VCs over the real MIR of the cw3 threshold kernel (votes_needed, is_passed, is_rejected, current_status) for every u64 tally and every valid threshold: exact round-up for <= 9 decimals, within one vote and never stricter for 18, never Passed without Yes weight, early decisions sound against every completion of the outstanding votes, never both passed and rejected; non-linear queries decided by z3 5.1.",
 "C07": "VCs over the real MIR of cw1-whitelist and cw1-subkeys Execute for every list (<= 2) of CosmosMsg of every compiled variant: success implies the relayed sub-messages are exactly the submitted ones (order, no reply, no gas limit) and the caller is an admin or every message is individually covered by the caller's pre-state grants (cumulative per denom for bank sends, permission flags for staking/distribution).",
 "C08": "VCs over cw1-subkeys Execute/IncreaseAllowance/DecreaseAllowance with cw-utils NativeBalance interpreted from its own MIR: per-denomination exact deduction across all coins and messages of a call, expiry, untouched bystanders, admin-only grants with restart-from-zero on expired entries and saturating decrease, the distinct-denom representation invariant, and a ghost-counter VC for the cumulative spend bound.",
 "C16": "Relational VC: on one arbitrary symbolic state, valid sender and CosmosMsg, query_can_execute and execute_execute([msg]) are both run from MIR and the query's answer must equal the execute's success, for both proxies and every message variant.",
 "C17": "Step VCs for every execute variant of both proxies plus instantiate: the admin list/flag change only in UpdateAdmins/Freeze by a listed admin while mutable, mutable=false is absorbing, allowances/permissions change only by admins or by the subkey's own spend.",
 "C09": "Step VCs over cw4-group UpdateMembers and cw4-stake Bond/Unbond with cw-storage-plus SnapshotMap/SnapshotItem interpreted from their own MIR: for a symbolic query height h, block height H and arbitrary earlier changelog, one call leaves every at-height answer for h <= H unchanged and makes every answer for h > H the new current value (members and, for cw4-group, total); instantiate base case; TOTAL = sum of members; raw keys published by cw4 evaluated from MIR against the storage layout.",
 "C10": "Inductive VCs over cw4-stake Bond/Receive/Unbond/Claim (cw-controllers Claims and cw-utils Duration/Expiration from their MIR): only the configured token is accepted, stake changes only for the staker by exactly the amount, one claim per unbond released exactly one period later, Claim pays exactly the matured claims once, ghost holdings >= stakes + claims, member iff stake >= min_bond with weight = exact integer quotient (non-linear, z3).",
 "C14": "Step VCs for every execute variant of cw4-group and cw4-stake (cw-controllers Admin/Hooks from their MIR): state changes only by the stored admin (or the staker's own bond/unbond), one MemberChangedHook per registered hook in order with identical diffs, and a replay oracle: applying the reported diffs in order to the pre-state membership reproduces each reported old weight and the final membership.",
 "C03": "Step VCs over Propose/Vote/Execute/Close of both multisigs (cw3 current_status/update_status and Votes::add_vote from MIR): recorded tally = sum of recorded ballots, every stored Passed/Rejected status is one the threshold kernel derives from that tally, Execute/Close are admitted exactly on the derived status, queries report current_status of the stored proposal. The kernel's arithmetic meaning is C04's; here it is an uninterpreted function constrained by the facts C04 proves.",
 "C05": "Step VCs for every execute variant of both multisigs plus a time-passage VC: messages are dispatched only by Execute on a derived-Passed proposal (authorised caller for flex), exactly as proposed with no reply, status recorded Executed so a repeated/re-entrant Execute fails; Close only when expired and not passed and relays nothing; stored and observed status only move forward; ids = counter + 1; content fixed at creation; expiry <= max voting period.",
 "C06": "VCs over cw3-fixed-multisig instantiate (every voter list incl. repeated addresses / zero weights) and Propose/Vote/Execute/Close/MemberChangedHook of both multisigs: one ballot per voter and proposal, only before expiry/execution, ballot weight = the voter's weight in the proposal's snapshot (fixed list, or the group at the start of the proposal's block through a symbolic group-history environment), proposal total = sum of that snapshot, membership changes never alter ballots or totals. Known finding (flex, same-block group change) is matched by signature.",
 "C15": "VCs over cw3-flex-multisig Propose/Vote/Execute/Close with cw3 DepositInfo from MIR: a native deposit must be paid exactly, a cw20 deposit is pulled by exactly one TransferFrom from the proposer, the deposit is returned only by Execute (always) or Close (iff refunds for failed proposals are promised), only to the proposer, for the recorded amount, together with a final status; plus a recoverability VC (expired failed proposal with promised refund can be closed) whose known violation is matched by signature.",
}
PENDING = {}
ALL = [f"C{i:02d}" for i in range(1, 21)]
checks = []
for pid in ALL:
    if pid in CHECKS and os.path.exists(os.path.join(V, "specs", pid.lower() + ".py")):
        checks.append({
            "property_id": pid, "quick_cmd": f"./check {pid} --tier quick", "thorough_cmd": f"./check {pid} --tier thorough",
            "evidence_file": f"/verif/evidence/{pid}.json", "replay_cmd_template": f"./check {pid} --replay {{path}}", "engine": "mirsym",
            "level_claimed": {"category": "model_checking", "text": CHECKS[pid], "design_ref": f"DESIGN.md §4 {pid}"},
            "level_note": NOTE, "technique": TECH})
na = [{"property_id": p, "reason": PENDING.get(p, "check not built yet in this round (solver-based VC planned in DESIGN.md §4); not claimed until it exits 0 on the unchanged tree")}
      for p in ALL if p not in [c["property_id"] for c in checks]]
m = {"version": 1, "setup_cmd": "cd /verif && ./setup.sh",
     "hooks": {"guard": "cosmwasm_cw_plus_verif",
               "enable": "no hooks are needed: the checks read rustc's MIR of /repo's working tree (private items included) and replay through public entry points",
               "baseline_off_cmd": "cd /repo && cargo test --workspace --no-fail-fast --offline", "source_commits": [], "add_only": True},
     "engines": [{"name": "mirsym", "path": "/verif/mirsym", "serves_properties": [c["property_id"] for c in checks],
                  "kind_free_text": "symbolic execution of rustc MIR (regenerated from /repo on every run) + z3 5.1; counterexamples replayed on the native contracts (/verif/replay)"}],
     "checks": checks, "not_applicable": na,
     "notes": "exit 0 = all obligations unsat within bounds; exit 1 = VIOLATION reproduced natively; exit 2 = inconclusive (never counted as pass)"}
json.dump(m, open(os.path.join(V, "MANIFEST.json"), "w"), indent=1)
print(len(checks), "checks;", len(na), "not claimed")
