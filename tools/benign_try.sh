#!/bin/bash
# usage: benign_try.sh <patch.diff> <property>...   -- applies a behaviour-preserving patch to /repo, runs the checks (must exit 0), reverts
patch=$(readlink -f $1); shift
[ -n "$(git -C /repo status --short)" ] && { echo "/repo working tree is not clean"; exit 3; }
git -C /repo apply "$patch" || { echo "PATCH DOES NOT APPLY"; exit 3; }
cd /verif
rc=0
for p in "$@"; do
  t0=$(date +%s); out=$(./check $p ${VERIF_TIER:+--tier $VERIF_TIER} 2>&1); code=$?; t1=$(date +%s)
  echo "$(basename $(dirname $patch))/$(basename $patch) $p exit=$code seconds=$((t1-t0))"
  if [ $code -ne 0 ]; then rc=1; echo "$out" | grep -E "VIOLATION|INCONCLUSIVE|crash|Unsupported|unsupported" | cut -c1-400 | head -6; fi
done
git -C /repo checkout -- .
exit $rc
