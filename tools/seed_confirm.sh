#!/bin/bash
# usage: seed_confirm.sh <dir with patch.diff and demo.diff> <demo cargo test args...>
# fresh scratch worktree of /repo HEAD: (a) demo alone passes, (b) demo + defect fails, (c) defect alone: the unedited suite passes
src=$1; shift
W=/tmp/wt/confirm
git -C /repo worktree remove --force $W 2>/dev/null
git -C /repo worktree add -q --detach $W HEAD || exit 3
export CARGO_TARGET_DIR=/tmp/wt/confirm-target CARGO_NET_OFFLINE=true
cd $W
git apply $src/demo.diff || { echo "demo.diff does not apply"; exit 3; }
echo "[a] demo on original code:      $(cargo test --offline "$@" 2>&1 | grep -E '^test result' | tr '\n' ' ')"
git apply $src/patch.diff || { echo "patch.diff does not apply"; exit 3; }
echo "[b] demo with the defect:       $(cargo test --offline "$@" 2>&1 | grep -E '^test result' | tr '\n' ' ')"
git apply -R $src/demo.diff
git status --short | tr '\n' ' '; echo
echo "[c] unedited suite with defect: $(cargo test --workspace --offline 2>&1 | grep -E '^test result' | awk '{p+=$4; f+=$6} END {print "passed",p,"failed",f}')"
cd / && git -C /repo worktree remove --force $W
