#!/usr/bin/env python3
"""store a confirmed seeded change under /verif/seeded/<name>/  usage: seed_store.py <src dir> <name> <property> <caught_by> <demo cmd> <needs...>"""
import json, os, shutil, sys
src, name, prop, caught, democmd, needs = sys.argv[1:7]
d = f"/verif/seeded/{name}"
os.makedirs(d, exist_ok=True)
for f in ("patch.diff", "demo.diff", "NOTES.md"):
    if os.path.exists(os.path.join(src, f)): shutil.copy(os.path.join(src, f), os.path.join(d, f))
meta = {"breaks_property": prop, "needs_to_manifest": needs,
        "confirmed": {"how": "fresh scratch worktree of /repo HEAD (tools/seed_confirm.sh): demo alone passes; demo + patch fails; patch alone: unedited workspace suite passes (176 tests)",
                      "demo_cmd": "cargo test --offline " + democmd},
        "detected_by": caught, "how_checked": "tools/seed_try.sh <patch.diff> <property>  (git apply to /repo, ./check, git checkout -- .)",
        "origin": "independent sub-agent given only the property text and its own scratch worktree"}
json.dump(meta, open(os.path.join(d, "meta.json"), "w"), indent=1)
print("stored", d)
