#!/usr/bin/env python3
"""apply a textual mutation to /repo, run a check, revert.  usage: mut.py <file> <old> <new> <check args...>"""
import subprocess, sys
f, old, new = sys.argv[1:4]
p = '/repo/' + f
s = open(p).read()
if s.count(old) < 1: print("PATTERN NOT FOUND"); sys.exit(3)
open(p, 'w').write(s.replace(old, new, 1))
try:
    r = subprocess.run(['/verif/check'] + sys.argv[4:], stdout=subprocess.PIPE, stderr=subprocess.STDOUT)
    out = r.stdout.decode()
    lines = [l for l in out.splitlines() if l.startswith(('VIOLATION', 'INCONCLUSIVE', 'KNOWN')) or 'holds within' in l or 'Error' in l or 'error' in l]
    print('\n'.join(l[:300] for l in lines[:8])); print('exit', r.returncode)
finally:
    subprocess.run(['git', '-C', '/repo', 'checkout', '--', '.'])
