#!/bin/bash
# usage: seed_try.sh <patch.diff> <property> [more check args]   -- applies the patch to /repo, runs the check, reverts
patch=$1; shift
cd /repo && git apply "$patch" || { echo "PATCH DOES NOT APPLY"; exit 3; }
cd /verif && out=$(./check "$@" 2>&1); code=$?
echo "$out" | grep -E "VIOLATION|INCONCLUSIVE|KNOWN-FINDING|holds within" | cut -c1-330 | head -8
echo "exit=$code"
git -C /repo checkout -- . ; git -C /repo status --short | head -3
