#!/bin/bash
# re-run every stored seeded change against the property it breaks (quick tier); prints one line per seed.
# never run concurrently with another check (it patches /repo's working tree and restores it afterwards)
cd /verif
[ -n "$(git -C /repo status --short)" ] && { echo "/repo working tree is not clean"; exit 3; }
fail=0
for d in /verif/seeded/*/; do
  n=$(basename $d); p=$(python3 -c "import json;print(json.load(open('$d/meta.json'))['breaks_property'])")
  git -C /repo apply $d/patch.diff || { echo "$n: patch does not apply"; fail=1; continue; }
  tier=$(python3 -c "import json;print(json.load(open('$d/meta.json')).get('tier','quick'))")
  t0=$(date +%s); out=$(./check $p --tier ${VERIF_TIER:-$tier} 2>&1); code=$?; t1=$(date +%s)
  git -C /repo checkout -- .
  nv=$(echo "$out" | grep -c "^VIOLATION property=$p")
  echo "$n property=$p tier=${VERIF_TIER:-$tier} exit=$code violations=$nv seconds=$((t1-t0))"
  [ $code -ne 1 ] && fail=1
done
exit $fail
