#!/bin/bash
# every stored behaviour-preserving edit (benign/<prop>/benignN.diff) against every property whose crates it touches: all must exit 0
# never run concurrently with another check (it patches /repo's working tree and restores it afterwards)
cd /verif
props_for() {   # diff file -> properties whose checks read the touched crates
  local out=""
  grep -q "^+++ b/contracts/cw20-base\|^+++ b/packages/cw20/" $1 && out="$out C01 C02 C13 C19 C20"
  grep -q "^+++ b/contracts/cw3-\|^+++ b/packages/cw3/" $1 && out="$out C03 C04 C05 C06 C15 C20"
  grep -q "^+++ b/contracts/cw1-\|^+++ b/packages/cw1/" $1 && out="$out C07 C08 C16 C17 C20"
  grep -q "^+++ b/contracts/cw4-\|^+++ b/packages/cw4/" $1 && out="$out C09 C10 C14 C20"
  grep -q "^+++ b/packages/cw4/" $1 && out="$out C03 C05 C06 C15"
  grep -q "^+++ b/contracts/cw20-ics20" $1 && out="$out C11 C12 C18 C20"
  grep -q "^+++ b/packages/\(controllers\|utils\|cw2\|storage\)" $1 && out="C01 C02 C03 C04 C05 C06 C07 C08 C09 C10 C11 C12 C13 C14 C15 C16 C17 C18 C19 C20"
  echo $out | tr ' ' '\n' | sort -u | tr '\n' ' '
}
fail=0
for f in ${@:-benign/*/benign*.diff}; do
  tools/benign_try.sh $f $(props_for $f) || fail=1
done
exit $fail
