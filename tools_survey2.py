import sys, glob, re, collections
sys.path.insert(0, '/verif')
from mirsym import mirparse
callees=collections.Counter()
for p in sorted(glob.glob('/verif/.work/mir/*.mir')):
    cr=p.split('/')[-1][:-4]
    if cr.startswith('dep_cw-storage'): continue
    fs = mirparse.parse_file(p, cr)
    for n,f in fs.items():
        if n.startswith('!unparsed'): continue
        if re.search(r"(^|::)_::|serde|schemars|JsonSchema|Serialize|Deserialize|::fmt$|response_schemas|::eq$|::clone$", n): continue
        for b,(st,term) in f.blocks.items():
            if term[0]=='call' and term[2][0]=='direct':
                c=re.sub(r"\{closure@[^}]*\}","{closure}",mirparse.strip_generics(term[2][1]))
                callees[c]+=1
for k,v in sorted(callees.items()): print(v,k)
