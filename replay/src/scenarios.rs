//! cw-multi-test scenarios. Each scenario is `fn(&Value) -> Value` (params in, result JSON out).
//! Add new scenarios by writing a function and adding an arm to `dispatch`.

use cw_multi_test::App;
use serde_json::{json, Value};

/// Returns None when the scenario name is unknown.
pub fn dispatch(name: &str, params: &Value) -> Option<Value> {
    let f: fn(&Value) -> Value = match name {
        "noop" => noop,
        "cw3_kernel" => cw3_kernel,
        _ => return None,
    };
    Some(f(params))
}

fn noop(_params: &Value) -> Value {
    // Creates an App so that cw-multi-test is really linked.
    let app = App::default();
    let _ = app.block_info();
    json!({ "result": "ok" })
}


/// cw3 threshold kernel on a concrete proposal: params {threshold, total_weight, votes:{yes,no,abstain,veto}, expires, status, block:{height,time}}
fn cw3_kernel(p: &Value) -> Value {
    use cosmwasm_std::{Addr, BlockInfo, Timestamp};
    use cw3::{Proposal, Status, Votes};
    use cw_utils::{Expiration, Threshold};
    let threshold: Threshold = match serde_json::from_value(p["threshold"].clone()) { Ok(t) => t, Err(e) => return json!({"result": "bad_params", "error": e.to_string()}) };
    let expires: Expiration = match serde_json::from_value(p["expires"].clone()) { Ok(t) => t, Err(e) => return json!({"result": "bad_params", "error": e.to_string()}) };
    let status: Status = serde_json::from_value(p["status"].clone()).unwrap_or(Status::Open);
    let u = |v: &Value| -> u64 { v.as_u64().or_else(|| v.as_str().and_then(|s| s.parse().ok())).unwrap_or(0) };
    let votes = Votes { yes: u(&p["votes"]["yes"]), no: u(&p["votes"]["no"]), abstain: u(&p["votes"]["abstain"]), veto: u(&p["votes"]["veto"]) };
    let prop = Proposal {
        title: "t".into(), description: "d".into(), start_height: 1, expires, msgs: vec![], status, threshold,
        total_weight: u(&p["total_weight"]), votes, proposer: Addr::unchecked("proposer"), deposit: None,
    };
    let block = BlockInfo { height: u(&p["block"]["height"]), time: Timestamp::from_nanos(u(&p["block"]["time"])), chain_id: "chain".into() };
    let r = std::panic::catch_unwind(std::panic::AssertUnwindSafe(|| {
        (prop.is_passed(&block), prop.is_rejected(&block), prop.current_status(&block))
    }));
    match r {
        Ok((a, b, c)) => json!({"result": "ok", "is_passed": a, "is_rejected": b, "current_status": serde_json::to_value(c).unwrap()}),
        Err(_) => json!({"result": "panic"}),
    }
}
