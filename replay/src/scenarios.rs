//! cw-multi-test scenarios. Each scenario is `fn(&Value) -> Value` (params in, result JSON out).
//! Add new scenarios by writing a function and adding an arm to `dispatch`.

use cw_multi_test::App;
use serde_json::{json, Value};

/// Returns None when the scenario name is unknown.
pub fn dispatch(name: &str, params: &Value) -> Option<Value> {
    let f: fn(&Value) -> Value = match name {
        "noop" => noop,
        _ => return None,
    };
    Some(f(params))
}

fn noop(_params: &Value) -> Value {
    // Creates an App so that cw-multi-test is really linked.
    let app = App::default();
    let _ = app.block_info();
    json!({ "result": "ok" })
}
