//! Native replay of cw-plus contract entry points on concrete JSON inputs.
//!
//! usage: replay <request.json | ->
//! Prints exactly one JSON document on stdout. Exit code 0 unless the request itself is
//! malformed (exit 2, stdout = {"result":"bad_request","error":...}).

mod scenarios;

use std::collections::BTreeMap;
use std::fmt::{Debug, Display};
use std::io::Read;
use std::marker::PhantomData;
use std::panic::{catch_unwind, AssertUnwindSafe};
use std::sync::Mutex;

use base64::{engine::general_purpose::STANDARD as B64, Engine};
use cosmwasm_std::testing::{mock_env, MockApi, MockStorage};
use cosmwasm_std::{
    from_json, to_json_binary, Addr, AllBalanceResponse, BalanceResponse, BankQuery, Binary, Coin,
    ContractResult, Empty, MessageInfo, Order, OwnedDeps, Querier, QuerierResult, QueryRequest,
    Storage, SystemError, SystemResult, Timestamp, Uint128, WasmQuery,
};
use serde::de::DeserializeOwned;
use serde::{Deserialize, Serialize};
use serde_json::{json, Map, Value};

// ---------------------------------------------------------------------------------------------
// request types

#[derive(Deserialize)]
struct StepReq {
    contract: String,
    entry: String,
    #[serde(default)]
    storage: Vec<(String, String)>,
    #[serde(default)]
    env: EnvReq,
    #[serde(default)]
    info: Option<InfoReq>,
    msg: Value,
    #[serde(default)]
    querier: QuerierReq,
}

#[derive(Deserialize, Default)]
struct EnvReq {
    height: Option<u64>,
    /// nanoseconds, as a decimal string (a JSON number is accepted too)
    time: Option<Value>,
    chain_id: Option<String>,
    contract: Option<String>,
}

#[derive(Deserialize)]
struct InfoReq {
    sender: String,
    #[serde(default)]
    funds: Vec<Coin>,
}

#[derive(Deserialize, Default)]
struct QuerierReq {
    #[serde(default)]
    balances: BTreeMap<String, Vec<Coin>>,
    #[serde(default)]
    smart: Vec<SmartEntry>,
    #[serde(default)]
    raw: Vec<RawEntry>,
}

#[derive(Deserialize)]
struct SmartEntry {
    contract: String,
    msg: Value,
    #[serde(default)]
    response: Option<Value>,
    #[serde(default)]
    error: Option<String>,
}

#[derive(Deserialize)]
struct RawEntry {
    contract: String,
    key: String,
    value: String,
}

// ---------------------------------------------------------------------------------------------
// querier

struct ReplayQuerier {
    balances: BTreeMap<String, Vec<Coin>>,
    smart: Vec<SmartEntry>,
    raw: Vec<(String, Vec<u8>, Vec<u8>)>,
}

impl Querier for ReplayQuerier {
    fn raw_query(&self, bin_request: &[u8]) -> QuerierResult {
        let request: QueryRequest<Empty> = match from_json(bin_request) {
            Ok(r) => r,
            Err(e) => {
                return SystemResult::Err(SystemError::InvalidRequest {
                    error: format!("Parsing query request: {e}"),
                    request: bin_request.into(),
                })
            }
        };
        let unsupported = |kind: &str| {
            SystemResult::Err(SystemError::UnsupportedRequest {
                kind: kind.to_string(),
            })
        };
        match request {
            QueryRequest::Wasm(WasmQuery::Smart { contract_addr, msg }) => {
                let want: Option<Value> = serde_json::from_slice(msg.as_slice()).ok();
                let hit = self
                    .smart
                    .iter()
                    .find(|e| e.contract == contract_addr && Some(&e.msg) == want.as_ref());
                match hit {
                    None => SystemResult::Err(SystemError::NoSuchContract {
                        addr: contract_addr,
                    }),
                    Some(e) => match &e.error {
                        Some(err) => SystemResult::Ok(ContractResult::Err(err.clone())),
                        None => {
                            let resp = e.response.clone().unwrap_or(Value::Null);
                            SystemResult::Ok(ContractResult::Ok(to_json_binary(&resp).unwrap()))
                        }
                    },
                }
            }
            QueryRequest::Wasm(WasmQuery::Raw { contract_addr, key }) => {
                let hit = self
                    .raw
                    .iter()
                    .find(|(c, k, _)| *c == contract_addr && k.as_slice() == key.as_slice());
                let value = hit.map(|(_, _, v)| Binary::from(v.clone())).unwrap_or_default();
                SystemResult::Ok(ContractResult::Ok(value))
            }
            QueryRequest::Wasm(_) => unsupported("WasmQuery (only smart/raw are modelled)"),
            QueryRequest::Bank(BankQuery::Balance { address, denom }) => {
                let amount = self
                    .balances
                    .get(&address)
                    .and_then(|cs| cs.iter().find(|c| c.denom == denom))
                    .map(|c| c.amount)
                    .unwrap_or(Uint128::zero());
                let resp = BalanceResponse::new(Coin { denom, amount });
                SystemResult::Ok(ContractResult::Ok(to_json_binary(&resp).unwrap()))
            }
            QueryRequest::Bank(BankQuery::AllBalances { address }) => {
                let coins = self.balances.get(&address).cloned().unwrap_or_default();
                let resp = AllBalanceResponse::new(coins);
                SystemResult::Ok(ContractResult::Ok(to_json_binary(&resp).unwrap()))
            }
            QueryRequest::Bank(_) => unsupported("BankQuery (only balance/all_balances are modelled)"),
            _ => unsupported("only bank and wasm queries are modelled"),
        }
    }
}

// ---------------------------------------------------------------------------------------------
// outcome of a contract call

enum Outcome {
    Ok(Value),
    Err { display: String, debug: String },
    Panic { display: String, debug: String },
    BadMsg { display: String, debug: String },
}

/// Full text (message + location) of the last panic, recorded by the silent panic hook.
static LAST_PANIC: Mutex<Option<String>> = Mutex::new(None);

fn install_silent_panic_hook() {
    std::panic::set_hook(Box::new(|info| {
        if let Ok(mut g) = LAST_PANIC.lock() {
            *g = Some(info.to_string());
        }
    }));
}

fn parse_msg<M: DeserializeOwned>(msg: &Value) -> Result<M, cosmwasm_std::StdError> {
    let bytes = serde_json::to_vec(msg).expect("re-serialise msg");
    from_json(bytes)
}

/// Deserialises `msg` into the entry's message type, runs `f` under catch_unwind and converts
/// the returned value with `conv`.
fn call_with<M, R, E, F>(msg: &Value, conv: fn(R) -> Value, f: F) -> Outcome
where
    M: DeserializeOwned,
    E: Display + Debug,
    F: FnOnce(M) -> Result<R, E>,
{
    let m: M = match parse_msg(msg) {
        Ok(m) => m,
        Err(e) => {
            return Outcome::BadMsg {
                display: e.to_string(),
                debug: format!("{e:?}"),
            }
        }
    };
    match catch_unwind(AssertUnwindSafe(move || f(m))) {
        Ok(Ok(r)) => Outcome::Ok(conv(r)),
        Ok(Err(e)) => Outcome::Err {
            display: e.to_string(),
            debug: format!("{e:?}"),
        },
        Err(payload) => {
            let display = if let Some(s) = payload.downcast_ref::<&str>() {
                s.to_string()
            } else if let Some(s) = payload.downcast_ref::<String>() {
                s.clone()
            } else {
                "<non-string panic payload>".to_string()
            };
            let debug = LAST_PANIC
                .lock()
                .ok()
                .and_then(|mut g| g.take())
                .unwrap_or_else(|| display.clone());
            Outcome::Panic { display, debug }
        }
    }
}

/// instantiate / execute / migrate / reply / ibc_*: the returned value is Serialize.
fn call<M, R, E, F>(msg: &Value, f: F) -> Outcome
where
    M: DeserializeOwned,
    R: Serialize,
    E: Display + Debug,
    F: FnOnce(M) -> Result<R, E>,
{
    call_with(msg, response_json::<R>, f)
}

/// query: the returned value is a Binary.
fn call_query<M, E, F>(msg: &Value, f: F) -> Outcome
where
    M: DeserializeOwned,
    E: Display + Debug,
    F: FnOnce(M) -> Result<Binary, E>,
{
    call_with(msg, query_json, f)
}

fn query_json(b: Binary) -> Value {
    let parsed: Value = serde_json::from_slice(b.as_slice()).unwrap_or(Value::Null);
    json!({ "base64": b.to_base64(), "json": parsed })
}

fn response_json<R: Serialize>(r: R) -> Value {
    let mut v = serde_json::to_value(&r).expect("serialise response");
    decorate(&mut v);
    if let Value::Object(map) = &mut v {
        add_decoded(map, "acknowledgement", "acknowledgement_json");
    }
    v
}

/// If `map[field]` is a base64 string, inserts `map[out]` = the decoded bytes parsed as JSON
/// (null when they are not base64 / not JSON).
fn add_decoded(map: &mut Map<String, Value>, field: &str, out: &str) {
    let decoded = match map.get(field) {
        Some(Value::String(s)) => B64
            .decode(s)
            .ok()
            .and_then(|bytes| serde_json::from_slice::<Value>(&bytes).ok())
            .unwrap_or(Value::Null),
        _ => return,
    };
    map.insert(out.to_string(), decoded);
}

/// Adds "msg_json" next to the base64 "msg" of wasm execute/instantiate/migrate messages and
/// "data_json" next to the "data" of ibc send_packet messages, anywhere in the value.
fn decorate(v: &mut Value) {
    match v {
        Value::Object(map) => {
            if let Some(Value::Object(wasm)) = map.get_mut("wasm") {
                for kind in ["execute", "instantiate", "instantiate2", "migrate"] {
                    if let Some(Value::Object(inner)) = wasm.get_mut(kind) {
                        add_decoded(inner, "msg", "msg_json");
                    }
                }
            }
            if let Some(Value::Object(ibc)) = map.get_mut("ibc") {
                if let Some(Value::Object(inner)) = ibc.get_mut("send_packet") {
                    add_decoded(inner, "data", "data_json");
                }
            }
            for (_, child) in map.iter_mut() {
                decorate(child);
            }
        }
        Value::Array(items) => items.iter_mut().for_each(decorate),
        _ => {}
    }
}

// ---------------------------------------------------------------------------------------------
// modes

fn bad_request(msg: impl Display) -> ! {
    println!("{}", json!({ "result": "bad_request", "error": msg.to_string() }));
    std::process::exit(2);
}

fn unhex(s: &str, what: &str) -> Vec<u8> {
    hex::decode(s).unwrap_or_else(|e| bad_request(format!("{what}: invalid hex {s:?}: {e}")))
}

fn dump_storage(storage: &dyn Storage) -> Value {
    Value::Array(
        storage
            .range(None, None, Order::Ascending)
            .map(|(k, v)| json!([hex::encode(k), hex::encode(v)]))
            .collect(),
    )
}

fn mode_step(req: StepReq) -> Value {
    let mut storage = MockStorage::new();
    for (k, v) in &req.storage {
        let (k, v) = (unhex(k, "storage key"), unhex(v, "storage value"));
        if v.is_empty() {
            bad_request(format!("storage value for key {} is empty", hex::encode(k)));
        }
        storage.set(&k, &v);
    }
    let querier = ReplayQuerier {
        balances: req.querier.balances,
        smart: req.querier.smart,
        raw: req
            .querier
            .raw
            .iter()
            .map(|r| {
                (
                    r.contract.clone(),
                    unhex(&r.key, "querier.raw key"),
                    unhex(&r.value, "querier.raw value"),
                )
            })
            .collect(),
    };
    let mut deps = OwnedDeps {
        storage,
        api: MockApi::default(),
        querier,
        custom_query_type: PhantomData::<Empty>,
    };

    let mut env = mock_env();
    if let Some(h) = req.env.height {
        env.block.height = h;
    }
    if let Some(t) = &req.env.time {
        let nanos = match t {
            Value::String(s) => s.parse::<u64>().ok(),
            Value::Number(n) => n.as_u64(),
            _ => None,
        };
        match nanos {
            Some(n) => env.block.time = Timestamp::from_nanos(n),
            None => bad_request(format!("env.time: expected u64 nanoseconds, got {t}")),
        }
    }
    if let Some(c) = req.env.chain_id {
        env.block.chain_id = c;
    }
    if let Some(a) = req.env.contract {
        env.contract.address = Addr::unchecked(a);
    }

    let needs_info = matches!(req.entry.as_str(), "instantiate" | "execute");
    let info = match req.info {
        Some(i) => MessageInfo {
            sender: Addr::unchecked(i.sender),
            funds: i.funds,
        },
        None if needs_info => bad_request("info is required for instantiate/execute"),
        None => MessageInfo {
            sender: Addr::unchecked(""),
            funds: vec![],
        },
    };
    let msg = req.msg;

    // instantiate / execute
    macro_rules! ex {
        ($f:path) => {
            call(&msg, |m| $f(deps.as_mut(), env, info, m))
        };
    }
    // migrate / reply / ibc_*
    macro_rules! sudo {
        ($f:path) => {
            call(&msg, |m| $f(deps.as_mut(), env, m))
        };
    }
    macro_rules! qry {
        ($f:path) => {
            call_query(&msg, |m| $f(deps.as_ref(), env, m))
        };
    }

    let outcome = match (req.contract.as_str(), req.entry.as_str()) {
        ("cw1-subkeys", "instantiate") => ex!(cw1_subkeys::contract::instantiate),
        ("cw1-subkeys", "execute") => ex!(cw1_subkeys::contract::execute),
        ("cw1-subkeys", "query") => qry!(cw1_subkeys::contract::query),
        ("cw1-subkeys", "migrate") => sudo!(cw1_subkeys::contract::migrate),

        ("cw1-whitelist", "instantiate") => ex!(cw1_whitelist::contract::instantiate),
        ("cw1-whitelist", "execute") => ex!(cw1_whitelist::contract::execute),
        ("cw1-whitelist", "query") => qry!(cw1_whitelist::contract::query),

        ("cw20-base", "instantiate") => ex!(cw20_base::contract::instantiate),
        ("cw20-base", "execute") => ex!(cw20_base::contract::execute),
        ("cw20-base", "query") => qry!(cw20_base::contract::query),
        ("cw20-base", "migrate") => sudo!(cw20_base::contract::migrate),

        ("cw20-ics20", "instantiate") => ex!(cw20_ics20::contract::instantiate),
        ("cw20-ics20", "execute") => ex!(cw20_ics20::contract::execute),
        ("cw20-ics20", "query") => qry!(cw20_ics20::contract::query),
        ("cw20-ics20", "migrate") => sudo!(cw20_ics20::contract::migrate),
        ("cw20-ics20", "reply") => sudo!(cw20_ics20::ibc::reply),
        ("cw20-ics20", "ibc_channel_open") => sudo!(cw20_ics20::ibc::ibc_channel_open),
        ("cw20-ics20", "ibc_channel_connect") => sudo!(cw20_ics20::ibc::ibc_channel_connect),
        ("cw20-ics20", "ibc_channel_close") => sudo!(cw20_ics20::ibc::ibc_channel_close),
        ("cw20-ics20", "ibc_packet_receive") => sudo!(cw20_ics20::ibc::ibc_packet_receive),
        ("cw20-ics20", "ibc_packet_ack") => sudo!(cw20_ics20::ibc::ibc_packet_ack),
        ("cw20-ics20", "ibc_packet_timeout") => sudo!(cw20_ics20::ibc::ibc_packet_timeout),

        ("cw3-fixed-multisig", "instantiate") => ex!(cw3_fixed_multisig::contract::instantiate),
        ("cw3-fixed-multisig", "execute") => ex!(cw3_fixed_multisig::contract::execute),
        ("cw3-fixed-multisig", "query") => qry!(cw3_fixed_multisig::contract::query),

        ("cw3-flex-multisig", "instantiate") => ex!(cw3_flex_multisig::contract::instantiate),
        ("cw3-flex-multisig", "execute") => ex!(cw3_flex_multisig::contract::execute),
        ("cw3-flex-multisig", "query") => qry!(cw3_flex_multisig::contract::query),

        ("cw4-group", "instantiate") => ex!(cw4_group::contract::instantiate),
        ("cw4-group", "execute") => ex!(cw4_group::contract::execute),
        ("cw4-group", "query") => qry!(cw4_group::contract::query),

        ("cw4-stake", "instantiate") => ex!(cw4_stake::contract::instantiate),
        ("cw4-stake", "execute") => ex!(cw4_stake::contract::execute),
        ("cw4-stake", "query") => qry!(cw4_stake::contract::query),

        (c, e) => bad_request(format!("unsupported (contract, entry): ({c}, {e})")),
    };

    let storage_after = dump_storage(&deps.storage);
    match outcome {
        Outcome::Ok(response) => {
            json!({ "result": "ok", "response": response, "storage": storage_after })
        }
        Outcome::Err { display, debug } => {
            json!({ "result": "err", "error": display, "error_debug": debug, "storage": storage_after })
        }
        Outcome::Panic { display, debug } => {
            json!({ "result": "panic", "error": display, "error_debug": debug, "storage": storage_after })
        }
        Outcome::BadMsg { display, debug } => {
            json!({ "result": "bad_msg", "error": display, "error_debug": debug, "storage": storage_after })
        }
    }
}

fn mode_addr(req: &Value) -> Value {
    let names = match req.get("names").and_then(Value::as_array) {
        Some(n) => n,
        None => bad_request("addr mode: \"names\" must be an array of strings"),
    };
    let api = MockApi::default();
    let mut addrs = Map::new();
    for n in names {
        match n.as_str() {
            Some(s) => addrs.insert(s.to_string(), Value::String(api.addr_make(s).into_string())),
            None => bad_request("addr mode: \"names\" must be an array of strings"),
        };
    }
    json!({ "addrs": addrs })
}

fn mode_scenario(req: &Value) -> Value {
    let name = match req.get("name").and_then(Value::as_str) {
        Some(n) => n,
        None => bad_request("scenario mode: \"name\" must be a string"),
    };
    let params = req.get("params").cloned().unwrap_or(Value::Null);
    match scenarios::dispatch(name, &params) {
        Some(v) => v,
        None => bad_request(format!("unknown scenario {name:?}")),
    }
}

fn main() {
    let args: Vec<String> = std::env::args().collect();
    if args.len() != 2 {
        eprintln!("usage: replay <request.json | ->");
        bad_request("expected exactly one argument: request file path or -");
    }
    let mut text = String::new();
    let read = if args[1] == "-" {
        std::io::stdin().read_to_string(&mut text).map(|_| ())
    } else {
        std::fs::read_to_string(&args[1]).map(|s| text = s)
    };
    if let Err(e) = read {
        bad_request(format!("cannot read request {}: {e}", args[1]));
    }
    let req: Value = match serde_json::from_str(&text) {
        Ok(v) => v,
        Err(e) => bad_request(format!("request is not valid JSON: {e}")),
    };

    install_silent_panic_hook();

    let out = match req.get("mode").and_then(Value::as_str) {
        Some("step") => match serde_json::from_value::<StepReq>(req.clone()) {
            Ok(step) => mode_step(step),
            Err(e) => bad_request(format!("malformed step request: {e}")),
        },
        Some("addr") => mode_addr(&req),
        Some("scenario") => mode_scenario(&req),
        other => bad_request(format!("unknown mode {other:?} (expected step | addr | scenario)")),
    };
    println!("{}", serde_json::to_string(&out).expect("serialise output"));
}
