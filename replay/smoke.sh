#!/bin/sh
# Smoke test for the replay binary. Request templates live in smoke/*.json:
#   @name@        -> MockApi address of "name" (from mode "addr")
#   "@storage@"   -> storage returned by an earlier step (chosen below)
# Prints one PASS/FAIL line per check and a final PASS/FAIL; exit 0 iff all passed.
set -e
HERE=$(cd "$(dirname "$0")" && pwd)
"$HERE/build.sh"
BIN=/verif/.work/target-replay/debug/replay
exec python3 - "$BIN" "$HERE/smoke" <<'PY'
import json, subprocess, sys, base64
BIN, DIR = sys.argv[1], sys.argv[2]
fails = 0

def run_raw(text):
    p = subprocess.run([BIN, "-"], input=text, capture_output=True, text=True)
    return p.returncode, p.stdout

def check(name, cond, detail=""):
    global fails
    print(("PASS " if cond else "FAIL ") + name + ("" if cond else "  -- " + detail))
    if not cond:
        fails += 1

rc, out = run_raw(open(f"{DIR}/00_addr.json").read())
addrs = json.loads(out)["addrs"]
check("addr mode", rc == 0 and all(a.startswith("cosmwasm1") for a in addrs.values()), out)

def step(fname, storage=None):
    text = open(f"{DIR}/{fname}").read()
    for k, v in addrs.items():
        text = text.replace(f"@{k}@", v)
    text = text.replace('"@storage@"', json.dumps(storage if storage is not None else []))
    rc, out = run_raw(text)
    if rc != 0:
        return {"result": f"exit {rc}", "raw": out}
    return json.loads(out)

# --- cw20-base
r1 = step("01_cw20_instantiate.json")
check("cw20-base instantiate ok", r1["result"] == "ok" and len(r1.get("storage", [])) > 0, json.dumps(r1))
s1 = r1.get("storage", [])

r2 = step("02_cw20_transfer_30.json", s1)
check("cw20-base transfer 30 ok", r2["result"] == "ok", json.dumps(r2))
s2 = r2.get("storage", [])
check("storage is sorted ascending", [k for k, _ in s2] == sorted(k for k, _ in s2))

r3 = step("03_cw20_query_bob.json", s2)
check("cw20-base query bob == 30", r3["result"] == "ok" and r3["response"]["json"] == {"balance": "30"}, json.dumps(r3))
check("query leaves storage unchanged", r3.get("storage") == s2)

r4 = step("04_cw20_transfer_1000.json", s2)
check("cw20-base transfer 1000 err", r4["result"] == "err" and "error" in r4 and "error_debug" in r4, json.dumps(r4))

r5 = step("05_cw20_bad_msg.json", s2)
check("unknown variant -> bad_msg", r5["result"] == "bad_msg" and r5.get("storage") == s2, json.dumps(r5))

r6 = step("06_cw20_send.json", s2)
try:
    ex = r6["response"]["messages"][0]["msg"]["wasm"]["execute"]
    ok = ex["msg_json"]["receive"]["amount"] == "5" and ex["msg_json"]["receive"]["sender"] == addrs["alice"]
except Exception as e:
    ok = False
check("cw20-base send: msg_json decoded", r6["result"] == "ok" and ok, json.dumps(r6))

# --- cw20-ics20
i1 = step("10_ics20_instantiate.json")
check("cw20-ics20 instantiate ok", i1["result"] == "ok", json.dumps(i1))
t1 = i1.get("storage", [])

i2 = step("11_ics20_packet_receive_garbage.json", t1)
try:
    ack = i2["response"]["acknowledgement_json"]
    ok = i2["result"] == "ok" and "error" in ack and \
        json.loads(base64.b64decode(i2["response"]["acknowledgement"])) == ack
except Exception:
    ok = False
check("cw20-ics20 ibc_packet_receive(garbage) -> ok + error ack", ok, json.dumps(i2))

i3 = step("12_ics20_channel_close_panics.json", t1)
check("cw20-ics20 ibc_channel_close -> panic", i3["result"] == "panic" and "not implemented" in i3.get("error", ""), json.dumps(i3))

i4 = step("14_ics20_channel_connect.json", t1)
check("cw20-ics20 ibc_channel_connect ok", i4["result"] == "ok" and len(i4.get("storage", [])) == len(t1) + 1, json.dumps(i4))
t2 = i4.get("storage", [])

i5 = step("13_ics20_transfer_native.json", t2)
try:
    sp = i5["response"]["messages"][0]["msg"]["ibc"]["send_packet"]
    ok = sp["data_json"]["amount"] == "5" and sp["data_json"]["denom"] == "ucosm" and sp["data_json"]["sender"] == addrs["alice"]
except Exception:
    ok = False
check("cw20-ics20 transfer: send_packet data_json decoded", i5["result"] == "ok" and ok, json.dumps(i5))

# --- scenario skeleton, malformed request
rc, out = run_raw(open(f"{DIR}/20_scenario_noop.json").read())
check("scenario noop", rc == 0 and json.loads(out) == {"result": "ok"}, out)
rc, out = run_raw('{"mode": "step", "contract": "nope", "entry": "execute", "msg": {}}')
check("malformed request -> exit 2", rc == 2, f"rc={rc} {out}")

print("PASS" if fails == 0 else f"FAIL ({fails} checks failed)")
sys.exit(0 if fails == 0 else 1)
PY
