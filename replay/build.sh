#!/bin/sh
# Builds the replay binary offline (quiet: cargo output is shown only when the build fails).
# Binary: /verif/.work/target-replay/debug/replay
LOG=$(mktemp)
CARGO_TARGET_DIR=/verif/.work/target-replay CARGO_NET_OFFLINE=true \
  cargo build --offline --quiet --manifest-path /verif/replay/Cargo.toml >"$LOG" 2>&1
STATUS=$?
[ $STATUS -ne 0 ] && cat "$LOG" >&2
rm -f "$LOG"
exit $STATUS
