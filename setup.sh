#!/bin/bash
# build everything the checks need from files on disk (offline): MIR dumps of /repo + registry deps, native replay binary
set -e
cd "$(dirname "$0")"
export CARGO_NET_OFFLINE=true
mkdir -p .work evidence out
python3-vt -m mirsym.build
python3-vt -c "
import sys; sys.path.insert(0, '.')
from mirsym import replay
replay.ensure_built()
print('[setup] replay binary ready')
"
