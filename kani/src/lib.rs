//! Second engine (Kani/CBMC) on the compiled cw3 threshold kernel: cross-checks the MIR interpreter's verdicts for C04
//! on the sub-domain CBMC can decide quickly.  Run by `./check C04 --tier thorough`.
#![allow(dead_code)]

use cosmwasm_std::{Addr, BlockInfo, Decimal, Timestamp};
use cw3::{Proposal, Status, Votes};
use cw_utils::{Expiration, Threshold};

fn mk(total: u64, yes: u64, no: u64, abstain: u64, veto: u64, threshold: Threshold, expired: bool) -> (Proposal, BlockInfo) {
    let block = BlockInfo { height: 100, time: Timestamp::from_nanos(0), chain_id: String::new() };
    let expires = if expired { Expiration::AtHeight(50) } else { Expiration::AtHeight(200) };
    let prop = Proposal {
        title: String::new(),
        description: String::new(),
        start_height: 1,
        expires,
        msgs: Vec::new(),
        status: Status::Open,
        threshold,
        total_weight: total,
        votes: Votes { yes, no, abstain, veto },
        proposer: Addr::unchecked(""),
        deposit: None,
    };
    (prop, block)
}

#[cfg(kani)]
mod proofs {
    use super::*;

    /// AbsoluteCount over ALL u64 tallies: decision = documented formula, never both, never without yes
    #[kani::proof]
    fn absolute_count_all_u64() {
        let total: u64 = kani::any();
        let (yes, no, abstain, veto): (u64, u64, u64, u64) = (kani::any(), kani::any(), kani::any(), kani::any());
        let sum = yes as u128 + no as u128 + abstain as u128 + veto as u128;
        kani::assume(sum <= total as u128);
        let w: u64 = kani::any();
        kani::assume(w >= 1 && w <= total);
        let expired: bool = kani::any();
        let (p, b) = mk(total, yes, no, abstain, veto, Threshold::AbsoluteCount { weight: w }, expired);
        let passed = p.is_passed(&b);
        let rejected = p.is_rejected(&b);
        assert_eq!(passed, yes > 0 && yes >= w);
        assert_eq!(rejected, no > total - w);
        assert!(!(passed && rejected));
        kani::cover!(passed);
        kani::cover!(rejected);
    }

    /// never Passed without Yes weight, for every threshold kind (ThresholdQuorum / AbsolutePercentage included), all u64 totals
    #[kani::proof]
    fn never_passed_without_yes() {
        let total: u64 = kani::any();
        let (no, abstain, veto): (u64, u64, u64) = (kani::any(), kani::any(), kani::any());
        kani::assume(no as u128 + abstain as u128 + veto as u128 <= total as u128);
        let expired: bool = kani::any();
        let kind: u8 = kani::any();
        let pm: u64 = kani::any();
        kani::assume(pm >= 500 && pm <= 1000);
        let thr = match kind % 3 {
            0 => Threshold::AbsoluteCount { weight: 1 },
            1 => Threshold::AbsolutePercentage { percentage: Decimal::permille(pm) },
            _ => Threshold::ThresholdQuorum { threshold: Decimal::permille(pm), quorum: Decimal::permille(1) },
        };
        let (p, b) = mk(total, 0, no, abstain, veto, thr, expired);
        assert!(!p.is_passed(&b));
    }
}
