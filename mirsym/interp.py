"""Symbolic interpreter for the parsed MIR (path forking by re-execution with a decision trace)."""
import re, sys
import z3
from .values import *
from .mirparse import split_top, strip_generics
from .program import simple_name

sys.setrecursionlimit(20000)

TRANSPARENT = {"Uint128", "Uint64", "Uint256", "Uint512", "Decimal", "Decimal256", "Addr", "Binary", "Timestamp", "HexBinary",
               "CanonicalAddr"}


def _last_turbofish(callee):
    """type arguments of the last path segment: `a::b::<X, Y>` -> ["X", "Y"] (lifetimes dropped); None when absent"""
    c = callee.strip()
    if not c.endswith(">"): return None
    d = 0
    for i in range(len(c) - 1, -1, -1):
        if c[i] == ">" and (i == 0 or c[i - 1] not in "-="): d += 1
        elif c[i] == "<":
            d -= 1
            if d == 0:
                if i >= 2 and c[i - 2:i] == "::":
                    return [t.strip() for t in split_top(c[i + 1:-1]) if t.strip() and not t.strip().startswith("'")]
                return None
    return None


def _balanced_parens(t):
    d = 0
    for c in t:
        if c == "(": d += 1
        elif c == ")":
            d -= 1
            if d < 0: return False
    return d == 0


class Frame:
    __slots__ = ("fn", "cells")

    def __init__(self, fn): self.fn, self.cells = fn, {}

    def cell(self, l):
        c = self.cells.get(l)
        if c is None:
            c = self.cells[l] = Cell(f"{self.fn.name}:{l}")
            # zero-sized values are never assigned in MIR: a capture-less closure local is the closure itself
            t = self.fn.locals.get(l)
            if t and t.lstrip().startswith("{closure@"):
                c.v = Closure(t.strip(), (), ())
        return c


class Interp:
    def __init__(self, prog, models):
        self.prog, self.models = prog, models

    # ================================================================ lazy values
    def force(self, ctx, v):
        """make the outermost constructor of v concrete (forks on SymEnum / SymVec)"""
        if isinstance(v, SymEnum):
            r = ctx.forced.get(v.id)
            if r is None:
                from . import symval
                r = symval.force_enum(self, ctx, v)
                ctx.forced[v.id] = r
            return r
        if isinstance(v, SymVec):
            r = ctx.forced.get(v.id)
            if r is None:
                from . import symval
                r = symval.force_vec(self, ctx, v)
                ctx.forced[v.id] = r
            return r
        return v

    def deref(self, ctx, v):
        while isinstance(v, Ref):
            v = self.get_path(ctx, v.cell.v, v.path)
        return self.force(ctx, v)

    def deep(self, ctx, v):
        """fully dereference and force a value tree (used by specs/serialisation; forks on every lazy node)"""
        v = self.deref(ctx, v)
        if isinstance(v, Struct): return Struct(v.ty, [self.deep(ctx, f) for f in v.fields], v.names)
        if isinstance(v, EnumV): return EnumV(v.ty, v.variant, [self.deep(ctx, f) for f in v.fields], v.names)
        if isinstance(v, tuple): return tuple(self.deep(ctx, f) for f in v)
        if isinstance(v, VecV): return VecV([self.deep(ctx, f) for f in v.items])
        if isinstance(v, JsonBin): return JsonBin(self.deep(ctx, v.value), v.ty)
        return v

    # ================================================================ places
    def get_path(self, ctx, v, path):
        for p in path:
            k = p[0]
            if k == "*":
                if isinstance(v, Ref):
                    v = self.get_path(ctx, v.cell.v, v.path)
                # non-Ref: handle-like or by-value element standing for a reference -> itself
                continue
            v = self.force(ctx, v)
            if k == "f":
                if isinstance(v, (Struct, EnumV)): v = v.fields[p[1]]
                elif isinstance(v, Closure):
                    if p[1] >= len(v.caps): raise Unsupported(f"closure capture {p[1]} of {v.loc} (has {len(v.caps)})")
                    v = v.caps[p[1]]
                elif isinstance(v, tuple) and not isinstance(v, VecV):
                    v = v[p[1]]
                else:
                    if p[1] != 0: raise Unsupported(f"field {p[1]} of {v!r}")
                    # transparent newtype (Uint128.0, Addr.0, ...)
            elif k == "d":
                if not isinstance(v, EnumV): raise Unsupported(f"downcast of {v!r}")
                if v.variant != p[1]: raise Unsupported(f"downcast {v!r} as {p[1]}")
            elif k == "i" or k == "ci":
                if isinstance(v, str): v = VecV(list(v.encode()))          # bytes of a literal string
                if not isinstance(v, VecV): raise Unsupported(f"index into {v!r}")
                v = v.items[p[1]]
            elif k == "c":
                if isinstance(v, str): v = VecV(list(v.encode()))
                if not isinstance(v, VecV): raise Unsupported(f"index into {v!r}")
                v = v.items[-p[1] if p[3] else p[1]]
            elif k == "s":
                if not isinstance(v, VecV): raise Unsupported(f"subslice of {v!r}")
                hi = len(v.items) - p[2] if p[3] else (p[2] if p[2] else len(v.items))
                v = VecV(v.items[p[1]:hi])
            else:
                raise Unsupported(f"projection {p}")
        return v

    def set_path(self, ctx, v, path, new):
        if not path: return new
        p = path[0]
        k = p[0]
        if k == "*":
            if isinstance(v, Ref):
                v.cell.v = self.set_path(ctx, v.cell.v, v.path + tuple(path[1:]), new)
                return v
            raise Unsupported(f"write through non-reference {v!r}")
        v = self.force(ctx, v)
        if k == "f":
            i = p[1]
            if isinstance(v, Opaque) and v.tag == "uninit":
                return self.set_path(ctx, v, path[1:], new)      # MaybeUninit/ManuallyDrop wrappers are transparent
            if isinstance(v, Struct):
                f = list(v.fields); f[i] = self.set_path(ctx, f[i], path[1:], new); return Struct(v.ty, f, v.names)
            if isinstance(v, EnumV):
                f = list(v.fields); f[i] = self.set_path(ctx, f[i], path[1:], new); return EnumV(v.ty, v.variant, f, v.names)
            if isinstance(v, Closure):
                f = list(v.caps); f[i] = self.set_path(ctx, f[i], path[1:], new); return Closure(v.loc, f, v.names)
            if isinstance(v, tuple):
                f = list(v); f[i] = self.set_path(ctx, f[i], path[1:], new); return tuple(f)
            if v is None and len(path) == 1:
                raise Unsupported("field write into uninitialised aggregate")
            if i == 0: return self.set_path(ctx, v, path[1:], new)
            raise Unsupported(f"set field {i} of {v!r}")
        if k == "d": return self.set_path(ctx, v, path[1:], new)
        if k in ("i", "ci"):
            f = list(v.items); f[p[1]] = self.set_path(ctx, f[p[1]], path[1:], new); return VecV(f)
        if k == "c":
            idx = -p[1] if p[3] else p[1]
            f = list(v.items); f[idx] = self.set_path(ctx, f[idx], path[1:], new); return VecV(f)
        raise Unsupported(f"set projection {p}")

    def _conc_path(self, ctx, fr, path):
        """replace ('i', local) projections by concrete indices"""
        if not any(p[0] == "i" and isinstance(p[1], str) for p in path): return path
        out = []
        for p in path:
            if p[0] == "i" and isinstance(p[1], str):
                idx = fr.cell(p[1]).v
                if not isinstance(idx, int):
                    # the preceding bounds-check assert already put idx < len on the path: fork over the feasible indices
                    idx = z3.simplify(idx)
                    if z3.is_int_value(idx): idx = idx.as_long()
                    else:
                        k = ctx.choose([idx == j for j in range(32)] + [idx >= 32], "index")
                        if k == 32: raise Unsupported("symbolic index projection beyond 32 elements")
                        idx = k
                out.append(("i", idx))
            else: out.append(p)
        return tuple(out)

    def read_place(self, ctx, fr, place):
        l, path = place
        return self.get_path(ctx, fr.cell(l).v, self._conc_path(ctx, fr, path))

    def write_place(self, ctx, fr, place, v):
        l, path = place
        c = fr.cell(l)
        if path and path[0][0] == "*" and not isinstance(c.v, Ref):
            t = (fr.fn.locals.get(l) or "").strip()
            if re.match(r"^(std::boxed::|alloc::boxed::)?Box<", t): path = path[1:]      # a Box is held by value: `*b = x` writes the local
        if not path: c.v = v
        else: c.v = self.set_path(ctx, c.v, self._conc_path(ctx, fr, path), v)

    # ================================================================ operands / consts
    def operand(self, ctx, fr, op):
        k = op[0]
        if k == "copy" or k == "move": return self.read_place(ctx, fr, op[1])
        return self.const(ctx, fr, op[1])

    _INT_RE = re.compile(r"^(-?[\d_]+)_?(u8|u16|u32|u64|u128|usize|i8|i16|i32|i64|i128|isize)$")

    def const(self, ctx, fr, s):
        m = self._INT_RE.match(s)
        if m: return int(m.group(1).replace("_", ""))
        if s == "true": return True
        if s == "false": return False
        if s == "()": return ()
        if s.startswith("(") and s.endswith(")") and _balanced_parens(s[1:-1]) and "," in s:
            return tuple(self.const(ctx, fr, a.strip()) for a in split_top(s[1:-1]) if a.strip())      # tuple constant
        if s.startswith("[") and s.endswith("]") and ";" not in s:
            return VecV([self.const(ctx, fr, a.strip()) for a in split_top(s[1:-1]) if a.strip()])      # array constant
        if s.startswith('"'):
            try: return eval(s)
            except Exception: return s[1:-1]
        if s.startswith("b\""):
            try: return VecV(list(eval(s)))
            except Exception: raise Unsupported(f"byte string const {s}")
        if s.startswith("'"):
            try: return Opaque("char", eval(s))
            except Exception: raise Unsupported(f"char const {s}")
        if s.startswith("ZeroSized: {closure@"):
            return Closure(s[len("ZeroSized: "):], (), ())
        if s.startswith("{") or s.startswith("<ZST>") or s.startswith("ZeroSized"):
            return Opaque("zst", s)
        m = re.match(r"^(.*?) as .*$", s)
        # constant aggregate printed as an expression: `Result::<A, B>::Err(DivideByZeroError)`
        if s.endswith(")") and "(" in s and not s.startswith("("):
            head = strip_generics(s[:s.index("(")])
            k0 = s.index("(")
            inner = s[k0 + 1:-1]
            if re.match(r"^[\w:]+$", head) and _balanced_parens(inner):
                cur0 = fr.fn.crate if fr is not None else self.prog.crate
                vals = [self.const(ctx, fr, a.strip()) for a in split_top(inner)] if inner.strip() else []
                vals = [self._unit_const(v, cur0) for v in vals]
                r = self.try_ctor(head, vals, cur0)
                if r is not None: return r
        # named const / static / promoted / fn item
        if self.__dict__.get("_tparams"): s = self.subst_tparams(s)          # `<S as Trait>::CONST` inside a generic fn
        name = strip_generics(s)
        cur = fr.fn.crate if fr is not None else self.prog.crate
        if "::promoted[" in name:
            f = self.prog.funcs[cur].get(name)
            if f is None and fr is not None:
                # a promoted is only referenced from its own function: look it up by the enclosing function's printed name
                f = self.prog.funcs[cur].get(fr.fn.name + name[name.rindex("::promoted["):])
            if f is None:
                # promoted of an impl method are printed with the impl path
                for c, fs in self.prog.funcs.items():
                    if name in fs: f = fs[name]; break
            if f is None: raise Unsupported(f"promoted const {name}")
            return self.call_mir(ctx, f, [])
        m2 = re.match(r"^(?:(?:core|std)::)?(?:num::<impl )?(u8|u16|u32|u64|u128|usize|i8|i16|i32|i64|i128|isize)>?::(MAX|MIN|BITS)$", s)
        if m2:
            lo_, hi_ = int_bounds(m2.group(1))
            return {"MAX": hi_ - 1, "MIN": lo_, "BITS": int_bits(m2.group(1))}[m2.group(2)]
        h = self.models.lookup_const(name)
        if h is not None: return h(self, ctx, name)
        f = self.prog.resolve(name, cur)
        if f is not None:
            if f.kind == "constval": return self.const(ctx, Frame(f), f.src)
            if f.kind in ("const", "static"): return self.call_mir(ctx, f, [])
            return FnItem((s, cur))
        # enum unit variants / unit structs used as constants, PhantomData ...
        if re.match(r"^[\w:<>, ']+$", name):
            segs = name.split("::")
            if len(segs) >= 2:
                if segs[-2] == "Option" and segs[-1] == "None": return NONE
                td = self.prog.types.lookup("::".join(segs[:-1]), cur)
                if td is not None and td.kind == "enum":
                    for v_ in td.variants:
                        if v_.name == segs[-1] and v_.kind == "unit": return EnumV(td.name, segs[-1], ())
            return FnItem((s, cur))
        if name.startswith("<") and " as " in name and re.search(r">::\w+$", name):
            return FnItem((s, cur))          # `<String as From<&str>>::from` passed as a function value
        raise Unsupported(f"const {s}")

    # ================================================================ rvalues
    def rvalue(self, ctx, fr, rv, dest_ty):
        k = rv[0]
        if k == "use": return self.operand(ctx, fr, rv[1])
        if k == "ref":
            l, path = rv[1]
            path = self._conc_path(ctx, fr, path)
            # find last deref: &(*p).rest  ==> extend the reference stored at p
            last = None
            for i, p in enumerate(path):
                if p[0] == "*": last = i
            if last is None: return Ref(fr.cell(l), path)
            base = self.get_path(ctx, fr.cell(l).v, path[:last])
            rest = path[last + 1:]
            if isinstance(base, Ref):
                return Ref(base.cell, base.path + rest) if rest else base
            # base is a by-value stand-in for a reference (handles, iterator items): project by value
            if not rest: return base
            return self.get_path(ctx, base, rest)
        if k == "binop":
            a, b = self.operand(ctx, fr, rv[2]), self.operand(ctx, fr, rv[3])
            return self.binop(ctx, rv[1], a, b, dest_ty)
        if k == "unop":
            a = self.operand(ctx, fr, rv[2])
            if rv[1] == "Not":
                if isinstance(a, bool): return not a
                if is_sym(a) and z3.is_bool(a): return z3.Not(a)
                t = (dest_ty or "").strip()
                if int_bits(t) is None: raise Unsupported("bitwise Not on an integer of unknown width")
                return (-a - 1) if t in SINT else (int_bounds(t)[1] - 1 - a)
            if rv[1] == "Neg": return -a
            if rv[1] == "PtrMetadata":
                v = self.deref(ctx, a)
                if isinstance(v, VecV): return len(v.items)
                if isinstance(v, str): return len(v.encode())
                raise Unsupported(f"PtrMetadata of {v!r}")
        if k == "discr":
            v = self.force(ctx, self.read_place(ctx, fr, rv[1]))
            if isinstance(v, EnumV): return self.discriminant(v, fr.fn.crate)
            raise Unsupported(f"discriminant of {v!r}")
        if k == "cast":
            v = self.operand(ctx, fr, rv[1])
            kind, ty = rv[3], rv[2].strip()
            if kind.startswith("IntToInt"):
                if isinstance(v, bool): return int(v)
                if is_sym(v) and z3.is_bool(v): return z3.If(v, 1, 0)
                if isinstance(v, EnumV): v = self.discriminant(v, fr.fn.crate)
                op = rv[1]
                src = fr.fn.locals.get(op[1][0]) if op[0] in ("copy", "move") and not op[1][1] else None
                src = src.strip() if src else None
                if ty in INTMAX:
                    if isinstance(v, int): return v % INTMAX[ty]
                    if src in INTMAX and INTMAX[src] <= INTMAX[ty]: return v          # widening (or same width) between unsigned types
                    return self.narrow(ctx, v, INTMAX[ty])
                if ty in SINT:
                    b = SINT[ty]
                    if isinstance(v, int):
                        v %= 2 ** b
                        return v - 2 ** b if v >= 2 ** (b - 1) else v
                    if src in INTMAX and INTMAX[src] <= 2 ** (b - 1): return v            # unsigned into a wider signed type
                    if src in SINT and SINT[src] <= b: return v                         # signed widening
                    return (v + 2 ** (b - 1)) % (2 ** b) - 2 ** (b - 1)                 # two's-complement reinterpretation / truncation
                if ty == "char" and src == "u8":
                    if isinstance(v, int): return Opaque("char", chr(v))
                    raise Unsupported("symbolic u8 -> char")
                raise Unsupported(f"IntToInt to {ty}")
            return v
        if k == "tuple": return tuple(self.operand(ctx, fr, o) for o in rv[1])
        if k == "array": return VecV([self.operand(ctx, fr, o) for o in rv[1]])
        if k == "repeat":
            n = self.const(ctx, fr, rv[2]) if not rv[2].isdigit() else int(rv[2])
            if not isinstance(n, int): raise Unsupported("repeat count")
            x = self.operand(ctx, fr, rv[1])
            return VecV([x] * n)
        if k == "closure":
            if rv[2] and rv[2][-1][0] == "!unrecoverable": raise Unsupported(rv[2][-1][1][1])
            return Closure(rv[1], [self.operand(ctx, fr, o) for _, o in rv[2]], [n for n, _ in rv[2]])
        if k == "struct":
            names = [n for n, _ in rv[2]]
            vals = [self.operand(ctx, fr, o) for _, o in rv[2]]
            return self.make_adt(fr, rv[1], vals, names, dest_ty)
        if k == "ctor":
            vals = [self.operand(ctx, fr, o) for o in rv[2]]
            return self.make_adt(fr, rv[1], vals, None, dest_ty)
        if k == "len":
            v = self.force(ctx, self.read_place(ctx, fr, rv[1]))
            return len(v.items)
        if k == "nullop":
            if rv[1] in ("UbChecks", "ContractChecks"): return False
            if rv[1] == "OverflowChecks": return True
            raise Unsupported(f"nullop {rv[1]}")
        raise Unsupported(f"rvalue {rv}")

    def narrow_to(self, ctx, v, ty):
        return wrap_int(v, ty)

    def narrow(self, ctx, v, mod):
        """v mod 2^k, avoiding the mod term when the solver-free range facts already show v < 2^k"""
        lo_hi = getattr(ctx, "ranges", None)
        return v % mod

    def make_adt(self, fr, path, vals, names, dest_ty=None):
        segs = path.split("::")
        last = segs[-1]
        if len(segs) == 1 and dest_ty:
            # enum variants are printed with their trimmed path (bare variant name): recover the enum from the destination type
            dn = simple_name(dest_ty)
            if dn in ("Option", "Result", "ControlFlow", "Ordering", "Bound") and last in ("Some", "None", "Ok", "Err", "Continue", "Break", "Less", "Equal", "Greater", "Inclusive", "Exclusive"):
                return EnumV(dn, last, vals, names)
            if dn != last:
                td = self.prog.types.lookup(dest_ty, fr.fn.crate)
                if td is not None and td.kind == "enum" and any(v.name == last for v in td.variants):
                    return EnumV(td.name, last, vals, names)
        if len(segs) >= 2:
            parent = segs[-2]
            if parent in ("Option", "Result", "ControlFlow", "Ordering", "Bound"):
                return EnumV(parent, last, vals, names)
            td = self.prog.types.lookup("::".join(segs[:-1]), fr.fn.crate)
            if td is not None and td.kind == "enum" and any(v.name == last for v in td.variants):
                return EnumV(td.name, last, vals, names)
        if names is None and len(vals) == 1 and last in TRANSPARENT:
            return vals[0]
        return Struct(last, vals, names)

    def discriminant(self, v, crate=None):
        if v.ty == "Ordering": return {"Less": -1, "Equal": 0, "Greater": 1}[v.variant]
        return self.prog.variant_discr(v.ty, v.variant, crate)

    def binop(self, ctx, op, a, b, dest_ty):
        if isinstance(a, EnumV): a = self.discriminant(a)
        if isinstance(b, EnumV): b = self.discriminant(b)
        if isinstance(a, Opaque) and a.tag == "char": a = ord(a.data)
        if isinstance(b, Opaque) and b.tag == "char": b = ord(b.data)
        if op in ("Add", "AddUnchecked"): return a + b
        if op in ("Sub", "SubUnchecked"): return a - b
        if op in ("Mul", "MulUnchecked"): return a * b
        if op in ("Div", "Rem"):
            if isinstance(a, int) and isinstance(b, int): return a // b if op == "Div" else a % b
            if isinstance(b, int): return a / b if op == "Div" else a % b
            # symbolic divisor: fresh quotient / remainder with the division lemma (the preceding MIR assert excludes b == 0)
            q, r = ctx.fresh_int("quot", 0, None), ctx.fresh_int("rem", 0, None)
            ctx.assume(a == q * b + r)
            ctx.assume(z3.Or(r < b, b == 0))
            return q if op == "Div" else r
        if op in ("Eq", "Ne", "Lt", "Le", "Gt", "Ge"):
            if isinstance(a, bool) or isinstance(b, bool) or (is_sym(a) and z3.is_bool(a)):
                if op == "Eq": return zeq(a, b)
                if op == "Ne": return znot(zeq(a, b))
                raise Unsupported("ordering on bools")
            if isinstance(a, tuple) and isinstance(b, tuple) and a == () and b == (): return op in ("Eq", "Le", "Ge")
            return {"Eq": lambda: a == b, "Ne": lambda: a != b, "Lt": lambda: a < b, "Le": lambda: a <= b,
                    "Gt": lambda: a > b, "Ge": lambda: a >= b}[op]()
        if op in ("AddWithOverflow", "SubWithOverflow", "MulWithOverflow"):
            r = {"A": lambda: a + b, "S": lambda: a - b, "M": lambda: a * b}[op[0]]()
            t = dest_ty.strip()[1:-1].split(",")[0].strip() if dest_ty else "u64"
            if t in INTMAX:
                hi = INTMAX[t]
                if isinstance(r, int): return (r % hi, not (0 <= r < hi))
                return (r, z3.Or(r < 0, r >= hi))       # value is only used when the overflow flag is false
            if t in SINT:
                bnd = 2 ** (SINT[t] - 1)
                if isinstance(r, int): return (r, not (-bnd <= r < bnd))
                return (r, z3.Or(r < -bnd, r >= bnd))
            raise Unsupported(f"overflow op on {t}")
        if op in ("BitAnd", "BitOr", "BitXor"):
            if is_boolish(a) and is_boolish(b):
                if op == "BitAnd": return zand(a, b)
                if op == "BitOr": return zor(a, b)
                return znot(zeq(a, b))
            if isinstance(a, int) and isinstance(b, int):
                return {"BitAnd": a & b, "BitOr": a | b, "BitXor": a ^ b}[op]
            t = (dest_ty or "").strip()
            bits = int_bits(t)
            if bits is None: raise Unsupported(f"bitwise {op} on symbolic integers of unknown width ({t!r})")
            # low-bit masks stay in integer arithmetic; everything else goes through bit-vectors of the operand width
            for x, y in ((a, b), (b, a)):
                if op == "BitAnd" and isinstance(y, int) and y >= 0 and (y + 1) & y == 0 and t in INTMAX: return x % (y + 1)
            bv = lambda x: z3.Int2BV(x if z3.is_expr(x) else z3.IntVal(x), bits)
            r = {"BitAnd": lambda: bv(a) & bv(b), "BitOr": lambda: bv(a) | bv(b), "BitXor": lambda: bv(a) ^ bv(b)}[op]()
            return z3.BV2Int(r, is_signed=(t in SINT))
        if op in ("Shl", "Shr", "ShlUnchecked", "ShrUnchecked"):
            t = (dest_ty or "").strip()
            if not isinstance(b, int):
                bits = int_bits(t)
                if bits is None: raise Unsupported("symbolic shift amount")
                b = ctx.concretize_int(b, 0, bits, "shift")
            if op.startswith("Shr"):
                # arithmetic on signed, logical on unsigned: both are floor division by 2^b of the mathematical value
                return a >> b if isinstance(a, int) else a / (2 ** b)
            r = a * (2 ** b)
            if int_bits(t) is None:
                if isinstance(r, int): return r
                raise Unsupported(f"left shift of unknown width ({t!r})")
            return wrap_int(r, t)
        if op == "Cmp":
            lt, eq = a < b, a == b
            if isinstance(lt, bool): return EnumV("Ordering", "Less" if lt else ("Equal" if eq else "Greater"))
            i = ctx.choose([lt, eq, z3.And(z3.Not(lt), z3.Not(eq))], "cmp")
            return EnumV("Ordering", ["Less", "Equal", "Greater"][i])
        raise Unsupported(f"binop {op}")

    # ================================================================ control
    def call_mir(self, ctx, fn, args, targs=None):
        """targs: the turbofish type arguments written at the call site (`helper::<Listed>`): they instantiate the callee's own
        type parameters, so that `<S as Trait>::method` inside its body can be resolved (MIR is not monomorphised)"""
        tp = self.prog.bind_tparams(fn, targs) if targs else None
        if not tp: return self._run_mir(ctx, fn, args)
        stack = self.__dict__.setdefault("_tparams", [])
        stack.append(tp)
        try:
            return self._run_mir(ctx, fn, args)
        finally:
            stack.pop()

    def subst_tparams(self, callee):
        stack = self.__dict__.get("_tparams")
        if not stack: return callee
        for tp in reversed(stack):
            for k, v in tp.items():
                if re.search(r"(?<![\w:])" + re.escape(k) + r"(?![\w])", callee):
                    callee = re.sub(r"(?<![\w:])" + re.escape(k) + r"(?![\w])", v, callee)
        return callee

    def _run_mir(self, ctx, fn, args):
        fr = Frame(fn)
        if len(args) != len(fn.params):
            raise Unsupported(f"arity mismatch calling {fn.name}: {len(args)} vs {len(fn.params)}")
        for (l, _), a in zip(fn.params, args):
            fr.cell(l).v = a
        ctx.funcs_used.add((fn.crate, fn.name))
        bb = "bb0"
        blocks = fn.blocks
        while True:
            ctx.steps += 1
            if ctx.steps > ctx.step_budget: raise Unsupported("step budget exceeded")
            blk = blocks.get(bb)
            if blk is None: raise Unsupported(f"{fn.name}: missing block {bb}")
            stmts, term = blk
            for st in stmts:
                if st[0] == "assign":
                    l = st[1][0]
                    v = self.rvalue(ctx, fr, st[2], fn.locals.get(l) if not st[1][1] else None)
                    self.write_place(ctx, fr, st[1], v)
                elif st[0] == "setdiscr":
                    raise Unsupported("SetDiscriminant")
            t = term[0]
            if t == "goto": bb = term[1]
            elif t == "return": return fr.cell("_0").v
            elif t == "switch":
                v = self.operand(ctx, fr, term[1])
                bb = self.switch(ctx, v, term[2], term[3])
            elif t == "drop": bb = term[2]
            elif t == "assert":
                c = self.operand(ctx, fr, term[2])
                if term[1]: c = znot(c)
                if ctx.branch(c, "assert"): bb = term[4]
                else: raise Panic(f"{fn.name}: assert {term[3]}")
            elif t == "call":
                dest, callee, aops, ret = term[1], term[2], term[3], term[4]
                args2 = [self.operand(ctx, fr, a) for a in aops]
                if callee[0] == "direct":
                    r = self.call(ctx, self.subst_tparams(callee[1]), args2, fr.fn.crate)
                else:
                    f = self.operand(ctx, fr, callee[1])
                    r = self.call_value(ctx, f, args2)
                if ret is None: raise Panic(f"{fn.name}: diverging call {callee[1]}")
                if dest is not None: self.write_place(ctx, fr, dest, r)
                bb = ret
            elif t == "unreachable":
                raise Unsupported(f"{fn.name}: reached `unreachable` in {bb}")
            elif t == "unparsed":
                raise Unsupported(f"{fn.name}: unparsed MIR in {bb}: {term[1]}")
            else:
                raise Unsupported(f"{fn.name}: terminator {t}")

    def switch(self, ctx, v, targets, otherwise):
        if isinstance(v, bool): v = int(v)
        if isinstance(v, EnumV): v = self.discriminant(v)
        if isinstance(v, Opaque) and v.tag == "char": v = ord(v.data)
        if isinstance(v, int):
            for k, b in targets:
                if k == v or (v < 0 and k in (v % U8, v % U64, v % U128, v % U32, v % U16)): return b
            if otherwise is None: raise Unsupported("switch without matching target")
            return otherwise
        if z3.is_bool(v):
            # targets are 0 (false) and otherwise/1
            opts, bbs = [], []
            for k, b in targets:
                opts.append(v if k else z3.Not(v)); bbs.append(b)
            if otherwise is not None:
                seen = {k for k, _ in targets}
                rest = [c for c in (0, 1) if c not in seen]
                if rest:
                    opts.append(zor(*[(v if c else z3.Not(v)) for c in rest])); bbs.append(otherwise)
            return bbs[ctx.choose(opts, "switch")]
        opts, bbs = [], []
        for k, b in targets:
            opts.append(v == k); bbs.append(b)
        if otherwise is not None:
            opts.append(z3.And([v != k for k, _ in targets]) if targets else True); bbs.append(otherwise)
        return bbs[ctx.choose(opts, "switch")]

    # ================================================================ calls
    def call(self, ctx, callee, args, cur_crate):
        if ctx.stubs:
            last = strip_generics(callee).split("::")[-1]
            st = ctx.stubs.get(last)
            if st is not None:
                ctx.models_used.add("stub:" + last)
                return st(self, ctx, callee, args, cur_crate)
        h = self.models.lookup(callee)
        if h is not None: h = self._unshadowed_model(h, callee, cur_crate)
        if h is not None and "::" not in strip_generics(callee) and "<" not in strip_generics(callee):
            # a bare name (`once`, `drop`, `min`): a function of that name defined by the crates under analysis wins over the library model
            f0 = self.prog.resolve(callee, cur_crate)
            if f0 is not None and f0.blocks and f0.crate in getattr(self.prog, "crates", ()): h = None
        if h is not None:
            ctx.models_used.add(h.__name__)
            r = h(self, ctx, callee, args, cur_crate)
            if r is not NotImplemented: return r
        f = self.prog.resolve(callee, cur_crate)
        if f is not None and f.blocks:
            return self.call_mir(ctx, f, args, _last_turbofish(callee))
        if f is not None and f.kind == "fn" and not f.blocks:
            raise Unsupported(f"empty MIR body for {callee}")
        h = self.models.lookup_fallback(callee)
        if h is not None:
            ctx.models_used.add(h.__name__)
            r = h(self, ctx, callee, args, cur_crate)
            if r is not NotImplemented: return r
        # enum variant / tuple struct constructor used as a function
        r = self.try_ctor(callee, args, cur_crate)
        if r is not None: return r
        # trait method without a body of its own under this name
        m = re.match(r"^<(.+) as ([\w:<>, ]+)>::(\w+)$", strip_generics(callee).strip())
        if m and args is not None:
            selfty, trait, meth = m.group(1).strip(), m.group(2), m.group(3)
            generic_self = bool(re.fullmatch(r"dyn [\w:]+|[A-Z]\w*|impl [\w:<>]+", selfty)) and (
                selfty.startswith(("dyn ", "impl ")) or self.prog.types.lookup(selfty, cur_crate) is None)
            if generic_self and args:
                # type parameter / trait object: dispatch on the run-time type of the receiver
                recv = self.force(ctx, self.deref(ctx, args[0])) if isinstance(args[0], (Ref, SymEnum)) else args[0]
                if isinstance(recv, (Struct, EnumV)):
                    f = self.prog.resolve(f"<{recv.ty} as {trait}>::{meth}", cur_crate)
                    if f is not None and f.blocks: return self.call_mir(ctx, f, args)
                elif isinstance(recv, tuple):
                    # impl for a tuple type: pick the impl of this trait whose self type is a tuple of the same arity
                    cands = [x for (sn_, m_), xs in self.prog.methods.items() if m_ == meth for x in xs
                             if x[1] == simple_name(trait) and (x[4] or "").strip().lstrip("&").startswith("(")
                             and len(split_top((x[4] or "").strip().lstrip("&")[1:-1])) == len(recv)]
                    if len(cands) == 1 and cands[0][2].blocks: return self.call_mir(ctx, cands[0][2], args)
            # provided (default) method of a trait of the crates under analysis: its body is printed under the trait's own path
            f = self.prog.resolve(f"{simple_name(trait)}::{meth}", cur_crate)
            if f is not None and f.blocks and f.crate in getattr(self.prog, "crates", ()) and not f.impl_at and len(f.params) == len(args):
                return self.call_mir(ctx, f, args)
        raise Unsupported(f"no MIR and no model for callee `{callee}` (crate {cur_crate})")

    _SHADOW_CACHE = {}

    def _unshadowed_model(self, h, callee, cur_crate):
        """library models are keyed by type names (`Version::new`, `<Version as PartialOrd>::lt`).  When the self type of the
        callee is *defined in a crate under analysis* it merely shares its name with the modelled library type: the model
        chosen for the same callee with the type name replaced by a neutral one (i.e. the generic model, or none) is used"""
        key = (id(self.prog), callee, cur_crate)
        if key in self._SHADOW_CACHE: return self._SHADOW_CACHE[key]
        name = strip_generics(callee).strip()
        m = re.match(r"^<(.*?) as .*>::\w+$", name)
        selfty = m.group(1) if m else ("::".join(name.split("::")[:-1]) if "::" in name else None)
        r = h
        if selfty and re.match(r"^[&\w:' ]+$", selfty):
            td = self.prog.types.lookup(selfty, cur_crate)
            q = selfty.strip().lstrip("&").replace("mut ", "").split("::")
            if (td is not None and td.crate in getattr(self.prog, "crates", ()) and simple_name(selfty) == td.name
                    and (len(q) == 1 or q[0].replace("_", "-") in self.prog.crates or q[0] in ("crate", "self", "super"))):
                neutral = re.sub(r"\b" + re.escape(td.name) + r"\b", "UserDefinedType0", callee)
                r = self.models.lookup(neutral)
        self._SHADOW_CACHE[key] = r
        return r

    def _unit_const(self, v, cur_crate):
        """a unit struct used as a constant is printed as its bare path"""
        if isinstance(v, FnItem):
            td = self.prog.types.lookup(strip_generics(v.path[0]), cur_crate)
            if td is not None and td.kind == "struct" and not td.fields: return Struct(td.name, [], [])
        return v

    def try_ctor(self, callee, args, cur_crate):
        name = strip_generics(callee)
        segs = name.split("::")
        if len(segs) >= 2:
            td = self.prog.types.lookup("::".join(segs[:-1]), cur_crate)
            if td is not None and td.kind == "enum" and any(v.name == segs[-1] for v in td.variants):
                return EnumV(td.name, segs[-1], args)
            if segs[-2] in ("Option", "Result") and segs[-1] in ("Some", "Ok", "Err"):
                return EnumV(segs[-2], segs[-1], args)
        td = self.prog.types.lookup(name, cur_crate)
        if td is not None and td.kind == "struct" and td.tuple_struct:
            if len(args) == 1 and td.name in TRANSPARENT: return args[0]
            return Struct(td.name, args)
        return None

    def call_value(self, ctx, f, args):
        """call a closure / fn item value with already-untupled args"""
        f = self.deref(ctx, f) if isinstance(f, Ref) else f
        if isinstance(f, Closure):
            fn = self.prog.closure_fn(f.loc)
            pty = fn.params[0][1].strip()
            env = Ref(Cell("closure-env", f)) if pty.startswith("&") else f
            return self.call_mir(ctx, fn, [env] + list(args))
        if isinstance(f, FnItem):
            path, crate = f.path
            return self.call(ctx, path, list(args), crate)
        raise Unsupported(f"call of non-callable {f!r}")
