"""Native replay: runs the real contracts (compiled from /repo's current tree) on concrete inputs via /verif/replay."""
import fcntl, json, os, subprocess, tempfile, hashlib
from . import build

VERIF = build.VERIF
BIN = os.path.join(build.WORK, "target-replay", "debug", "replay")
_ADDR_CACHE = {}


class ReplayUnavailable(Exception):
    pass


def ensure_built(verbose=False):
    """(re)build the replay binary against the current /repo tree (cargo decides what is stale)"""
    os.makedirs(build.WORK, exist_ok=True)
    stamp = os.path.join(build.WORK, "replay.stamp")
    h = build.tree_hash() + _dir_hash(os.path.join(VERIF, "replay"))
    if os.path.exists(BIN) and os.path.exists(stamp) and open(stamp).read() == h: return True
    lock = open(os.path.join(build.WORK, "replay.lock"), "w")
    fcntl.flock(lock, fcntl.LOCK_EX)
    try:
        if os.path.exists(BIN) and os.path.exists(stamp) and open(stamp).read() == h: return True
        env = dict(os.environ, CARGO_TARGET_DIR=os.path.join(build.WORK, "target-replay"), CARGO_NET_OFFLINE="true")
        env.pop("RUSTUP_TOOLCHAIN", None)
        r = subprocess.run(["cargo", "build", "--offline", "--quiet", "--manifest-path", os.path.join(VERIF, "replay", "Cargo.toml")],
                           env=env, stdout=subprocess.PIPE, stderr=subprocess.PIPE)
        if r.returncode != 0:
            raise build.BuildError("replay crate does not build against the current /repo tree:\n" + r.stderr.decode()[-3000:])
        open(stamp, "w").write(h)
        return True
    finally:
        fcntl.flock(lock, fcntl.LOCK_UN)


def _dir_hash(d):
    h = hashlib.sha256()
    for root, dirs, files in os.walk(d):
        dirs[:] = sorted(x for x in dirs if x not in ("target", "smoke"))
        for f in sorted(files):
            if f.endswith((".rs", ".toml")): h.update(open(os.path.join(root, f), "rb").read())
    return h.hexdigest()[:16]


def run(request, timeout=120):
    if not os.path.exists(BIN): raise ReplayUnavailable("replay binary missing")
    p = subprocess.run([BIN, "-"], input=json.dumps(request).encode(), stdout=subprocess.PIPE, stderr=subprocess.PIPE, timeout=timeout)
    if p.returncode != 0:
        raise ReplayUnavailable(f"replay exited {p.returncode}: {p.stderr.decode()[-500:]}")
    return json.loads(p.stdout.decode())


def addr_pool(n, prefix="acct"):
    """n valid mock addresses"""
    names = [f"{prefix}{i}" for i in range(n)]
    miss = [x for x in names if x not in _ADDR_CACHE]
    if miss:
        r = run({"mode": "addr", "names": miss})
        _ADDR_CACHE.update(r["addrs"])
    return [_ADDR_CACHE[x] for x in names]
