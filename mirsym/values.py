"""Value domain of the symbolic interpreter.

Data values are immutable trees; integers are Python ints or z3 Int terms (mathematical integers with explicit range
facts; wrapping exists only at `as` casts); booleans are Python bools or z3 Bool terms; strings are Python str
(literals), StrAtom (resolved abstract string) or SymStr (not yet resolved symbolic string).
"""
import z3

U8, U16, U32, U64, U128 = 2 ** 8, 2 ** 16, 2 ** 32, 2 ** 64, 2 ** 128
INTMAX = {"u8": U8, "u16": U16, "u32": U32, "u64": U64, "u128": U128, "usize": U64}
SINT = {"i8": 8, "i16": 16, "i32": 32, "i64": 64, "i128": 128, "isize": 64}
UBITS = {"u8": 8, "u16": 16, "u32": 32, "u64": 64, "u128": 128, "usize": 64}


def int_bits(ty):
    ty = (ty or "").strip()
    return UBITS.get(ty) or SINT.get(ty)


def int_bounds(ty):
    """(lo, hi) with lo <= v < hi for a primitive integer type"""
    ty = ty.strip()
    if ty in UBITS: return 0, 2 ** UBITS[ty]
    b = SINT[ty]
    return -(2 ** (b - 1)), 2 ** (b - 1)


def wrap_int(v, ty):
    """two's-complement wrap of a mathematical integer into a primitive type (python int or z3 Int)"""
    lo, hi = int_bounds(ty)
    m = hi - lo
    if isinstance(v, int): return (v - lo) % m + lo
    return (v - lo) % m + lo


class Struct:
    __slots__ = ("ty", "names", "fields")

    def __init__(self, ty, fields, names=None):
        self.ty, self.fields, self.names = ty, tuple(fields), (tuple(names) if names else None)

    def get(self, name):
        return self.fields[self.names.index(name)]

    def with_(self, name, v):
        f = list(self.fields); f[self.names.index(name)] = v
        return Struct(self.ty, f, self.names)

    def __repr__(self):
        if self.names: return f"{self.ty}{{{', '.join(f'{n}: {v!r}' for n, v in zip(self.names, self.fields))}}}"
        return f"{self.ty}{self.fields!r}"


class EnumV:
    __slots__ = ("ty", "variant", "fields", "names")

    def __init__(self, ty, variant, fields=(), names=None):
        self.ty, self.variant, self.fields, self.names = ty, variant, tuple(fields), (tuple(names) if names else None)

    def get(self, name):
        return self.fields[self.names.index(name)]

    def __repr__(self):
        if self.names: return f"{self.ty}::{self.variant}{{{', '.join(f'{n}: {v!r}' for n, v in zip(self.names, self.fields))}}}"
        return f"{self.ty}::{self.variant}{self.fields!r}" if self.fields else f"{self.ty}::{self.variant}"


class SymEnum:
    """enum value whose variant is not decided yet; forced (by a fork) the first time it is inspected"""
    __slots__ = ("id", "ty", "tdef", "targs", "name", "variants", "crate", "disc")

    def __init__(self, id, ty, tdef, targs, name, variants=None, crate=None, disc=None):
        self.id, self.ty, self.tdef, self.targs, self.name, self.variants, self.crate = id, ty, tdef, targs, name, variants, crate
        self.disc = disc          # z3 Int = variant index (always present for field-less enums; lets specs talk about an unforced value)

    def __repr__(self): return f"<?{self.ty} {self.name}>"


class SymVec:
    """Vec<T> whose length (<= bound) is not decided yet"""
    __slots__ = ("id", "elem_ty", "name", "bound", "min", "crate")

    def __init__(self, id, elem_ty, name, bound, min=0, crate=None):
        self.id, self.elem_ty, self.name, self.bound, self.min, self.crate = id, elem_ty, name, bound, min, crate

    def __repr__(self): return f"<?Vec<{self.elem_ty}> {self.name}>"


class VecV:
    __slots__ = ("items",)

    def __init__(self, items=()): self.items = tuple(items)
    def __repr__(self): return f"vec{list(self.items)!r}"
    def __len__(self): return len(self.items)


class Ref:
    __slots__ = ("cell", "path")

    def __init__(self, cell, path=()): self.cell, self.path = cell, tuple(path)
    def __repr__(self): return f"&{self.cell.name}{self.path if self.path else ''}"


class Cell:
    __slots__ = ("name", "v")

    def __init__(self, name, v=None): self.name, self.v = name, v


class Closure:
    __slots__ = ("loc", "caps", "names")

    def __init__(self, loc, caps, names=None): self.loc, self.caps, self.names = loc, tuple(caps), names
    def __repr__(self): return f"closure<{self.loc}>"


class FnItem:
    __slots__ = ("path",)

    def __init__(self, path): self.path = path
    def __repr__(self): return f"fn<{self.path}>"


class Opaque:
    __slots__ = ("tag", "data")

    def __init__(self, tag, data=None): self.tag, self.data = tag, data
    def __repr__(self): return f"<{self.tag}{':' + repr(self.data) if self.data is not None else ''}>"


class StrAtom:
    """a resolved abstract string: distinct atoms are distinct strings. `text` is known for literals."""
    __slots__ = ("idx", "text", "name", "rank", "len", "shape", "valid_addr", "version", "extra")

    def __init__(self, idx, name, text=None):
        self.idx, self.name, self.text, self.rank, self.len, self.shape = idx, name, text, None, None, None
        self.valid_addr, self.version, self.extra = None, None, None

    def __repr__(self): return f"str#{self.idx}" + (f"={self.text!r}" if self.text is not None else f"({self.name})")


class SymStr:
    """a symbolic string not yet resolved to an atom"""
    __slots__ = ("id", "name", "kind")

    def __init__(self, id, name, kind="str"): self.id, self.name, self.kind = id, name, kind
    def __repr__(self): return f"<?str {self.name}>"


class JsonBin:
    """Binary produced by to_json_binary(value): an injective constructor keeping the structured value"""
    __slots__ = ("value", "ty")

    def __init__(self, value, ty=None): self.value, self.ty = value, ty
    def __repr__(self): return f"json({self.value!r})"


class SymBin:
    """opaque symbolic Binary (arbitrary bytes)"""
    __slots__ = ("id", "name")

    def __init__(self, id, name): self.id, self.name = id, name
    def __repr__(self): return f"<?bin {self.name}>"


class IterV:
    """mutable iterator object (never copied by the programs we interpret)"""

    def __init__(self, nextfn, hint=None):
        self.nextfn, self.hint = nextfn, hint

    def next(self, I, ctx):
        return self.nextfn(I, ctx)

    def __repr__(self): return "<iter>"


class Panic(Exception):
    pass


class Infeasible(Exception):
    pass


class Unsupported(Exception):
    pass


def Ok(v): return EnumV("Result", "Ok", (v,))
def Err(e): return EnumV("Result", "Err", (e,))
def Some(v): return EnumV("Option", "Some", (v,))
NONE = EnumV("Option", "None", ())
UNIT = ()


def is_sym(v):
    return z3.is_expr(v)


def is_int(v):
    return (isinstance(v, int) and not isinstance(v, bool)) or (z3.is_expr(v) and z3.is_int(v))


def is_boolish(v):
    return isinstance(v, bool) or (z3.is_expr(v) and z3.is_bool(v))


def zand(*cs):
    cs = [c for c in cs if c is not True]
    if any(c is False for c in cs): return False
    if not cs: return True
    if len(cs) == 1: return cs[0]
    return z3.And(*cs)


def zor(*cs):
    cs = [c for c in cs if c is not False]
    if any(c is True for c in cs): return True
    if not cs: return False
    if len(cs) == 1: return cs[0]
    return z3.Or(*cs)


def znot(c):
    if isinstance(c, bool): return not c
    return z3.Not(c)


def zite(c, a, b):
    if c is True: return a
    if c is False: return b
    if isinstance(a, bool) and isinstance(b, bool):
        if a == b: return a
        return c if a else z3.Not(c)
    if isinstance(a, bool): a = z3.BoolVal(a)
    if isinstance(b, bool): b = z3.BoolVal(b)
    return z3.If(c, a, b)


def zimplies(a, b):
    return zor(znot(a), b)


def zeq(a, b):
    if not is_sym(a) and not is_sym(b): return a == b
    if isinstance(a, bool): return b if a else z3.Not(b)
    if isinstance(b, bool): return a if b else z3.Not(a)
    return a == b


def zsum(xs):
    xs = list(xs)
    if not xs: return 0
    s = xs[0]
    for x in xs[1:]: s = s + x
    return s
