"""Program = parsed MIR of several crates + type database + cross-crate name resolution."""
import hashlib, os, re
from . import build, mirparse, rtypes
from .mirparse import strip_generics, split_top
from .values import Unsupported

REG_CRATES = ["cw-utils", "cw-controllers", "cw2", "cw-storage-plus"]
DERIVE_TRAIT_BY_METHOD = {"clone": "Clone", "eq": "PartialEq", "ne": "PartialEq", "fmt": "Debug", "partial_cmp": "PartialOrd",
                          "cmp": "Ord", "default": "Default", "hash": "Hash", "from": "From", "source": "Error",
                          "assert_receiver_is_total_eq": "Eq"}


def simple_name(ty):
    """last path segment of a type, without refs / generics"""
    ty = ty.strip()
    while ty.startswith("&"):
        ty = ty[1:].strip()
        ty = re.sub(r"^'\w+\s+", "", ty)
        if ty.startswith("mut "): ty = ty[4:].strip()
    if ty.startswith("dyn "): ty = ty[4:]
    d = 0
    for i, c in enumerate(ty):
        if c == "<":
            ty = ty[:i]; break
    return ty.split("::")[-1].strip()


class Program:
    def __init__(self, crate, extra_crates=()):
        """crate: the workspace crate under verification (decides cfg features); its workspace deps are loaded too"""
        self.crate = crate
        crates = []

        def add(c):
            if c in crates: return
            for d in build.WS_DEPS[c]: add(d)
            crates.append(c)
        add(crate)
        for c in extra_crates: add(c)
        self.crates = crates
        mir = build.ensure(crates)
        self.funcs = {}              # crate -> {name: Func}
        self.mir_paths = {}
        for c in crates:
            self.funcs[c] = mirparse.parse_file(mir[c], c); self.mir_paths[c] = mir[c]
        for d in REG_CRATES:
            self.funcs[d] = mirparse.parse_file(mir["dep_" + d], d); self.mir_paths[d] = mir["dep_" + d]
        self.order = list(reversed(crates)) + REG_CRATES      # lookup preference after the current crate
        feats = build.features_of(crate)
        self.types = rtypes.TypeDB()
        self.types.add_crate("cosmwasm-std", os.path.join(build.registry_src("cosmwasm-std"), "src"), set(feats.get("cosmwasm-std", [])))
        for d in REG_CRATES:
            self.types.add_crate(d, os.path.join(build.registry_src(d), "src"), set(feats.get(d, [])))
        for c in crates:
            self.types.add_crate(c, os.path.join(build.REPO, build.WORKSPACE[c], "src"), {"library"})
        self._index()
        self._resolve_cache = {}
        self._repair_closure_aggregates()

    # ------------------------------------------------------------ indexing
    def _index(self):
        self.by_last = {}       # (crate, last segment) -> [Func]
        self.methods = {}       # (self simple name, method) -> [(crate, trait, Func)]
        self.closures = {}      # closure location text -> Func
        for c, fs in self.funcs.items():
            for n, f in fs.items():
                if n.startswith("!"): continue
                if f.kind == "bad": continue
                last = n.split("::")[-1]
                if "{closure#" in n:
                    if f.params:
                        m = re.search(r"\{closure@[^}]*\}", f.params[0][1])
                        if m: self.closures[(m.group(0))] = f
                    continue
                if f.impl_at:
                    path, line, col = f.impl_at.rsplit(":", 2)
                    if not os.path.isabs(path): path = os.path.join(getattr(self, "base_dirs", {}).get(c, build.REPO), path)
                    trait, selfty = rtypes.impl_header_at(path, int(line))
                    meth = last
                    if trait == "derive" or selfty is None:
                        trait = DERIVE_TRAIT_BY_METHOD.get(meth)
                        if meth in ("default",): selfty = f.ret
                        elif meth == "from": selfty = f.ret
                        elif f.params: selfty = f.params[0][1]
                        else: selfty = f.ret
                    tr = simple_name(trait) if trait else None
                    key = (simple_name(selfty), meth)
                    self.methods.setdefault(key, []).append((c, tr, f, trait, selfty))
                else:
                    self.by_last.setdefault((c, last), []).append(f)

    # ------------------------------------------------------------ rustc pretty-printer workaround
    def _repair_closure_aggregates(self):
        """`-Zunpretty=mir` prints a closure aggregate by zipping the captured *variable names* with the operands; with
        edition-2021 disjoint captures (two captures of one variable) the zip is short and the trailing operands are not
        printed.  The dropped operands are always temporaries (a fresh reference, or a copied reference field of a captured
        struct) assigned just before the aggregate and used nowhere else; they are recovered here (and the run is refused if that is not possible)."""
        self.closure_arity = {}
        for loc, f in self.closures.items():
            n = 0
            for txt in f.debug.values():
                for m in re.finditer(r"_1\)?\.(\d+):", txt): n = max(n, int(m.group(1)) + 1)
            for stmts, term in f.blocks.values():
                for pl in _places_of(stmts, term):
                    if pl[0] == "_1":
                        for e in pl[1]:
                            if e[0] == "f": n = max(n, e[1] + 1); break
                            if e[0] != "*": break
            self.closure_arity[loc] = n
        for c, fs in self.funcs.items():
            for f in fs.values():
                uses = None
                for bb, (stmts, term) in f.blocks.items():
                    for i, st in enumerate(stmts):
                        if st[0] == "assign" and st[2][0] == "closure":
                            loc, caps = st[2][1], st[2][2]
                            want = self.closure_arity.get(loc, len(caps))
                            if len(caps) >= want: continue
                            if uses is None: uses = _use_counts(f)
                            cand = []
                            for prev in stmts[:i]:
                                if prev[0] == "assign" and not prev[1][1] and prev[2][0] in ("ref", "use") and uses.get(prev[1][0], 0) == 0:
                                    cand.append(prev[1][0])
                            need = want - len(caps)
                            if len(cand) < need:
                                caps.append(("!unrecoverable", ("const", f"closure {loc}: {need} capture(s) missing from the MIR text")))
                                continue
                            for l in cand[-need:]:
                                caps.append(("?", ("move", (l, ()))))

    # ------------------------------------------------------------ resolution
    def resolve(self, callee, cur_crate):
        key = (callee, cur_crate)
        if key in self._resolve_cache: return self._resolve_cache[key]
        r = self._resolve(callee, cur_crate)
        self._resolve_cache[key] = r
        return r

    def _crate_pref(self, cur_crate):
        return [cur_crate] + [c for c in self.order if c != cur_crate]

    def _resolve(self, callee, cur_crate):
        callee = strip_generics(callee).strip()
        m = re.match(r"^<(.*) as (.*)>::(\w+)$", callee)
        if m and _balanced_angle(m.group(1)):
            selfty, trait, meth = m.group(1), m.group(2), m.group(3)
            return self._resolve_method(selfty, simple_name(trait), meth, cur_crate, trait_full=trait)
        m = re.match(r"^<(.*)>::(\w+)$", callee)
        if m:
            return self._resolve_method(m.group(1), None, m.group(2), cur_crate)
        segs = callee.split("::")
        last = segs[-1]
        quals = segs[:-1]
        # crate-qualified?
        crate_hint = None
        if quals:
            q0 = quals[0].replace("_", "-")
            if q0 in self.funcs: crate_hint, quals = q0, quals[1:]
        prefs = [crate_hint] if crate_hint else self._crate_pref(cur_crate)
        # 1. free function / const / static by path
        for c in prefs:
            cands = self.by_last.get((c, last), [])
            good = [f for f in cands if _path_compatible(f.name.split("::")[:-1], quals)]
            if len(good) == 1: return good[0]
            if len(good) > 1:
                exact = [f for f in good if f.name.split("::")[:-1] == quals]
                if len(exact) == 1: return exact[0]
                # prefer fn over ctor duplicates
                return good[0]
        # 2. inherent method  Type::method
        if quals:
            r = self._resolve_method(quals[-1], None, last, crate_hint or cur_crate, inherent_only=True, quals=quals[:-1])
            if r is not None: return r
        return None

    def _resolve_method(self, selfty, trait, meth, cur_crate, inherent_only=False, quals=(), trait_full=None):
        sn = simple_name(selfty)
        cands = self.methods.get((sn, meth), [])
        if trait is not None:
            cands = [x for x in cands if x[1] == trait]
            # distinguish  PartialEq<&str> for String  from PartialEq<String> : compare trait generic args when both present
            if len(cands) > 1 and trait_full and "<" in trait_full:
                def nrm(t):
                    t = re.sub(r"\s+", "", t[t.index("<"):]).replace("'_", "")
                    return re.sub(r"\b\w+::", "", t)
                want = nrm(trait_full)
                ex = [x for x in cands if x[3] and "<" in x[3] and nrm(x[3]) == want]
                if ex: cands = ex
            elif len(cands) > 1 and trait_full and "<" not in trait_full:
                # defaulted type parameter elided by the printer (`<T as Add>::add` is `Add<T>`, Rhs = Self)
                def arg(t): return re.sub(r"\b\w+::", "", re.sub(r"\s+", "", t[t.index("<") + 1:t.rindex(">")])) if t and "<" in t else None
                ex = [x for x in cands if arg(x[3]) in (None, sn, "Self")]
                if ex: cands = ex
        elif inherent_only:
            cands = [x for x in cands if x[1] is None] or cands
        if not cands: return None
        prefs = self._crate_pref(cur_crate)
        cands = sorted(cands, key=lambda x: prefs.index(x[0]) if x[0] in prefs else 99)
        # same simple name in several crates (ContractError, Config ...): honour qualifiers if given
        if quals:
            q = [s for s in quals if s not in ("crate", "self")]
            if q:
                q0 = q[0].replace("_", "-")
                ex = [x for x in cands if x[0] == q0]
                if ex: cands = ex
        return cands[0][2]

    def bind_tparams(self, fn, targs):
        """{type parameter name: written type argument} for a call `f::<A, B>(..)` of a generic function of the crates under
        analysis; the parameter names are read from the function's source header"""
        names = self.fn_generics(fn)
        # `impl Trait` parameters are appended to the written generics as anonymous ones: bind the written ones only
        if not names or len(names) > len(targs): return None
        targs = targs[:len(names)]
        out = {}
        for n, t in zip(names, targs):
            if re.fullmatch(r"[A-Z]\w*", n) and not re.fullmatch(r"[A-Z]\w?", t.strip()) and "{closure" not in t and not t.strip().startswith("impl "):
                out[n] = t.strip()
        return out or None

    def fn_generics(self, fn):
        cache = self.__dict__.setdefault("_fn_generics", {})
        key = (fn.crate, fn.name)
        if key in cache: return cache[key]
        names = None
        base = getattr(self, "base_dirs", {}).get(fn.crate) or (os.path.join(build.REPO, build.WORKSPACE[fn.crate]) if fn.crate in build.WORKSPACE else None)
        last = fn.name.split("::")[-1]
        if base and re.fullmatch(r"\w+", last):
            src = self.__dict__.setdefault("_src_text", {})
            if fn.crate not in src:
                txt = []
                for root, _, files in os.walk(os.path.join(base, "src")):
                    for f in sorted(files):
                        if f.endswith(".rs"): txt.append(rtypes.strip_comments(open(os.path.join(root, f)).read()))
                src[fn.crate] = "\n".join(txt)
            hits = re.findall(r"\bfn\s+" + re.escape(last) + r"\s*<([^()]*?)>\s*\(", src[fn.crate])
            hits = [h for h in hits if h.count("<") == h.count(">")]
            if len(hits) == 1:
                names = [re.split(r"[:=\s]", g.strip())[0] for g in mirparse.split_top(hits[0]) if g.strip() and not g.strip().startswith("'") and not g.strip().startswith("const ")]
        cache[key] = names
        return names

    def closure_fn(self, loc):
        f = self.closures.get(loc)
        if f is None: raise Unsupported(f"closure body not found: {loc}")
        return f

    # ------------------------------------------------------------ types
    def enum_def(self, path, cur_crate=None):
        td = self.types.lookup(path, cur_crate or self.crate)
        if td is not None and td.kind == "enum": return td
        return None

    def _builtin_enum(self, ty, cur_crate):
        """variant list of a std enum, unless a crate under analysis defines an enum of that name itself"""
        sn = simple_name(ty)
        b = rtypes.TypeDB.BUILTIN.get(sn)
        if b is None: return None
        td = self.types.lookup(ty, cur_crate or self.crate)
        if td is not None and td.kind == "enum" and td.crate in getattr(self, "crates", ()) and td.name == sn: return None
        return b

    def variant_index(self, ty, variant, cur_crate=None):
        sn = simple_name(ty)
        b = self._builtin_enum(ty, cur_crate)
        if b is not None and variant in b: return b.index(variant)
        td = self.types.lookup(ty, cur_crate or self.crate)
        if td is None or td.kind != "enum":
            raise Unsupported(f"unknown enum {ty}")
        return td.variant_index(variant)

    def variant_discr(self, ty, variant, cur_crate=None):
        """the value MIR's discriminant() yields for a variant (declared `= N` values are honoured)"""
        sn = simple_name(ty)
        b = self._builtin_enum(ty, cur_crate)
        if b is not None and variant in b: return b.index(variant)
        td = self.types.lookup(ty, cur_crate or self.crate)
        if td is None or td.kind != "enum":
            raise Unsupported(f"unknown enum {ty}")
        return self._discr_value(td, td.variant_index(variant))

    def _discr_value(self, td, idx):
        """declared discriminant; `= CONST` expressions are read from the crate's MIR constants, implicit ones continue from the previous variant"""
        v = td.variants[idx]
        if isinstance(v.discr, int): return v.discr
        if isinstance(v.discr, str):
            name = v.discr.strip()
            for c in [td.crate] + [c for c in self.funcs if c != td.crate]:
                for n, f in self.funcs.get(c, {}).items():
                    if f.kind == "constval" and n.split("::")[-1] == name.split("::")[-1]:
                        m = re.match(r"^(-?[\d_]+)_?[ui]\w+$", f.src.strip())
                        if m: return int(m.group(1).replace("_", ""))
            raise Unsupported(f"discriminant expression `{name}` of {td.name}::{v.name}")
        if idx == 0: return 0
        return self._discr_value(td, idx - 1) + 1

    def func_hash(self, f):
        h = hashlib.sha256(repr((f.params, f.ret, sorted(f.blocks.items()))).encode()).hexdigest()[:12]
        return h


def _balanced_angle(s):
    d = 0
    for i, c in enumerate(s):
        if c == "<": d += 1
        elif c == ">" and s[i - 1] not in "-=":
            d -= 1
            if d < 0: return False
    return d == 0


def _path_compatible(def_quals, call_quals):
    """trimmed paths: one must be a suffix of the other"""
    a, b = list(def_quals), [q for q in call_quals if q not in ("crate", "self", "super")]
    n = min(len(a), len(b))
    if n == 0: return True
    return a[-n:] == b[-n:]


def _places_of(stmts, term):
    out = []

    def op(o):
        if o[0] in ("copy", "move"): out.append(o[1])

    def rv(r):
        k = r[0]
        if k == "use": op(r[1])
        elif k == "ref": out.append(r[1])
        elif k == "binop": op(r[2]); op(r[3])
        elif k in ("unop",): op(r[2])
        elif k in ("discr", "len"): out.append(r[1])
        elif k == "cast": op(r[1])
        elif k in ("tuple", "array"):
            for o in r[1]: op(o)
        elif k == "repeat": op(r[1])
        elif k in ("closure", "struct"):
            for _, o in r[2]: op(o)
        elif k == "ctor":
            for o in r[2]: op(o)
    for st in stmts:
        if st[0] == "assign":
            rv(st[2])
            if st[1][1]: out.append(st[1])        # projection on the lhs reads the base
    t = term
    if t[0] == "switch": op(t[1])
    elif t[0] == "assert": op(t[2])
    elif t[0] == "drop": pass
    elif t[0] == "call":
        if t[2][0] == "indirect": op(t[2][1])
        for a in t[3]: op(a)
        if t[1] is not None and t[1][1]: out.append(t[1])
    return out


def _use_counts(f):
    uses = {}
    for stmts, term in f.blocks.values():
        for pl in _places_of(stmts, term):
            uses[pl[0]] = uses.get(pl[0], 0) + 1
            for e in pl[1]:
                if e[0] == "i" and isinstance(e[1], str): uses[e[1]] = uses.get(e[1], 0) + 1
    return uses
