"""Interpreter conformance run: every case function of the corpus crate /verif/conformance (uniform signature
fn(u64,u64,u64) -> i128, contract-style uses of std / cosmwasm-std / cw-utils / cw-storage-plus) is executed symbolically from
its MIR over all paths; for each path a solver model gives concrete inputs and the predicted result (or panic), and the native
build of the same crate is run on those inputs.  A mismatch is an interpreter (trusted base) bug; an Unsupported is a modelling
gap.  Usage: python3-vt -m mirsym.conformance [case-substring ...]   (writes /verif/out/conformance.json; exit 1 on any mismatch)
"""
import hashlib, json, os, subprocess, sys, time
import z3

VERIF = os.path.dirname(os.path.dirname(os.path.abspath(__file__)))
sys.path.insert(0, VERIF)
from mirsym import build, mirparse, rtypes
from mirsym.program import Program, REG_CRATES
from mirsym.ctx import Ctx, Stats
from mirsym.interp import Interp
from mirsym.values import *
from mirsym.models import load_all

CONF = os.path.join(VERIF, "conformance")
NAME = "mirconf"
U64 = 2 ** 64


def _dump_mir():
    os.makedirs(build.MIRDIR, exist_ok=True)
    h = build._hash_dir(CONF)
    out = os.path.join(build.MIRDIR, "conf_mirconf.mir")
    stamp = out + ".stamp"
    if os.path.exists(out) and os.path.exists(stamp) and open(stamp).read() == h: return out
    env = dict(os.environ, CARGO_TARGET_DIR=os.path.join(build.WORK, "target-conf-mir"), CARGO_NET_OFFLINE="true", RUSTUP_TOOLCHAIN="nightly", RUSTFLAGS="")
    subprocess.run(["touch", os.path.join(CONF, "src", "lib.rs")])
    r = subprocess.run(["cargo", "rustc", "--offline", "--lib", "--", "-Zunpretty=mir", "-C", "debug-assertions=off", "-C", "overflow-checks=on"],
                       cwd=CONF, env=env, stdout=subprocess.PIPE, stderr=subprocess.PIPE)
    if r.returncode != 0 or not r.stdout.strip():
        sys.stderr.write(r.stderr.decode(errors="replace")[-3000:])
        raise build.BuildError("MIR dump of the conformance crate failed")
    open(out, "wb").write(r.stdout)
    open(stamp, "w").write(h)
    return out


def _native_binary():
    env = dict(os.environ, CARGO_TARGET_DIR=os.path.join(build.WORK, "target-conf"), CARGO_NET_OFFLINE="true")
    env.pop("RUSTUP_TOOLCHAIN", None)
    r = subprocess.run(["cargo", "build", "--offline", "--quiet"], cwd=CONF, env=env, stdout=subprocess.PIPE, stderr=subprocess.STDOUT)
    if r.returncode != 0:
        sys.stderr.write(r.stdout.decode(errors="replace")[-3000:])
        raise build.BuildError("native build of the conformance crate failed")
    return os.path.join(build.WORK, "target-conf", "debug", NAME)


class ConfProgram(Program):
    def __init__(self):
        self.crate = NAME
        self.crates = [NAME]
        deps = build.ensure(["cw1"])
        mir = _dump_mir()
        self.funcs = {NAME: mirparse.parse_file(mir, NAME)}
        self.mir_paths = {NAME: mir}
        for d in REG_CRATES:
            self.funcs[d] = mirparse.parse_file(deps["dep_" + d], d); self.mir_paths[d] = deps["dep_" + d]
        self.order = [NAME] + REG_CRATES
        self.base_dirs = {NAME: CONF}
        feats = {"cosmwasm-std": ["std", "staking", "stargate", "iterator", "default"]}
        self.types = rtypes.TypeDB()
        self.types.add_crate("cosmwasm-std", os.path.join(build.registry_src("cosmwasm-std"), "src"), set(feats["cosmwasm-std"]))
        for d in REG_CRATES:
            self.types.add_crate(d, os.path.join(build.registry_src(d), "src"), set())
        self.types.add_crate(NAME, os.path.join(CONF, "src"), set())
        self._index()
        self._resolve_cache = {}
        self._repair_closure_aggregates()


def case_functions(prog):
    """{registry name: Func} — cases are the fns with the uniform signature"""
    out = {}
    for n, f in prog.funcs[NAME].items():
        if f.kind == "bad" or "{closure" in n or n.startswith("!"): continue
        if [t for _, t in f.params] == ["u64", "u64", "u64"] and f.ret.strip() == "i128":
            out[n] = f
    return out


def explore_case(prog, M, name, f, path_limit=400, models_per_path=2, time_limit=60):
    I = Interp(prog, M)
    stats = Stats()
    work = [[]]
    rows, unsupported = [], []
    t0 = time.time()
    paths = 0
    while work and paths < path_limit and time.time() - t0 < time_limit:
        dec = work.pop()
        ctx = Ctx(prog, dec, bounds=None, stats=stats, timeout_ms=5000)
        ctx.storage_default_empty = True          # cases start from an empty MockStorage
        a, b, c = [ctx.fresh_int(n, 0, U64) for n in ("a", "b", "c")]
        try:
            try:
                r = ("ret", I.call_mir(ctx, f, [a, b, c]))
            except Panic as e:
                r = ("panic", str(e))
        except Infeasible:
            work.extend(ctx.pending); continue
        except Unsupported as e:
            unsupported.append(str(e)); work.extend(ctx.pending); paths += 1
            if len(unsupported) > 3: break
            continue
        except RecursionError:
            unsupported.append("recursion limit"); work.extend(ctx.pending); continue
        except Exception as e:
            unsupported.append(f"interpreter crash: {type(e).__name__}: {e}"); work.extend(ctx.pending); paths += 1
            continue
        work.extend(ctx.pending)
        paths += 1
        s = ctx.solver
        s.push()
        for k in range(models_per_path):
            if s.check() != z3.sat: break
            m = s.model()
            av, bv, cv = [m.eval(x, model_completion=True).as_long() for x in (a, b, c)]
            if r[0] == "panic": pred = "panic"
            else:
                v = r[1]
                if isinstance(v, bool): pred = None
                elif isinstance(v, int): pred = v
                elif z3.is_expr(v):
                    ev = m.eval(v, model_completion=True)
                    pred = ev.as_long() if z3.is_int_value(ev) else None
                else: pred = None
                if pred is None:
                    unsupported.append(f"result is not an integer: {r[1]!r}"); break
            rows.append((av, bv, cv, pred))
            # next model: prefer a different region (large values / boundary) when the path allows it
            s.add(z3.Or(a != av, b != bv, c != cv))
            if k == 0: s.add(z3.Or(a > 2 ** 32, b > 2 ** 32, c > 2 ** 32, a + b + c < 16))
        s.pop()
    truncated = bool(work)
    return {"paths": paths, "rows": rows, "unsupported": unsupported, "truncated": truncated, "seconds": round(time.time() - t0, 2)}


def main(argv):
    t0 = time.time()
    prog = ConfProgram()
    M = load_all()
    cases = case_functions(prog)
    binary = _native_binary()
    names = subprocess.run([binary, "--list"], stdout=subprocess.PIPE).stdout.decode().split()
    # rustc prints trimmed paths (a name unique in the crate loses its module): map MIR names back to registry names
    by_last = {}
    for n in names: by_last.setdefault(n.split("::")[-1], []).append(n)
    reg_of = {}
    for n in cases:
        if n in names: reg_of[n] = n
        else:
            c = by_last.get(n.split("::")[-1], [])
            if len(c) == 1: reg_of[n] = c[0]
    sel = [n for n in sorted(cases, key=lambda x: reg_of.get(x, x)) if not argv or any(x in reg_of.get(n, n) for x in argv)]
    results, lines = {}, []
    for n in sel:
        r = explore_case(prog, M, n, cases[n])
        results[n] = r
        reg = reg_of.get(n)
        r["registry_name"] = reg
        if reg is None: r["unsupported"].append("case is not in the native registry"); continue
        for (a, b, c, pred) in r["rows"]: lines.append(f"{reg} {a} {b} {c}")
    out = subprocess.run([binary], input="\n".join(lines).encode(), stdout=subprocess.PIPE).stdout.decode().splitlines()
    native = {}
    for ln in out:
        lhs, _, rhs = ln.partition(" => ")
        native[lhs] = rhs.strip()
    mism = 0
    summary = {"cases": len(sel), "agree": 0, "mismatch": 0, "unsupported": 0, "truncated": 0, "inputs_compared": 0}
    for n in sel:
        r = results[n]
        r["mismatches"] = []
        for (a, b, c, pred) in r["rows"]:
            got = native.get(f"{r['registry_name']} {a} {b} {c}")
            summary["inputs_compared"] += 1
            if got is None or got != str(pred):
                r["mismatches"].append({"input": [a, b, c], "predicted": str(pred), "native": got})
        r["rows"] = len(r["rows"])
        if r["mismatches"]: summary["mismatch"] += 1
        elif r["unsupported"]: summary["unsupported"] += 1
        else: summary["agree"] += 1
        if r["truncated"]: summary["truncated"] += 1
    summary["seconds"] = round(time.time() - t0, 1)
    os.makedirs(os.path.join(VERIF, "out"), exist_ok=True)
    json.dump({"summary": summary, "cases": results}, open(os.path.join(VERIF, "out", "conformance.json"), "w"), indent=1)
    if not argv:
        # committed digest of the last full run (per case: paths explored, inputs compared, verdict)
        digest = {"summary": summary, "corpus_hash": build._hash_dir(CONF)[:16],
                  "cases": {(r.get("registry_name") or n): {"paths": r["paths"], "inputs": r["rows"],
                            "verdict": "mismatch" if r["mismatches"] else ("unsupported: " + r["unsupported"][0][:100] if r["unsupported"] else "agree")}
                            for n, r in results.items()}}
        json.dump(digest, open(os.path.join(CONF, "RESULTS.json"), "w"), indent=1, sort_keys=True)
    for n in sel:
        r = results[n]
        nm = r.get("registry_name") or n
        if r["mismatches"]: print(f"MISMATCH {nm}: {r['mismatches'][:2]}")
        elif r["unsupported"]: print(f"unsupported {nm}: {r['unsupported'][0][:160]}")
    print(json.dumps(summary))
    return 1 if summary["mismatch"] else 0


if __name__ == "__main__":
    sys.exit(main(sys.argv[1:]))
