"""Light-weight reader of Rust `struct` / `enum` / `impl` headers from source files.

Used for: enum variant order (MIR `discriminant`/`switchInt` use declaration indices), struct field names/types (to build
fresh symbolic values of a type and to (de)serialise values as the contract's serde JSON for native replay), and to map
`<impl at file:line:col>` names in MIR to (trait, self type).  Re-read from /repo's working tree on every run.
"""
import os, re
from dataclasses import dataclass, field
from .mirparse import split_top


@dataclass
class Field:
    name: str            # field name, or "0","1" for tuple fields
    ty: str
    attrs: list = field(default_factory=list)


@dataclass
class Variant:
    name: str
    kind: str            # unit | tuple | struct
    fields: list
    attrs: list = field(default_factory=list)
    discr: object = None    # value MIR's `discriminant()` yields (explicit `= N` or previous + 1); None until the enum is complete


@dataclass
class TypeDef:
    name: str
    kind: str            # struct | enum
    generics: list       # type parameter names
    fields: list         # struct: [Field]; tuple struct: [Field("0"),...]
    variants: list       # enum
    attrs: list
    crate: str
    module: str          # module path inside the crate (a::b)
    tuple_struct: bool = False
    file: str = ""

    def variant_index(self, name):
        for i, v in enumerate(self.variants):
            if v.name == name: return i
        raise KeyError(f"{self.name}::{name}")

    def serde_rename_all(self):
        for a in self.attrs:
            if a.startswith("cw_serde"): return "snake_case"
            m = re.search(r'rename_all\s*=\s*"(\w+)"', a)
            if m and a.startswith("serde"): return m.group(1)
        return None


def strip_comments(src):
    out, i, n = [], 0, len(src)
    while i < n:
        c = src[i]
        if src.startswith("//", i):
            j = src.find("\n", i)
            if j < 0: j = n
            i = j
        elif src.startswith("/*", i):
            d, j = 1, i + 2
            while j < n and d:
                if src.startswith("/*", j): d += 1; j += 2
                elif src.startswith("*/", j): d -= 1; j += 2
                else:
                    if src[j] == "\n": out.append("\n")
                    j += 1
            i = j
        elif c == '"':
            j = i + 1
            while j < n and src[j] != '"':
                if src[j] == "\\": j += 1
                j += 1
            out.append(src[i:j + 1]); i = j + 1
        elif c == "'" and i + 2 < n and src[i + 2] == "'":
            out.append(src[i:i + 3]); i += 3
        elif c == "'" and src.startswith("'\\", i) and "'" in src[i + 2:i + 6]:
            j = src.index("'", i + 2)
            out.append(src[i:j + 1]); i = j + 1
        else:
            out.append(c); i += 1
    return "".join(out)


def _match(s, i, o, c):
    d = 0
    n = len(s)
    while i < n:
        ch = s[i]
        if ch == '"':
            i += 1
            while i < n and s[i] != '"':
                if s[i] == "\\": i += 1
                i += 1
        elif ch == o: d += 1
        elif ch == c:
            d -= 1
            if d == 0: return i
        i += 1
    raise ValueError("unbalanced")


def _take_attrs(s):
    """split leading #[...] attributes from an item/field text"""
    attrs = []
    s = s.lstrip()
    while s.startswith("#"):
        k = s.index("[")
        e = _match(s, k, "[", "]")
        attrs.append(s[k + 1:e].strip())
        s = s[e + 1:].lstrip()
    return attrs, s


def _cfg_ok(attrs, features, cfg_test=False):
    for a in attrs:
        if not a.startswith("cfg("): continue
        body = a[4:-1].strip()
        v = _eval_cfg(body, features)
        if v is False: return False
    return True


def _eval_cfg(body, features):
    body = body.strip()
    m = re.fullmatch(r'feature\s*=\s*"([^"]+)"', body)
    if m: return m.group(1) in features
    if body == "test": return False
    m = re.fullmatch(r"not\((.*)\)", body, re.S)
    if m:
        v = _eval_cfg(m.group(1), features)
        return None if v is None else (not v)
    m = re.fullmatch(r"(all|any)\((.*)\)", body, re.S)
    if m:
        vs = [_eval_cfg(x, features) for x in split_top(m.group(2))]
        if m.group(1) == "all":
            if any(v is False for v in vs): return False
            return True if all(v is True for v in vs) else None
        if any(v is True for v in vs): return True
        return False if all(v is False for v in vs) else None
    if body.startswith("target_arch"):
        return 'wasm32' not in body if "=" in body else None
    return None


def _parse_fields_named(body, features):
    out = []
    for item in split_top(body):
        attrs, rest = _take_attrs(item)
        if not rest: continue
        if not _cfg_ok(attrs, features): continue
        rest = re.sub(r"^pub(\([^)]*\))?\s+", "", rest)
        if ":" not in rest: continue
        n, t = rest.split(":", 1)
        out.append(Field(n.strip(), " ".join(t.split()), attrs))
    return out


def _parse_fields_tuple(body, features):
    out = []
    for i, item in enumerate(split_top(body)):
        attrs, rest = _take_attrs(item)
        if not rest: continue
        if not _cfg_ok(attrs, features): continue
        rest = re.sub(r"^pub(\([^)]*\))?\s+", "", rest)
        out.append(Field(str(len(out)), " ".join(rest.split()), attrs))
    return out


_ITEM = re.compile(r"\b(struct|enum)\s+([A-Za-z_][A-Za-z_0-9]*)")


def parse_source(src, crate, module, features, path=""):
    src = strip_comments(src)
    defs = []
    for m in _ITEM.finditer(src):
        kind, name = m.group(1), m.group(2)
        # must be at item position: preceded by start/`pub`/attribute end/`}`/`;`
        pre = src[:m.start()].rstrip()
        if pre and not re.search(r"(\bpub(\([^)]*\))?|[\]};{])$", pre): continue
        # attributes immediately before (walk back over `pub` and #[...] groups)
        attrs = _attrs_before(src, m.start())
        if not _cfg_ok(attrs, features): continue
        i = m.end()
        generics = []
        rest = src[i:]
        j = 0
        while j < len(rest) and rest[j].isspace(): j += 1
        if j < len(rest) and rest[j] == "<":
            e = _match(rest, j, "<", ">")
            for g in split_top(rest[j + 1:e]):
                g = g.strip()
                if g.startswith("'") or g.startswith("const "): continue
                generics.append(re.split(r"[:=\s]", g)[0])
            j = e + 1
        # skip where clause up to { ( or ;
        k = j
        while k < len(rest) and rest[k] not in "{(;": k += 1
        if k >= len(rest): continue
        td = TypeDef(name, kind, generics, [], [], attrs, crate, module, file=path)
        if rest[k] == ";":
            pass
        elif rest[k] == "(" and kind == "struct":
            e = _match(rest, k, "(", ")")
            td.fields = _parse_fields_tuple(rest[k + 1:e], features)
            td.tuple_struct = True
        elif rest[k] == "{":
            e = _match(rest, k, "{", "}")
            body = rest[k + 1:e]
            if kind == "struct":
                td.fields = _parse_fields_named(body, features)
            else:
                for item in split_top(body):
                    vattrs, r = _take_attrs(item)
                    if not r: continue
                    if not _cfg_ok(vattrs, features): continue
                    mm = re.match(r"^([A-Za-z_][A-Za-z_0-9]*)\s*(.*)$", r, re.S)
                    vn, tail = mm.group(1), mm.group(2).strip()
                    if tail.startswith("("):
                        ee = _match(tail, 0, "(", ")")
                        td.variants.append(Variant(vn, "tuple", _parse_fields_tuple(tail[1:ee], features), vattrs))
                    elif tail.startswith("{"):
                        ee = _match(tail, 0, "{", "}")
                        td.variants.append(Variant(vn, "struct", _parse_fields_named(tail[1:ee], features), vattrs))
                    else:
                        td.variants.append(Variant(vn, "unit", [], vattrs))
                        md = re.match(r"^=\s*(-?[\d_]+)(?:[ui]\w+)?\s*$", tail)
                        if md: td.variants[-1].discr = int(md.group(1).replace("_", ""))
                        elif tail.startswith("="): td.variants[-1].discr = tail[1:].strip()      # constant expression: resolved from MIR
                nxt = 0
                for v_ in td.variants:
                    if v_.discr is None and nxt is not None: v_.discr = nxt
                    nxt = v_.discr + 1 if isinstance(v_.discr, int) else None
        else:
            continue
        defs.append(td)
    return defs


def _attrs_before(src, pos):
    attrs = []
    s = src[:pos].rstrip()
    s = re.sub(r"\bpub(\([^)]*\))?$", "", s).rstrip()
    while s.endswith("]"):
        # find matching '[' preceded by '#'
        d, i = 0, len(s) - 1
        while i >= 0:
            if s[i] == "]": d += 1
            elif s[i] == "[":
                d -= 1
                if d == 0: break
            i -= 1
        if i <= 0 or s[i - 1] != "#": break
        attrs.append(s[i + 1:-1].strip())
        s = s[:i - 1].rstrip()
    attrs.reverse()
    return attrs


_IMPL = re.compile(r"^\s*(unsafe\s+)?impl\b")


def impl_header_at(path, line, cache={}):
    """returns (trait or None, self type text) for an `impl` starting at path:line, or ('derive', None) for attribute lines"""
    key = (path, line)
    if key in cache: return cache[key]
    try:
        lines = cache.get(("F", path))
        if lines is None:
            lines = open(path, encoding="utf-8", errors="replace").read().split("\n")
            cache[("F", path)] = lines
    except OSError:
        cache[key] = (None, None); return cache[key]
    txt = " ".join(lines[line - 1:line + 8])
    if not _IMPL.match(txt):
        cache[key] = ("derive", None); return cache[key]
    k = txt.find("{")
    hdr = txt[:k] if k >= 0 else txt
    hdr = re.sub(r"^\s*(unsafe\s+)?impl\s*", "", hdr).strip()
    if hdr.startswith("<"):
        e = _match(hdr, 0, "<", ">")
        hdr = hdr[e + 1:].strip()
    hdr = re.split(r"\bwhere\b", hdr)[0].strip()
    # split "Trait for Type"
    parts = _split_for(hdr)
    if len(parts) == 2:
        cache[key] = (parts[0].strip(), parts[1].strip())
    else:
        cache[key] = (None, hdr)
    return cache[key]


def _split_for(hdr):
    d = 0
    for i, c in enumerate(hdr):
        if c in "<([": d += 1
        elif c in ">)]" and hdr[i - 1:i + 1] != "->": d -= 1
        elif d == 0 and hdr.startswith(" for ", i):
            return [hdr[:i], hdr[i + 5:]]
    return [hdr]


class TypeDB:
    """all struct/enum definitions visible to one crate under verification (crate-specific cfg features)"""

    BUILTIN = {
        "Option": ["None", "Some"], "Result": ["Ok", "Err"], "ControlFlow": ["Continue", "Break"],
        "Ordering": ["Less", "Equal", "Greater"], "Bound": ["Included", "Excluded", "Unbounded"],
        "Entry": ["Vacant", "Occupied"],
    }

    def __init__(self):
        self.defs = []                 # [TypeDef]
        self.by_name = {}              # simple name -> [TypeDef]
        self.imports = {}              # crate -> {simple name: crate it is imported from}

    def add_crate(self, crate, srcdir, features):
        for root, dirs, files in os.walk(srcdir):
            dirs.sort()
            for f in sorted(files):
                if not f.endswith(".rs"): continue
                p = os.path.join(root, f)
                rel = os.path.relpath(p, srcdir)[:-3].replace(os.sep, "::")
                module = "" if rel in ("lib", "main") else re.sub(r"(::)?mod$", "", rel)
                try:
                    src = open(p, encoding="utf-8", errors="replace").read()
                except OSError:
                    continue
                # cut test modules
                src = re.sub(r"#\[cfg\(test\)\]\s*(pub\s+)?mod\s+\w+\s*\{", "#[cfg(test)] mod __t {", src)
                k = src.find("#[cfg(test)] mod __t {")
                if k >= 0: src = src[:k]
                for m in re.finditer(r"\buse\s+([a-z_][a-z0-9_]*)::([^;]+);", strip_comments(src)):
                    src_crate = m.group(1).replace("_", "-")
                    if src_crate in ("crate", "self", "super", "std", "core", "alloc"): continue
                    for nm in re.findall(r"\b([A-Z][A-Za-z0-9_]*)\b", m.group(2)):
                        self.imports.setdefault(crate, {}).setdefault(nm, src_crate)
                try:
                    for td in parse_source(src, crate, module, features, p):
                        self.defs.append(td)
                        self.by_name.setdefault(td.name, []).append(td)
                except Exception:
                    pass

    def lookup(self, path, prefer_crate=None):
        """resolve a (possibly trimmed, possibly qualified) type path to a TypeDef or None"""
        path = re.sub(r"<.*>$", "", path.strip())
        path = path.lstrip("&").replace("mut ", "").strip()
        segs = [s for s in path.split("::") if s]
        if not segs: return None
        name = segs[-1]
        cands = self.by_name.get(name, [])
        if not cands: return None
        if len(cands) == 1: return cands[0]
        quals = segs[:-1]
        scored = []
        for td in cands:
            full = [td.crate.replace("-", "_")] + [m for m in td.module.split("::") if m]
            score = 0
            # qualifier segments must appear (in order) as a suffix-ish match of the full path
            if quals:
                fq = full
                ok = all(q in fq for q in quals if q not in ("crate", "self", "super"))
                if not ok: continue
                score += 10 * len(quals)
            if prefer_crate and td.crate == prefer_crate: score += 5
            if prefer_crate and self.imports.get(prefer_crate, {}).get(name) == td.crate: score += 4
            scored.append((score, td))
        if not scored: return None
        scored.sort(key=lambda x: -x[0])
        if len(scored) > 1 and scored[0][0] == scored[1][0]:
            # ambiguous: prefer definitions in /repo crates over registry ones, then first
            pass
        return scored[0][1]
