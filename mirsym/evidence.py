"""Aggregate VC results into the verdict, the console report and evidence/<id>.json."""
import json, os, subprocess
import z3
from . import build

VERIF = build.VERIF


def _conformance_digest():
    """summary of the last full run of the interpreter conformance corpus (conformance/RESULTS.json; not re-run by the checks)"""
    try:
        d = json.load(open(os.path.join(VERIF, "conformance", "RESULTS.json")))
        return {"corpus": "conformance/ (crate mirconf)", "corpus_hash": d.get("corpus_hash"), **{k: d["summary"].get(k) for k in ("cases", "agree", "mismatch", "unsupported", "inputs_compared")},
                "how": "python3-vt -m mirsym.conformance: every case executed symbolically over all paths, solver models run against the native build"}
    except Exception:
        return None


def report(pid, tier, seed, spec, vcs, results, wall):
    crashes = [r for r in results if "crash" in r]
    ok = [r for r in results if "crash" not in r]
    violations = [v for r in ok for v in r["violations"]]
    known = [k for r in ok for k in r["known"]]
    inconcl = [i for r in ok for i in r.get("inconclusive", [])]
    unsupported = [(r["vc"], u) for r in ok for u in r["unsupported"]]
    truncated = [r["vc"] for r in ok if r["truncated"]]
    vacuous = []
    wit, twin = {}, {}
    for r in ok:
        for w, found in r["witness"].items(): wit[w] = wit.get(w, False) or found
        for t, failed in r["twin"].items(): twin[t] = twin.get(t, False) or failed
        if r["paths"] == 0: vacuous.append(f"{r['vc']}: no feasible path")
        if not any(r["twin"].values()) and not any(r["witness"].values()) and r["paths"] > 0 and (r["twin"] or r["witness"]):
            pass
    # a witness / twin must be met by at least one VC of the property (VCs of one family share the names)
    for w, found in wit.items():
        if not found: vacuous.append(f"witness `{w}` unreachable in every VC")
    for t, failed in twin.items():
        if not failed: vacuous.append(f"twin obligation `{t}` was not refuted in any VC (vacuity guard)")
    need = getattr(spec, "REQUIRED_WITNESSES", None)
    q = {"unsat": 0, "sat": 0, "unknown": 0, "trivial": 0}
    for r in ok:
        for k in q: q[k] += r["queries"].get(k, 0)
    paths = sum(r["paths"] for r in ok)
    funcs, hashes, models = set(), {}, set()
    for r in ok:
        funcs |= set(r["funcs"]); hashes.update(r["func_hashes"]); models |= set(r["models"])
    outcomes = {}
    for r in ok:
        for k, v in r["outcomes"].items(): outcomes[k] = outcomes.get(k, 0) + v
    samples = [s for r in ok for s in r["samples"]][:6]
    for v in violations[:3]:
        samples.append({"counterexample": v["obligation"], "vc": v["vc"], "model": dict(list(v.get("model", {}).items())[:20])})
    for k in known[:3]:
        samples.append({"known_finding": k["signature"], "vc": k["vc"], "obligation": k["obligation"]})
    if not samples:
        samples = [{"vc": r["vc"], "paths": r["paths"], "obligations": r["obligations"][:6]} for r in ok[:3]]
    repo_funcs = sorted(f for f in funcs if not f.startswith(("cw-utils::", "cw-controllers::", "cw2::", "cw-storage-plus::")))
    ev = {
        "property_id": pid, "tier": tier, "seed": seed, "level": "model_checking",
        "coverage": {
            "states": max(paths, 0), "transitions": q["unsat"] + q["sat"] + q["unknown"] + q["trivial"],
            "traces_validated_against_impl": sum(r.get("validated", 0) for r in ok) + sum(1 for v in violations if v.get("native")),
            "samples": samples,
            "explanation": "states = symbolic execution paths of the real MIR explored to completion (each is a set of concrete runs "
                           "characterised by its path condition); transitions = obligations discharged by the solver on those paths "
                           "(unsat = holds for every value satisfying the path condition within the bounds)",
            "vcs": [{"vc": r["vc"], "paths": r["paths"], "outcomes": r["outcomes"], "queries": r["queries"], "obligations": r["obligations"],
                     "solver_calls": r["solver_calls"], "solver_time_s": r["solver_time"], "wall_s": r["wall"], "truncated": r["truncated"],
                     "witness": r["witness"], "twin_refuted": r["twin"]} for r in ok],
            "queries": q, "paths_by_outcome": outcomes,
            "functions_encoded": {f: hashes.get(f, "") for f in repo_funcs},
            "dependency_functions_interpreted_from_mir": sorted(f for f in funcs if f not in repo_funcs),
            "models_used": sorted(models),
            "bounds": getattr(spec, "BOUNDS", {}).get(tier, getattr(spec, "BOUNDS", {})),
            "outside_the_bounds": getattr(spec, "OUTSIDE", ""),
            "solver": {"name": "z3", "version": z3.get_version_string(), "time_s": round(sum(r["solver_time"] for r in ok), 3),
                       "calls": sum(r["solver_calls"] for r in ok)},
            "second_solver": {"name": "cvc5 1.0 (SMT-LIB2 dump of each non-trivial obligation, thorough tier of specs that opt in)",
                              "agree": sum(r.get("second_solver", {}).get("agree", 0) for r in ok), "disagree": sum(r.get("second_solver", {}).get("disagree", 0) for r in ok),
                              "no_answer": sum(r.get("second_solver", {}).get("no-answer", 0) for r in ok)},
            "interpreter_conformance": _conformance_digest(),
            "known_findings_matched": known, "inconclusive": inconcl[:10], "unsupported": unsupported[:10], "vacuity": vacuous,
            "tree": build.tree_hash(),
        },
        "assumptions": list(getattr(spec, "ASSUMPTIONS", [])) + [
            "platform: Err/panic roll back all writes; messages in a Response are dispatched after the call returns",
            "cosmwasm-std / cw-storage-plus core / Rust std are modelled by hand (models_used lists the handlers hit)",
            "storage holds only well-typed values written by the contract's own Item/Map definitions"],
        "wall_s": round(wall, 2),
        "violations": len(violations),
    }
    os.makedirs(os.path.join(VERIF, "evidence"), exist_ok=True)
    with open(os.path.join(VERIF, "evidence", f"{pid}.json"), "w") as f:
        json.dump(ev, f, indent=1, default=str)
    # ---------------- console
    print(f"[{pid}] tier={tier} VCs={len(ok)} paths={paths} queries={q} solver={ev['coverage']['solver']['time_s']}s wall={wall:.1f}s")
    for r in ok:
        print(f"  {r['vc']}: paths={r['paths']} {r['outcomes']} unsat={r['queries']['unsat']} sat={r['queries']['sat']} wall={r['wall']}s")
    for k in known:
        print(f"KNOWN-FINDING: property={pid} {k['signature']}: {k['what_fails']}")
    code = 0
    for v in violations:
        print(f"VIOLATION property={pid} replay={v['replay_file']}")
        print(f"  obligation {v['obligation']} in {v['vc']}; model: {json.dumps(dict(list(v.get('model', {}).items())[:16]), default=str)}")
        code = 1
    if code == 0:
        probs = []
        for c in crashes: probs.append(f"checker crashed in {c['vc']}: {c['crash']}\n{c.get('trace', '')}")
        for vc, u in unsupported: probs.append(f"{vc}: unsupported: {u}")
        for i in inconcl: probs.append(f"{i.get('vc')}: counterexample for {i.get('obligation')} did not reproduce natively: {i.get('why')} {i.get('diffs', '')} [{i.get('replay_file', '')}]")
        for t in truncated: probs.append(f"{t}: exploration truncated (budget)")
        for r in ok:
            for vf in r.get("validation_failures", []):
                probs.append(f"{vf['vc']}: encoder validation failed: native run differs from the interpreter on a sampled path: {vf.get('diffs')}")
        for v in vacuous: probs.append(v)
        if q["unknown"]: probs.append(f"{q['unknown']} solver queries returned unknown")
        if probs:
            for p in probs[:25]: print(f"INCONCLUSIVE property={pid}: {p}")
            code = 2
    if code == 0: print(f"[{pid}] holds within the stated bounds ({q['unsat']} obligations unsat, {q['trivial']} trivially true)")
    return code


def _diff_count(pid):
    p = os.path.join(VERIF, ".work", f"diff_{pid}.json")
    try:
        return int(json.load(open(p)).get("agreed", 0))
    except Exception:
        return 0
