"""Per-path context: decision trace, path condition, solver, string atoms, lazy value forcing, storage model."""
import re, time
import z3
from .values import *


class Stats:
    def __init__(self):
        self.solver_calls = 0
        self.solver_time = 0.0
        self.steps = 0


class Ctx:
    def __init__(self, prog, decisions=(), bounds=None, stats=None, timeout_ms=20000):
        self.prog = prog
        self.decisions = list(decisions)
        self.taken = []
        self.labels = []
        self.pending = []
        self.pc = []
        self.solver = z3.Solver()
        self.solver.set("timeout", timeout_ms)
        self.timeout_ms = timeout_ms
        self.feas_timeout_ms = 3000
        self.stats = stats or Stats()
        self.bounds = dict(vec=2, **(bounds or {}))
        self.nfresh = 0
        self.storage = {}          # namespace -> ItemStore | MapStore
        self.atoms = []            # [StrAtom]
        self.lit_atoms = {}        # text -> StrAtom
        self.str_bind = {}         # SymStr.id -> StrAtom
        self.forced = {}           # SymEnum.id / SymVec.id -> concrete value
        self.vars = {}             # name -> z3 var (for model printing / concretisation)
        self.env = None            # environment object supplied by the spec (querier answers ...)
        self.events = []           # ghost log (spec-defined)
        self.notes = []
        self.models_used = set()
        self.funcs_used = set()
        self.steps = 0
        self.step_budget = 200000
        self.bin_parse = {}        # (SymBin.id, type) -> parsed value cache
        self.diseq = []            # decided disequalities between string classes
        self.case_variants = []    # pairs of distinct classes decided to be equal up to ASCII case (str::eq_ignore_ascii_case)
        self.sym_reduce = False
        self.stubs = {}            # callee last segment -> handler (spec-declared nondeterministic stubs)

    # ------------------------------------------------------------ fresh symbols
    def fresh_name(self, name):
        self.nfresh += 1
        return f"{name}#{self.nfresh}"

    def fresh_int(self, name, lo=0, hi=None, unique=True):
        n = self.fresh_name(name) if unique else name
        v = z3.Int(n)
        self.vars[n] = v
        if lo is not None: self.assume(v >= lo)
        if hi is not None: self.assume(v < hi)
        return v

    def fresh_bool(self, name, unique=True):
        n = self.fresh_name(name) if unique else name
        v = z3.Bool(n)
        self.vars[n] = v
        return v

    def fresh_id(self):
        self.nfresh += 1
        return self.nfresh

    # ------------------------------------------------------------ path condition / decisions
    def assume(self, c):
        if c is True: return
        if c is False: raise Infeasible()
        self.pc.append(c)
        self.solver.add(c)

    def check(self, extra=None):
        t0 = time.time()
        self.stats.solver_calls += 1
        if extra is not None:
            self.solver.push(); self.solver.add(extra)
        r = self.solver.check()
        if extra is not None: self.solver.pop()
        self.stats.solver_time += time.time() - t0
        return r

    def feasible(self, c):
        if c is True: return self._pc_ok()
        if c is False: return False
        self.solver.set("timeout", self.feas_timeout_ms)
        r = self.check(c)
        self.solver.set("timeout", self.timeout_ms)
        if r == z3.unknown:
            # over-approximate: keep the branch (sound for verification; a spurious path can only produce a counterexample
            # that fails the native replay gate, never a missed behaviour)
            self.stats.unknown_feasibility = getattr(self.stats, "unknown_feasibility", 0) + 1
            return True
        return r == z3.sat

    def _pc_ok(self):
        return True

    def choose(self, options, label=""):
        """options: list of conditions (python bool or z3 Bool). Returns index of the option taken on this path."""
        k = len(self.taken)
        if k < len(self.decisions):
            i = self.decisions[k]
            self.taken.append(i); self.labels.append(label)
            self.assume(options[i])
            return i
        feas = [i for i, c in enumerate(options) if self.feasible(c)]
        if not feas: raise Infeasible()
        i = feas[0]
        for j in feas[1:]:
            self.pending.append(self.taken + [j])
        self.taken.append(i); self.labels.append(label)
        self.assume(options[i])
        return i

    def branch(self, cond, label=""):
        if isinstance(cond, bool): return cond
        cond = z3.simplify(cond)
        if z3.is_true(cond): return True
        if z3.is_false(cond): return False
        return self.choose([cond, z3.Not(cond)], label) == 0

    def concretize_int(self, v, lo, hi, label="idx", beyond="value"):
        """fork v over the concrete values lo..hi-1.  Values at or above hi are not dropped: they form one more branch, which
        yields `hi` itself (callers pass hi = one more than the largest value they distinguish, e.g. len + 1 for an index,
        and treat everything >= len alike) or raises Unsupported when beyond="unsupported"."""
        if isinstance(v, int): return v
        v = z3.simplify(v)
        if z3.is_int_value(v): return v.as_long()
        i = self.choose([v == k for k in range(lo, hi)] + [v >= hi, v < lo], label)
        if i == hi - lo:
            if beyond == "unsupported": raise Unsupported(f"{label}: value beyond the {hi - lo} cases enumerated")
            return hi
        if i == hi - lo + 1: raise Unsupported(f"{label}: value below {lo}")
        return lo + i

    # ------------------------------------------------------------ strings (union-find over abstract string classes)
    def new_atom(self, name, text=None, universe=None):
        a = StrAtom(len(self.atoms), name, text)
        a.rank = self.fresh_int(f"rank[{name}]", None, None)
        a.extra = {"parent": None, "universe": universe, "touched": text is not None}
        for b in self.atoms:
            if text is not None and b.text is not None and self.find(b) is b:
                self.assume(a.rank < b.rank if text < b.text else a.rank > b.rank)
        self.atoms.append(a)
        if text is not None: self.lit_atoms[text] = a
        return a

    def find(self, a):
        while a.extra["parent"] is not None: a = a.extra["parent"]
        return a

    def atom_of(self, s):
        """class representative of a string value (never forks)"""
        if isinstance(s, StrAtom): return self.find(s)
        if isinstance(s, str):
            a = self.lit_atoms.get(s)
            if a is None: a = self.new_atom(f"lit:{s[:16]}", s)
            return self.find(a)
        if isinstance(s, SymStr):
            a = self.str_bind.get(s.id)
            if a is None:
                a = self.new_atom(s.name)
                self.str_bind[s.id] = a
            return self.find(a)
        raise Unsupported(f"not a string: {s!r}")

    def _known_distinct(self, x, y):
        if x.text is not None and y.text is not None: return x.text != y.text
        for (p, q) in self.diseq:
            fp, fq = self.find(p), self.find(q)
            if (fp is x and fq is y) or (fp is y and fq is x): return True
        return False

    def _sym_pruned(self, x, y):
        """symmetry reduction over still-untouched universe atoms (opt-in per VC): if class x was already decided to differ
        from an untouched universe atom u_j (still untouched), the case x == u_i for another untouched u_i is a renaming of
        the case x == u_j that was explored"""
        if not self.sym_reduce: return False
        for a, b in ((x, y), (y, x)):
            if b.extra["universe"] is not None and not b.extra["touched"]:
                for (p, q) in self.diseq:
                    fp, fq = self.find(p), self.find(q)
                    o = fq if fp is a else (fp if fq is a else None)
                    if o is not None and o is not b and o.extra["universe"] is not None and not o.extra["touched"] \
                            and o.extra["universe"][0] == b.extra["universe"][0]:
                        return True
        return False

    # ---- structured strings: an atom may carry a shape  ("pre", literal_prefix, inner)  or  ("split3", sep, a, b, rest)
    def shaped(self, kind, *parts):
        """the (interned) atom for a structured string built from parts"""
        parts = tuple(self.atom_of(p) if not isinstance(p, str) or i >= 1 and kind == "pre" and False else p for i, p in enumerate(parts))
        if kind == "pre":
            prefix, inner = parts[0], self.atom_of(parts[1])
            if inner.text is not None: return self.atom_of(prefix + inner.text)
            for a in self.atoms:
                r = self.find(a)
                if r.shape is not None and r.shape[0] == "pre" and r.shape[1] == prefix and self.find(r.shape[2]) is inner: return r
            a = self.new_atom(f"{prefix}{inner.name}")
            a.shape = ("pre", prefix, inner)
            a.extra["touched"] = True
            return a
        raise Unsupported(f"shape {kind}")

    def _excluded(self, atom, key):
        return key in atom.extra.get("not", ())

    def _exclude(self, atom, key):
        atom.extra.setdefault("not", set()).add(key)

    def str_starts_with(self, s, prefix):
        if isinstance(s, str): return s.startswith(prefix)
        x = self.atom_of(s)
        if x.text is not None: return x.text.startswith(prefix)
        if x.shape is not None:
            if x.shape[0] == "pre":
                if x.shape[1] == prefix: return True
                if x.shape[1].startswith(prefix): return True
                if not prefix.startswith(x.shape[1]): return False
                return self.str_starts_with(x.shape[2], prefix[len(x.shape[1]):])
            raise Unsupported(f"starts_with on a {x.shape[0]}-shaped string")
        if self._excluded(x, ("pre", prefix)): return False
        if self.choose([True, True], f"{x.name} starts_with {prefix!r}?") == 0:
            inner = self.new_atom(f"{x.name}[{len(prefix)}..]")
            x.shape = ("pre", prefix, inner)
            return True
        self._exclude(x, ("pre", prefix))
        return False

    def str_after_prefix(self, s, n):
        """s[n..] for a string known to start with an n-byte literal prefix"""
        if isinstance(s, str): return s[n:] if len(s.encode()) >= n else None
        x = self.atom_of(s)
        if x.text is not None: return x.text[n:] if len(x.text.encode()) >= n else None
        if x.shape is not None and x.shape[0] == "pre" and len(x.shape[1].encode()) == n: return self.find(x.shape[2])
        raise Unsupported(f"slice [{n}..] of unstructured string {x!r}")

    def str_split3(self, s, sep):
        """splitn(3, sep): returns the list of parts (1, 2 or 3)"""
        if isinstance(s, str): return s.split(sep, 2)
        x = self.atom_of(s)
        if x.text is not None: return x.text.split(sep, 2)
        if x.shape is not None:
            if x.shape[0] == "split3" and x.shape[1] == sep: return [self.find(p) for p in x.shape[2:]]
            if x.shape[0] == "pre":
                # assumption (stated in the spec): a literal-prefixed identifier such as cw20:<address> contains no separator
                return [x]
        if self._excluded(x, ("split3", sep)): return [x]
        if self.choose([True, True], f"{x.name} has 3 {sep!r}-parts?") == 0:
            parts = [self.new_atom(f"{x.name}.part{i}") for i in range(3)]
            x.shape = ("split3", sep) + tuple(parts)
            return parts
        self._exclude(x, ("split3", sep))
        return [x]

    def str_eq(self, a, b):
        if isinstance(a, str) and isinstance(b, str): return a == b
        x, y = self.atom_of(a), self.atom_of(b)
        if x is y: return True
        if self._known_distinct(x, y): return False
        # structured strings are compared structurally
        for p, q in ((x, y), (y, x)):
            if p.shape is not None and p.shape[0] == "pre":
                pre = p.shape[1]
                if q.text is not None:
                    if not q.text.startswith(pre): return False
                    r = self.str_eq(p.shape[2], q.text[len(pre):])
                    if r: self._merge(p, q)
                    return r
                if q.shape is not None and q.shape[0] == "pre" and q.shape[1] == pre:
                    r = self.str_eq(p.shape[2], q.shape[2])
                    if r: self._merge(p, q)
                    else:
                        self.diseq.append((p, q)); self.assume(p.rank != q.rank)
                    return r
                if self._excluded(q, ("pre", pre)):
                    return False
            if p.shape is not None and p.shape[0] == "split3" and q.shape is not None and q.shape[0] == "split3" and p.shape[1] == q.shape[1]:
                r = all(self.str_eq(u, v) for u, v in zip(p.shape[2:], q.shape[2:]))
                if r: self._merge(p, q)
                return r
        if x.shape is not None and y.shape is not None and x.shape[0] != y.shape[0]:
            raise Unsupported(f"comparison of differently structured strings {x!r} / {y!r}")
        if self._sym_pruned(x, y):
            self.diseq.append((x, y)); self.assume(x.rank != y.rank)
            return False
        if self.choose([True, True], f"{x.name}=={y.name}?") == 0:
            self._merge(x, y); return True
        self.diseq.append((x, y)); self.assume(x.rank != y.rank)
        return False

    def str_eq_nocase(self, a, b):
        """str::eq_ignore_ascii_case: equal strings, or (a further fork) two distinct strings that differ only in ASCII case.
        The relation is not closed under transitivity here (over-approximation: a spurious combination fails its native replay)."""
        if isinstance(a, str) and isinstance(b, str): return a.lower() == b.lower()
        if self.str_eq(a, b): return True
        x, y = self.atom_of(a), self.atom_of(b)
        if x.text is not None and y.text is not None: return x.text.lower() == y.text.lower()
        for p, q in self.case_variants:
            if {self.find(p), self.find(q)} == {self.find(x), self.find(y)}: return True
        if self.choose([True, True], f"{x.name}~{y.name} (ASCII-case variant)?") == 0:
            self.case_variants.append((x, y)); return True
        return False

    def _merge(self, x, y):
        # keep the universe / literal atom as representative
        if (y.extra["universe"] is not None and x.extra["universe"] is None) or (y.text is not None and x.text is None and x.extra["universe"] is None):
            x, y = y, x
        y.extra["parent"] = x
        x.extra["touched"] = True; y.extra["touched"] = True
        self.assume(x.rank == y.rank)
        if y.text is not None and x.text is None:
            x.text = y.text; self.lit_atoms[y.text] = x
            for o in self.atoms:
                if o is not x and self.find(o) is o and o.text is not None:
                    self.assume(x.rank < o.rank if x.text < o.text else x.rank > o.rank)
        for attr in ("len", "valid_addr"):
            vx, vy = getattr(x, attr), getattr(y, attr)
            if vx is not None and vy is not None: self.assume(vx == vy)
            elif vy is not None: setattr(x, attr, vy)
        if x.text is not None and x.len is not None: self.assume(x.len == len(x.text.encode()))
        if y.version is not None:
            if x.version is None: x.version = y.version
            else:
                self.assume(x.version[0] == y.version[0])
                for p, q in zip(x.version[1].fields, y.version[1].fields): self.assume(p == q)
        if y.shape is not None and x.shape is None: x.shape = y.shape

    def str_lt(self, a, b):
        """strict order on strings: a total order consistent with equality (abstract; literals ordered by text)"""
        if isinstance(a, str) and isinstance(b, str): return a < b
        if self.str_eq(a, b): return False
        x, y = self.atom_of(a), self.atom_of(b)
        return self.branch(x.rank < y.rank, "str<")

    def str_len(self, a):
        if isinstance(a, str): return len(a.encode())
        x = self.atom_of(a)
        if x.text is not None: return len(x.text.encode())
        if x.len is None:
            x.len = self.fresh_int(f"len[{x.name}]", 0, 2 ** 32)
        return x.len

    def touch(self, a):
        self.atom_of(a).extra["touched"] = True

    # ------------------------------------------------------------ model helpers
    def model(self, extra=None):
        s = z3.Solver(); s.set("timeout", 60000)
        s.add(*self.pc)
        if extra is not None: s.add(extra)
        r = s.check()
        return r, (s.model() if r == z3.sat else None)


class ItemStore:
    def __init__(self, ns, present, value, ty=None):
        self.ns, self.present, self.value, self.ty = ns, present, value, ty

    def copy(self):
        return ItemStore(self.ns, self.present, self.value, self.ty)


class MapStore:
    """finite table: slots [key(tuple), present, value]; every key not listed is absent (closed world, part of the bound)"""

    def __init__(self, ns, slots=None, key_ty=None, val_ty=None):
        self.ns, self.key_ty, self.val_ty = ns, key_ty, val_ty
        self.slots = [list(s) for s in (slots or [])]

    def copy(self):
        return MapStore(self.ns, [list(s) for s in self.slots], self.key_ty, self.val_ty)

    def find(self, ctx, key):
        for i, (k, p, v) in enumerate(self.slots):
            if key_eq(ctx, k, key): return i
        return None

    def get(self, ctx, key):
        """returns (present, value) ; present may be symbolic"""
        i = self.find(ctx, key)
        if i is None: return False, None
        return self.slots[i][1], self.slots[i][2]

    def put(self, ctx, key, value):
        i = self.find(ctx, key)
        if i is None: self.slots.append([tuple(key), True, value])
        else:
            self.slots[i][1] = True; self.slots[i][2] = value

    def delete(self, ctx, key):
        i = self.find(ctx, key)
        if i is not None:
            self.slots[i][1] = False


def key_eq(ctx, a, b):
    if len(a) != len(b): raise Unsupported(f"key arity {a} {b}")
    for x, y in zip(a, b):
        if not comp_eq(ctx, x, y): return False
    return True


def comp_eq(ctx, x, y):
    if isinstance(x, (str, StrAtom, SymStr)) or isinstance(y, (str, StrAtom, SymStr)):
        return ctx.str_eq(x, y)
    if isinstance(x, int) and isinstance(y, int): return x == y
    if is_int(x) and is_int(y): return ctx.branch(x == y, "key=")
    if isinstance(x, VecV) and isinstance(y, VecV):
        if len(x) != len(y): return False
        return all(comp_eq(ctx, p, q) for p, q in zip(x.items, y.items))
    raise Unsupported(f"key component compare {x!r} {y!r}")


def comp_lt(ctx, x, y):
    if isinstance(x, (str, StrAtom, SymStr)) or isinstance(y, (str, StrAtom, SymStr)):
        return ctx.str_lt(x, y)
    if isinstance(x, int) and isinstance(y, int): return x < y
    if is_int(x) and is_int(y): return ctx.branch(x < y, "key<")
    raise Unsupported(f"key component order {x!r} {y!r}")


def key_lt(ctx, a, b):
    for x, y in zip(a, b):
        if comp_eq(ctx, x, y): continue
        return comp_lt(ctx, x, y)
    return False
