"""Fresh symbolic values of a Rust type (from the source type definitions), with lazy enums / vectors."""
import re
import z3
from .values import *
from .mirparse import split_top
from .program import simple_name

INT_RANGES = {"u8": U8, "u16": U16, "u32": U32, "u64": U64, "u128": U128, "usize": U64}


def parse_ty(ty):
    """returns (head simple name, [generic arg strings]) ; tuples -> ('(tuple)', [...]); refs stripped"""
    ty = ty.strip()
    while ty.startswith("&"):
        ty = ty[1:].strip()
        ty = re.sub(r"^'\w+\s+", "", ty)
        if ty.startswith("mut "): ty = ty[4:].strip()
    if ty.startswith("(") and ty.endswith(")"):
        inner = ty[1:-1].strip()
        return "(tuple)", (split_top(inner) if inner else [])
    if ty.startswith("[") and ty.endswith("]"):
        inner = ty[1:-1]
        m = re.match(r"^(.*); (\d+)$", inner)
        if m: return "[array]", [m.group(1), m.group(2)]
        return "Vec", [inner]
    k = ty.find("<")
    if k < 0: return ty, []
    head, args = ty[:k], ty[k + 1:ty.rindex(">")]
    return head, [a for a in split_top(args) if not a.startswith("'")]


def fresh(I, ctx, ty, name, tenv=None, crate=None):
    """fresh symbolic value of Rust type `ty`"""
    tenv = tenv or {}
    head, args = parse_ty(ty)
    sn = head.split("::")[-1]
    if head in tenv: return fresh(I, ctx, tenv[head], name, None, crate)
    if sn in INT_RANGES: return ctx.fresh_int(name, 0, INT_RANGES[sn])
    if sn == "bool": return ctx.fresh_bool(name)
    if sn in ("String", "str", "Addr"): return SymStr(ctx.fresh_id(), name, "addr" if sn == "Addr" else "str")
    if sn == "Uint128": return ctx.fresh_int(name, 0, U128)
    if sn == "Uint64": return ctx.fresh_int(name, 0, U64)
    if sn == "Decimal": return ctx.fresh_int(name, 0, U128)
    if sn == "Timestamp": return ctx.fresh_int(name, 0, U64)
    if sn == "Binary": return SymBin(ctx.fresh_id(), name)
    if sn == "Empty": return Struct("Empty", [], [])
    if sn == "(tuple)": return tuple(fresh(I, ctx, a, f"{name}.{i}", tenv, crate) for i, a in enumerate(args))
    if sn == "Vec":
        return SymVec(ctx.fresh_id(), _subst(args[0], tenv), name, ctx.bounds.get("vec", 2), 0, crate)
    if sn == "[array]":
        return VecV([fresh(I, ctx, args[0], f"{name}[{i}]", tenv, crate) for i in range(int(args[1]))])
    if sn == "Option":
        return SymEnum(ctx.fresh_id(), "Option", None, [_subst(args[0], tenv)], name, None, crate)
    if sn == "Box": return fresh(I, ctx, args[0], name, tenv, crate)
    if sn == "PhantomData": return Opaque("zst")
    td = I.prog.types.lookup(head, crate or I.prog.crate)
    if td is None: raise Unsupported(f"fresh value of unknown type {ty}")
    targs = [_subst(a, tenv) for a in args]
    env2 = dict(zip(td.generics, targs))
    for g in td.generics:
        env2.setdefault(g, "Empty")
    if td.kind == "enum":
        disc = ctx.fresh_int(f"{name}.variant", 0, len(td.variants))
        return SymEnum(ctx.fresh_id(), td.name, td, env2, name, None, td.crate, disc)
    if td.tuple_struct:
        vals = [fresh(I, ctx, f.ty, f"{name}.{f.name}", env2, td.crate) for f in td.fields]
        if len(vals) == 1 and td.name in ("Uint128", "Uint64", "Decimal", "Addr", "Binary", "Timestamp"): return vals[0]
        return Struct(td.name, vals)
    return Struct(td.name, [fresh(I, ctx, f.ty, f"{name}.{f.name}", env2, td.crate) for f in td.fields], [f.name for f in td.fields])


def _subst(ty, tenv):
    if not tenv: return ty
    ty = ty.strip()
    if ty in tenv: return tenv[ty]
    for g, t in tenv.items():
        ty = re.sub(r"\b%s\b" % re.escape(g), t, ty)
    return ty


def force_enum(I, ctx, v):
    if v.ty == "Option":
        if v.variants is not None: opts = v.variants
        else: opts = ["None", "Some"]
        i = ctx.choose([True] * len(opts), f"{v.name}?")
        if opts[i] == "None": return NONE
        return Some(fresh(I, ctx, v.targs[0], f"{v.name}!", None, v.crate))
    td = v.tdef
    names = [x.name for x in td.variants]
    allowed = v.variants if v.variants is not None else names
    idxs = [i for i, n in enumerate(names) if n in allowed]
    k = idxs[ctx.choose([(v.disc == i) if v.disc is not None else True for i in idxs], f"{v.name}:{td.name}")]
    var = td.variants[k]
    vals = [fresh(I, ctx, f.ty, f"{v.name}.{var.name}.{f.name}", v.targs, td.crate) for f in var.fields]
    return EnumV(td.name, var.name, vals, [f.name for f in var.fields] if var.kind == "struct" else None)


def force_vec(I, ctx, v):
    n = v.min + ctx.choose([True] * (v.bound - v.min + 1), f"len({v.name})")
    return VecV([fresh(I, ctx, v.elem_ty, f"{v.name}[{i}]", None, v.crate) for i in range(n)])
