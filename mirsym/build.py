"""Build stage: dump MIR of /repo's current working tree (and of the immutable registry deps), cache by content hash.

Nothing here is sampled or cached across *source* changes: a crate's MIR is re-dumped whenever the hash of its own
sources or of any workspace crate it depends on changes.  Everything lives under /verif/.work (never /tmp).
"""
import fcntl, hashlib, json, os, re, shutil, subprocess, sys, time

REPO = os.environ.get("VERIF_REPO", "/repo")
VERIF = os.path.dirname(os.path.dirname(os.path.abspath(__file__)))
WORK = os.environ.get("VERIF_WORK", os.path.join(VERIF, ".work"))
MIRDIR = os.path.join(WORK, "mir")
TARGET = os.path.join(WORK, "target-mir")

WORKSPACE = {
    "cw1": "packages/cw1", "cw20": "packages/cw20", "cw3": "packages/cw3", "cw4": "packages/cw4",
    "cw1-whitelist": "contracts/cw1-whitelist", "cw1-subkeys": "contracts/cw1-subkeys",
    "cw20-base": "contracts/cw20-base", "cw20-ics20": "contracts/cw20-ics20",
    "cw3-fixed-multisig": "contracts/cw3-fixed-multisig", "cw3-flex-multisig": "contracts/cw3-flex-multisig",
    "cw4-group": "contracts/cw4-group", "cw4-stake": "contracts/cw4-stake",
}
# workspace-internal dependency edges (for hash propagation)
WS_DEPS = {
    "cw1": [], "cw20": [], "cw3": ["cw20"], "cw4": [],
    "cw1-whitelist": ["cw1"], "cw1-subkeys": ["cw1", "cw1-whitelist"],
    "cw20-base": ["cw20"], "cw20-ics20": ["cw20"],
    "cw3-fixed-multisig": ["cw3", "cw20"], "cw3-flex-multisig": ["cw3", "cw3-fixed-multisig", "cw4", "cw20"],
    "cw4-group": ["cw4"], "cw4-stake": ["cw4", "cw20"],
}
HAS_LIBRARY_FEATURE = {"cw1-whitelist", "cw1-subkeys", "cw20-base", "cw20-ics20", "cw3-fixed-multisig",
                       "cw3-flex-multisig", "cw4-group", "cw4-stake"}
# registry dependencies interpreted from their own MIR (immutable; dumped once).  value = a workspace crate that
# depends on them (cargo needs a -p spec resolvable from the workspace)
REGISTRY = {"cw-utils": "cw-utils@2.0.0", "cw-controllers": "cw-controllers@2.0.0", "cw2": "cw2@2.0.0",
            "cw-storage-plus": "cw-storage-plus@2.0.0"}


def registry_src(name):
    base = os.path.expanduser("~/.cargo/registry/src")
    for d in os.listdir(base):
        for e in os.listdir(os.path.join(base, d)):
            if re.fullmatch(re.escape(name) + r"-\d+\.\d+\.\d+", e):
                if name == "cw-utils" and e != "cw-utils-2.0.0": continue
                if name == "cw-storage-plus" and e != "cw-storage-plus-2.0.0": continue
                if name == "cw-controllers" and e != "cw-controllers-2.0.0": continue
                if name == "cw2" and e != "cw2-2.0.0": continue
                if name == "cosmwasm-std" and e != "cosmwasm-std-2.0.2": continue
                return os.path.join(base, d, e)
    raise FileNotFoundError(name)


def _hash_dir(path):
    h = hashlib.sha256()
    for root, dirs, files in os.walk(path):
        dirs[:] = sorted(d for d in dirs if d not in ("target", ".git"))
        for f in sorted(files):
            if f.endswith((".rs", ".toml")):
                p = os.path.join(root, f)
                h.update(os.path.relpath(p, path).encode())
                h.update(open(p, "rb").read())
    return h.hexdigest()


def crate_hashes():
    own = {c: _hash_dir(os.path.join(REPO, p)) for c, p in WORKSPACE.items()}
    lock = hashlib.sha256(open(os.path.join(REPO, "Cargo.lock"), "rb").read()
                          + open(os.path.join(REPO, "Cargo.toml"), "rb").read()).hexdigest()
    full = {}

    def rec(c):
        if c in full: return full[c]
        h = hashlib.sha256((own[c] + lock).encode())
        for d in sorted(WS_DEPS[c]): h.update(rec(d).encode())
        full[c] = h.hexdigest()
        return full[c]
    for c in WORKSPACE: rec(c)
    return full


def tree_hash():
    h = hashlib.sha256()
    for c, v in sorted(crate_hashes().items()): h.update(v.encode())
    return h.hexdigest()[:16]


def _env():
    e = dict(os.environ)
    e.update(CARGO_TARGET_DIR=TARGET, CARGO_NET_OFFLINE="true", RUSTUP_TOOLCHAIN="nightly", RUSTFLAGS="")
    e.pop("RUSTC_WRAPPER", None)
    return e


def _dump(crate, cwd, pkgspec, features, out):
    # force re-emission: cargo prints nothing for a fresh unit, so drop this crate's fingerprint first
    fp = os.path.join(TARGET, "debug", ".fingerprint")
    if os.path.isdir(fp):
        for d in os.listdir(fp):
            if re.fullmatch(re.escape(crate) + r"-[0-9a-f]{16}", d):
                shutil.rmtree(os.path.join(fp, d), ignore_errors=True)
    cmd = ["cargo", "rustc", "--offline", "--lib", "-p", pkgspec]
    if features: cmd += ["--features", features]
    cmd += ["--", "-Zunpretty=mir", "-C", "debug-assertions=off", "-C", "overflow-checks=on"]
    t0 = time.time()
    r = subprocess.run(cmd, cwd=cwd, env=_env(), stdout=subprocess.PIPE, stderr=subprocess.PIPE)
    if r.returncode != 0 or not r.stdout.strip():
        sys.stderr.write(r.stderr.decode(errors="replace")[-4000:])
        raise BuildError(f"MIR dump of {crate} failed (exit {r.returncode})")
    with open(out + ".tmp", "wb") as f: f.write(r.stdout)
    os.replace(out + ".tmp", out)
    return time.time() - t0


class BuildError(Exception):
    pass


def features_of(crate):
    """feature set of cosmwasm-std as resolved for `crate` (decides cfg'd enum variants such as CosmosMsg::Staking)"""
    path = os.path.join(MIRDIR, crate + ".features.json")
    if os.path.exists(path): return json.load(open(path))
    return {}


def _features(crate, cwd):
    r = subprocess.run(["cargo", "tree", "--offline", "-p", crate, "-e", "normal", "-f", "{p} [{f}]", "--prefix", "none"],
                       cwd=cwd, env=_env(), stdout=subprocess.PIPE, stderr=subprocess.PIPE)
    feats = {}
    for ln in r.stdout.decode().splitlines():
        m = re.match(r"^(\S+) v(\S+)(?: \(.*?\))? \[(.*?)\]", ln)
        if m: feats[m.group(1)] = sorted(set(feats.get(m.group(1), [])) | set(x for x in m.group(3).split(",") if x))
    return feats


def ensure(crates=None, verbose=False):
    """make sure MIR dumps of the requested workspace crates (default all) and registry deps are current.
    returns {crate: mir_path}"""
    os.makedirs(MIRDIR, exist_ok=True)
    lock = open(os.path.join(WORK, "build.lock"), "w")
    fcntl.flock(lock, fcntl.LOCK_EX)
    try:
        stamp_path = os.path.join(MIRDIR, "stamps.json")
        stamps = json.load(open(stamp_path)) if os.path.exists(stamp_path) else {}
        hashes = crate_hashes()
        want = list(crates) if crates else list(WORKSPACE)
        # close under workspace deps
        todo, seen = [], set()

        def add(c):
            if c in seen: return
            seen.add(c)
            for d in WS_DEPS[c]: add(d)
            todo.append(c)
        for c in want: add(c)
        out = {}
        for name, spec in REGISTRY.items():
            p = os.path.join(MIRDIR, "dep_" + name + ".mir")
            if not os.path.exists(p) or stamps.get("dep_" + name) != spec:
                dt = _dump(name, REPO, spec, None, p)
                stamps["dep_" + name] = spec
                if verbose: print(f"[build] MIR {name} {dt:.1f}s", file=sys.stderr)
            out["dep_" + name] = p
        for c in todo:
            p = os.path.join(MIRDIR, c + ".mir")
            if not os.path.exists(p) or stamps.get(c) != hashes[c]:
                cwd = os.path.join(REPO, WORKSPACE[c])
                dt = _dump(c, cwd, c, "library" if c in HAS_LIBRARY_FEATURE else None, p)
                json.dump(_features(c, cwd), open(os.path.join(MIRDIR, c + ".features.json"), "w"))
                stamps[c] = hashes[c]
                if verbose: print(f"[build] MIR {c} {dt:.1f}s", file=sys.stderr)
            out[c] = p
            json.dump(stamps, open(stamp_path + ".tmp", "w")); os.replace(stamp_path + ".tmp", stamp_path)
        json.dump(stamps, open(stamp_path + ".tmp", "w")); os.replace(stamp_path + ".tmp", stamp_path)
        return out
    finally:
        fcntl.flock(lock, fcntl.LOCK_UN)


if __name__ == "__main__":
    t0 = time.time()
    try:
        r = ensure(sys.argv[1:] or None, verbose=True)
    except BuildError as e:
        print("BUILD ERROR:", e, file=sys.stderr); sys.exit(2)
    print(f"[build] {len(r)} MIR files current, {time.time()-t0:.1f}s, tree {tree_hash()}")
