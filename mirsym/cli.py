"""./check <property> [--tier quick|thorough] [--replay file]

exit 0: every obligation discharged (unsat) within the stated bounds (known findings are printed as KNOWN-FINDING lines)
exit 1: `VIOLATION property=<id> replay=<path>` — a solver model that reproduced against the native build and is not a known finding
exit 2: inconclusive (unsupported construct, solver unknown, model that did not reproduce, build error) — never a pass
"""
import argparse, importlib, json, multiprocessing, os, sys, time, traceback

VERIF = os.path.dirname(os.path.dirname(os.path.abspath(__file__)))
sys.path.insert(0, VERIF)

from mirsym import build
from mirsym.values import Unsupported


def _worker(args):
    spec_name, idx, tier, seed = args
    try:
        from mirsym.program import Program
        from mirsym.models import load_all
        from mirsym.explore import run_vc
        from mirsym import findings
        spec = importlib.import_module("specs." + spec_name)
        vc = spec.vcs(tier)[idx]
        M = load_all()
        prog = _program(vc.crate, getattr(vc, "extra_crates", ()))
        limits = getattr(vc, "limits", {}).get(tier, {})
        r = run_vc(prog, M, vc, bounds=getattr(vc, "bounds", {}).get(tier) if isinstance(getattr(vc, "bounds", None), dict) else None,
                   path_limit=limits.get("paths", 200000), query_timeout_ms=limits.get("query_ms", 20000 if tier == "quick" else 120000),
                   time_limit=limits.get("time", int(os.environ.get("VERIF_VC_SECONDS", "900" if tier == "quick" else "2700"))), validate=int(os.environ.get("VERIF_VALIDATE", "2" if tier == "quick" else "10")),
                   second_solver=(tier == "thorough" and getattr(spec, "SECOND_SOLVER", False)))
        out = {
            "vc": vc.name, "paths": r.paths, "infeasible": r.infeasible, "outcomes": {str(k): v for k, v in r.outcomes.items()},
            "queries": r.queries, "unsupported": [u[0] for u in r.unsupported[:5]], "n_unsupported": len(r.unsupported),
            "witness": r.witness, "twin": r.twin_failed, "solver_calls": r.solver_calls, "solver_time": round(r.solver_time, 3),
            "wall": round(r.wall, 3), "truncated": r.truncated, "samples": r.samples, "obligations": sorted(r.obligation_names),
            "funcs": sorted(f"{c}::{n}" for c, n in r.funcs), "models": sorted(r.models),
            "func_hashes": {f"{c}::{n}": prog.func_hash(prog.funcs[c][n]) for c, n in r.funcs if n in prog.funcs.get(c, {})},
            "violations": [], "known": [], "validated": r.validated, "validation_failures": r.validation_failures[:3], "second_solver": r.second,
        }
        out["violations"], out["known"], out["inconclusive"] = findings.triage(prog, M, vc, r, tier)
        return out
    except Exception as e:
        return {"vc": f"{spec_name}[{idx}]", "crash": f"{type(e).__name__}: {e}", "trace": traceback.format_exc()[-3000:]}


_PROGS = {}


def _program(crate, extra):
    from mirsym.program import Program
    key = (crate, tuple(extra))
    if key not in _PROGS: _PROGS[key] = Program(crate, extra)
    return _PROGS[key]


def main(argv=None):
    ap = argparse.ArgumentParser()
    ap.add_argument("prop")
    ap.add_argument("--tier", default=os.environ.get("VERIF_TIER", "quick"))
    ap.add_argument("--replay")
    ap.add_argument("--jobs", type=int, default=int(os.environ.get("VERIF_JOBS", "14")))
    ap.add_argument("--only")
    a = ap.parse_args(argv)
    pid = a.prop.upper()
    tier = a.tier if a.tier in ("quick", "thorough") else "quick"
    seed = int(os.environ.get("VERIF_SEED", "0") or 0)
    t0 = time.time()
    spec_name = pid.lower()
    if a.replay:
        from mirsym import findings
        return findings.replay_file(a.replay)
    try:
        spec = importlib.import_module("specs." + spec_name)
    except ModuleNotFoundError:
        print(f"no spec for {pid}", file=sys.stderr); return 2
    # build stage (MIR of the current working tree) — done once here so that workers only read
    try:
        crates = sorted({c for vc in spec.vcs(tier) for c in [vc.crate] + list(getattr(vc, "extra_crates", ()))})
        build.ensure(crates)
        from mirsym import replay
        replay.ensure_built()
    except build.BuildError as e:
        print(f"INCONCLUSIVE property={pid}: build failed: {e}"); return 2
    vcs = spec.vcs(tier)
    for vc in vcs: _program(vc.crate, getattr(vc, "extra_crates", ()))      # parse once in the parent; workers inherit (fork)
    idxs = [i for i, v in enumerate(vcs) if not a.only or a.only in v.name]
    jobs = [(spec_name, i, tier, seed) for i in idxs]
    if a.jobs > 1 and len(jobs) > 1:
        with multiprocessing.get_context("fork").Pool(min(a.jobs, len(jobs))) as pool:
            results = pool.map(_worker, jobs, chunksize=1)
    else:
        results = [_worker(j) for j in jobs]
    from mirsym import evidence
    code = evidence.report(pid, tier, seed, spec, vcs, results, time.time() - t0)
    return code


if __name__ == "__main__":
    try:
        code = main()
    except SystemExit:
        raise
    except BaseException as e:            # an internal fault must never look like a verdict (exit 1 is reserved for reproduced violations)
        traceback.print_exc()
        print(f"INCONCLUSIVE: checker crashed: {type(e).__name__}: {e}")
        code = 2
    sys.exit(code)
