"""Path exploration driver and obligation discharge."""
import time, traceback
import z3
from .ctx import Ctx, Stats, ItemStore, MapStore
from .values import *
from .interp import Interp


class Ob:
    """collects the obligations / witnesses of one path"""

    def __init__(self, ctx):
        self.ctx = ctx
        self.reqs = []        # (name, prop, info)
        self.twins = []       # (name, prop)   expected to FAIL somewhere
        self.wits = []        # (name, cond)   expected to be satisfiable somewhere
        self.outcome = None
        self.info = {}

    def require(self, name, prop, **info):
        info = dict(self.info, **info)
        info["prop"] = prop
        self.reqs.append((name, prop, info))

    def twin(self, name, prop):
        self.twins.append((name, prop))

    def witness(self, name, cond=True):
        self.wits.append((name, cond))


class Violation:
    def __init__(self, vc, ob_name, decisions, labels, model, ctx, info):
        self.vc, self.ob_name, self.decisions, self.labels, self.model, self.ctx, self.info = vc, ob_name, decisions, labels, model, ctx, info

    def values(self):
        out = {}
        for n, v in self.ctx.vars.items():
            try:
                mv = self.model.eval(v, model_completion=True)
                out[n] = mv.as_long() if z3.is_int_value(mv) else (z3.is_true(mv) if z3.is_bool(mv) else str(mv))
            except Exception:
                pass
        return out


class VCResult:
    def __init__(self, name):
        self.name = name
        self.paths = 0
        self.outcomes = {}
        self.queries = {"unsat": 0, "sat": 0, "unknown": 0, "trivial": 0}
        self.violations = []
        self.unsupported = []
        self.witness = {}
        self.twin_failed = {}
        self.solver_time = 0.0
        self.solver_calls = 0
        self.wall = 0.0
        self.funcs = set()
        self.models = set()
        self.truncated = False
        self.samples = []
        self.obligation_names = set()
        self.infeasible = 0
        self.validated = 0
        self.validation_failures = []
        self.second = {}


def snapshot_storage(storage):
    return {k: v.copy() for k, v in storage.items()}


def run_entry(I, ctx, fn, args, pre_storage=None):
    """call an entry point; on Err/panic the platform discards all writes"""
    pre = pre_storage if pre_storage is not None else snapshot_storage(ctx.storage)
    try:
        r = I.call_mir(ctx, fn, args)
        r = I.force(ctx, r)
        if isinstance(r, EnumV) and r.ty == "Result":
            if r.variant == "Err":
                ctx.storage = snapshot_storage(pre)
                return "Err", r.fields[0]
            return "Ok", r.fields[0]
        return "Ok", r
    except Panic as e:
        ctx.storage = snapshot_storage(pre)
        return "panic", str(e)


def second_opinion(ctx, prop, z3_verdict, timeout_s=8):
    """re-discharge one obligation with cvc5 from an SMT-LIB2 dump; returns 'agree' | 'disagree' | 'no-answer'"""
    import subprocess, tempfile, os
    s = z3.Solver()
    s.add(*ctx.pc); s.add(z3.Not(prop))
    smt = "(set-logic ALL)\n" + s.to_smt2()
    try:
        r = subprocess.run(["cvc5", "--lang", "smt2", f"--tlimit={timeout_s * 1000}"], input=smt.encode(), stdout=subprocess.PIPE, stderr=subprocess.PIPE, timeout=timeout_s + 10)
        out = r.stdout.decode().strip().splitlines()
        err = r.stderr.decode()
    except subprocess.TimeoutExpired:
        return "no-answer"
    if "(error" in "\n".join(out) or "(error" in err: return "no-answer"
    ans = out[0].strip() if out else ""
    if ans not in ("sat", "unsat"): return "no-answer"
    return "agree" if ans == z3_verdict else "disagree"


def discharge(ctx, prop, timeout_ms):
    """returns ('unsat'|'sat'|'unknown'|'trivial', model|None)"""
    if prop is True: return "trivial", None
    if prop is False:
        r = ctx.check()
        if r == z3.sat: return "sat", ctx.solver.model()
        return ("unsat" if r == z3.unsat else "unknown"), None
    prop = z3.simplify(prop)
    if z3.is_true(prop): return "trivial", None
    ctx.solver.push()
    ctx.solver.set("timeout", timeout_ms)
    ctx.solver.add(z3.Not(prop))
    t0 = time.time()
    r = ctx.solver.check()
    ctx.stats.solver_time += time.time() - t0
    ctx.stats.solver_calls += 1
    m = ctx.solver.model() if r == z3.sat else None
    ctx.solver.pop()
    if r == z3.unknown:
        # second opinion with a fresh solver and different tactic
        s = z3.SolverFor("QF_NIA") if False else z3.Solver()
        s.set("timeout", timeout_ms * 3)
        s.add(*ctx.pc); s.add(z3.Not(prop))
        r = s.check()
        if r == z3.sat: m = s.model()
    return ("sat" if r == z3.sat else ("unsat" if r == z3.unsat else "unknown")), m


def validate_path(I, vc, ctx, ob):
    """differential validation of the encoder: concretise this (non-violating) path with a solver model, run the real contract
    natively on the same inputs and compare outcome, post-state and response with the interpreter's prediction"""
    from . import findings
    rp = ob.info.get("replay")
    if not rp or rp.get("entry") is None: return None
    if any(str(m).startswith("stub:") for m in ctx.models_used) and not getattr(ctx, "model_refiners", None):
        return None           # a nondeterministic stub decided this path: the real code may decide differently
    if ctx.check() != z3.sat: return None
    v = Violation(vc, "(validation)", list(ctx.taken), list(ctx.labels), ctx.solver.model(), ctx, dict(ob.info))
    refiners = getattr(ctx, "model_refiners", None)
    if refiners:
        s2 = z3.Solver(); s2.set("timeout", 30000)
        s2.add(*ctx.pc)
        for rf in refiners: s2.add(*rf(ctx))
        if s2.check() != z3.sat: return None
        v.model = s2.model()
    try:
        r = findings.step_replay(I, vc, v)
    except Exception as e:
        return {"ok": None, "why": f"{type(e).__name__}: {e}"}
    return {"ok": r.get("reproduced"), "diffs": r.get("diffs"), "request": r.get("request"), "native": r.get("native"), "predicted_outcome": r.get("predicted_outcome")}


def run_vc(prog, models, vc, bounds=None, path_limit=20000, query_timeout_ms=20000, time_limit=None, stop_on_first=False, validate=0, second_solver=False):
    I = Interp(prog, models)
    res = VCResult(vc.name)
    stats = Stats()
    work = [[]]
    t0 = time.time()
    while work:
        if res.paths >= path_limit or (time_limit and time.time() - t0 > time_limit):
            res.truncated = True; break
        dec = work.pop()
        ctx = Ctx(prog, dec, bounds=bounds, stats=stats, timeout_ms=query_timeout_ms)
        ob = Ob(ctx)
        try:
            vc.run(I, ctx, ob)
        except Infeasible:
            res.infeasible += 1
            work.extend(ctx.pending)
            continue
        except Unsupported as e:
            res.unsupported.append((str(e), list(ctx.taken), list(ctx.labels)))
            work.extend(ctx.pending)
            res.paths += 1
            if len(res.unsupported) > 20: break
            continue
        except RecursionError:
            res.unsupported.append(("recursion limit", list(ctx.taken), []))
            work.extend(ctx.pending)
            continue
        work.extend(ctx.pending)
        res.paths += 1
        res.outcomes[ob.outcome] = res.outcomes.get(ob.outcome, 0) + 1
        res.funcs |= ctx.funcs_used
        res.models |= ctx.models_used
        if validate and res.validated + len(res.validation_failures) < validate and ob.info.get("replay") and (res.paths % 7 == 1 or res.paths <= 2):
            vr = validate_path(I, vc, ctx, ob)
            if vr is not None and vr.get("ok") is True: res.validated += 1
            elif vr is not None and vr.get("ok") is False:
                res.validation_failures.append({"vc": vc.name, "path": [l for l in ctx.labels if l][-15:], **{k: vr.get(k) for k in ("diffs", "request", "native", "predicted_outcome")}})
        for name, prop, info in ob.reqs:
            res.obligation_names.add(name)
            r, m = discharge(ctx, prop, query_timeout_ms)
            res.queries[r] += 1
            if second_solver and r in ("sat", "unsat") and not isinstance(prop, bool):
                so = second_opinion(ctx, prop, r)
                res.second[so] = res.second.get(so, 0) + 1
                if so == "disagree":
                    res.unsupported.append((f"z3 says {r} but cvc5 disagrees on {name}", list(ctx.taken), list(ctx.labels)))
            if r == "sat":
                res.violations.append(Violation(vc, name, list(ctx.taken), list(ctx.labels), m, ctx, info))
            elif r == "unknown":
                res.unsupported.append((f"solver unknown on {name}", list(ctx.taken), list(ctx.labels)))
        for name, prop in ob.twins:
            if res.twin_failed.get(name): continue
            r, m = discharge(ctx, prop, query_timeout_ms)
            res.twin_failed[name] = res.twin_failed.get(name, False) or r == "sat"
        for name, cond in ob.wits:
            if res.witness.get(name): continue
            if cond is True: ok, m = True, None
            elif cond is False: ok, m = False, None
            else:
                rr = ctx.check(cond)
                ok = rr == z3.sat
            res.witness[name] = res.witness.get(name, False) or ok
            if ok and len(res.samples) < 3:
                res.samples.append({"vc": vc.name, "witness": name, "path": [l for l in ctx.labels if l][:12], "outcome": ob.outcome})
        if stop_on_first and res.violations: break
    res.solver_time = stats.solver_time
    res.solver_calls = stats.solver_calls
    res.wall = time.time() - t0
    return res
