"""Triage of solver counterexamples: known-finding attribution, native replay gate, replay files."""
import base64, json, os
import z3
from . import build, replay, serial
from .explore import discharge
from .interp import Interp
from .values import *

VERIF = build.VERIF
KNOWN_PATH = os.path.join(VERIF, "known_findings.json")


def load_known():
    if os.environ.get("VERIF_IGNORE_KNOWN"): return []       # used once to produce the native replay of a finding before listing it
    try:
        return json.load(open(KNOWN_PATH))
    except FileNotFoundError:
        return []


def triage(prog, M, vc, res, tier, max_per_ob=2):
    """returns (violations, known, inconclusive): lists of json-able dicts"""
    known_entries = [k for k in load_known() if k.get("property") == vc.property_id and k.get("status") == "known"]
    I = Interp(prog, M)
    by_ob = {}
    for v in res.violations: by_ob.setdefault(v.ob_name, []).append(v)
    out_v, out_k, out_i = [], [], []
    n = 0
    for ob_name, vs in by_ob.items():
        done_new = spurious = 0
        known_hit = {}
        for v in vs:
            sigs = v.info.get("known", {}) or {}
            listed = [k for k in known_entries if k.get("obligation") == ob_name and k.get("signature") in sigs]
            model = v.model
            attributed = None
            for k in listed:
                try:
                    if _holds(model, sigs[k["signature"]]): attributed = k; break
                except Exception:
                    pass
            if attributed is not None:
                known_hit.setdefault(attributed["signature"], attributed)
                # any violation of the same obligation on this path outside the listed signatures?
                prop = v.info.get("prop")
                if prop is not None:
                    excl = [sigs[k["signature"]] for k in listed]
                    r, m2 = discharge(v.ctx, zor(prop, *excl), 60000)
                    if r == "unsat": continue
                    if r == "unknown":
                        out_i.append({"vc": vc.name, "obligation": ob_name, "why": "solver unknown when excluding known findings"}); continue
                    v.model = m2
                else:
                    continue
            if done_new >= max_per_ob or spurious >= 8: continue
            n += 1
            refiners = getattr(v.ctx, "model_refiners", None)
            if refiners:
                # abstractions used on this path (e.g. the cw3 kernel as an uninterpreted function) are replaced by their
                # reference definitions to obtain a counterexample that can be replayed against the real code
                import z3 as _z3
                s2 = _z3.Solver(); s2.set("timeout", 120000)
                s2.add(*v.ctx.pc)
                if v.info.get("prop") is not None and not isinstance(v.info["prop"], bool): s2.add(_z3.Not(v.info["prop"]))
                for rf in refiners: s2.add(*rf(v.ctx))
                rr = s2.check()
                if rr != _z3.sat:
                    # undecided under the abstraction: does not use up the replay budget, so that a counterexample of the same
                    # obligation on another path still gets replayed and reported
                    spurious += 1
                    if spurious == 1: out_i.append({"vc": vc.name, "obligation": ob_name, "why": f"counterexample exists only under the kernel abstraction ({rr}); "
                                  "the abstraction's facts are too weak here or the kernel itself is broken (see C04)"})
                    continue
                v.model = s2.model()
            done_new += 1
            rec = confirm(I, vc, v, n)
            if rec.get("reproduced") is True: out_v.append(rec)
            else: out_i.append(rec)
        for sig, k in known_hit.items():
            out_k.append({"vc": vc.name, "obligation": ob_name, "signature": sig, "what_fails": k.get("what_fails", "")})
    return out_v, out_k, out_i


def _holds(model, pred):
    if isinstance(pred, bool): return pred
    return z3.is_true(model.eval(pred, model_completion=True))


def confirm(I, vc, v, n):
    """replay a counterexample natively; returns a json-able record (and writes the replay file)"""
    rec = {"vc": vc.name, "obligation": v.ob_name, "property": vc.property_id, "path": [l for l in v.labels if l][-25:],
           "model": {k: (x if not isinstance(x, int) or abs(x) < 2 ** 63 else str(x)) for k, x in list(v.values().items())[:80]}}
    try:
        if hasattr(vc, "replay"):
            r = vc.replay(I, v)
        else:
            r = step_replay(I, vc, v)
        rec.update(r)
    except replay.ReplayUnavailable as e:
        rec.update({"reproduced": None, "why": f"replay unavailable: {e}"})
    except Unsupported as e:
        rec.update({"reproduced": None, "why": f"could not concretise the counterexample: {e}"})
    except Exception as e:
        import traceback
        rec.update({"reproduced": None, "why": f"replay machinery failed: {type(e).__name__}: {e}", "trace": traceback.format_exc()[-1500:]})
    d = os.path.join(VERIF, "out", vc.property_id)
    os.makedirs(d, exist_ok=True)
    path = os.path.join(d, f"{vc.name.replace('/', '_')}.{n}.json")
    rec["replay_file"] = path
    with open(path, "w") as f: json.dump(rec, f, indent=1, default=str)
    return rec


# ------------------------------------------------------------------ generic single-step replay
def build_step_request(I, ctx, model, rp, prog):
    conc = serial.Concretizer(I, ctx, model, replay.addr_pool)
    crate = rp["crate"]
    env = conc.value(rp["env"])
    blk = env.get("block")
    req = {"mode": "step", "contract": rp["contract"], "entry": rp["entry"],
           "storage": [[k.hex(), json.dumps(v, separators=(",", ":")).encode().hex()] for k, v in sorted(serial.storage_kv(prog, conc, rp["pre_storage"], crate).items())],
           "env": {"height": blk.get("height"), "time": str(blk.get("time")), "chain_id": "chain", "contract": conc.string(env.get("contract").get("address"))}}
    if rp.get("info") is not None:
        info = conc.value(rp["info"])
        req["info"] = {"sender": info.get("sender"), "funds": serial.to_json(prog, info.get("funds"), "Vec<Coin>", crate)}
    else:
        req["info"] = {"sender": "none", "funds": []}
    req["msg"] = serial.to_json(prog, conc.value(rp["msg"]), rp["msg_ty"], crate)
    if rp.get("querier"): req["querier"] = rp["querier"](conc)
    return conc, req


def step_replay(I, vc, v):
    rp = v.info.get("replay")
    if rp is None: return {"reproduced": None, "why": "VC recorded no replay information"}
    prog = I.prog
    conc, req = build_step_request(I, v.ctx, v.model, rp, prog)
    resp = replay.run(req)
    crate = rp["crate"]
    pred_kind = {"Ok": "ok", "Err": "err", "panic": "panic"}[rp["outcome"]]
    diffs = []
    if resp["result"] != pred_kind:
        diffs.append(f"result: native {resp['result']} ({resp.get('error', '')[:200]}) vs predicted {pred_kind}")
    elif pred_kind == "ok" and rp["entry"] == "query":
        if rp.get("result_ty") and rp.get("result") is not None:
            pj = serial.to_json(prog, conc.value(rp["result"]), rp["result_ty"], crate)
            nj = (resp.get("response") or {}).get("json")
            if _strip_err(pj) != _strip_err(nj): diffs.append(f"query result: native {json.dumps(nj)[:500]} vs predicted {json.dumps(pj)[:500]}")
    elif pred_kind == "ok":
        post = {k.hex(): val for k, val in serial.storage_kv(prog, conc, rp["post_storage"], crate).items()}
        native = {k: json.loads(bytes.fromhex(val).decode()) for k, val in resp["storage"]}
        for k in sorted(set(post) | set(native)):
            if post.get(k) != native.get(k):
                diffs.append(f"storage[{bytes.fromhex(k)!r}]: native {native.get(k)} vs predicted {post.get(k)}")
        if rp.get("result_ty") and rp.get("result") is not None:
            pj = serial.to_json(prog, conc.value(rp["result"]), rp["result_ty"], crate)
            nj = resp.get("response")
            for fld in ("messages", "data", "acknowledgement"):
                if isinstance(pj, dict) and fld in pj:
                    a, b = norm_msgs(pj.get(fld)), norm_msgs((nj or {}).get(fld))
                    if a != b: diffs.append(f"response.{fld}: native {json.dumps(b)[:600]} vs predicted {json.dumps(a)[:600]}")
    out = {"request": req, "native": {k: resp.get(k) for k in ("result", "error", "response")}, "predicted_outcome": pred_kind,
           "reproduced": not diffs, "diffs": diffs[:10]}
    if diffs: out["why"] = "native run disagrees with the interpreter's prediction (encoder fault or spurious pre-state)"
    return out


def _strip_err(x):
    return x


def norm_msgs(x):
    """make base64-embedded JSON comparable"""
    if isinstance(x, str):
        try:
            raw = base64.b64decode(x, validate=True)
            js = json.loads(raw.decode())
            if isinstance(js, dict) and set(js) == {"error"}: return {"__json": {"error": "*"}}
            return {"__json": js}
        except Exception:
            return x
    if isinstance(x, list): return [norm_msgs(i) for i in x]
    if isinstance(x, dict):
        out = {}
        for k, v in x.items():
            if k in ("msg_json", "data_json", "acknowledgement_json"): continue
            if k in ("msg", "data", "payload", "acknowledgement") and isinstance(v, str):
                try:
                    raw = base64.b64decode(v, validate=True)
                    js = json.loads(raw.decode()) if raw else ""
                    if isinstance(js, dict) and set(js) == {"error"}: js = {"error": "*"}      # error texts are not modelled
                    out[k] = {"__json": js} if raw else ""
                    continue
                except Exception:
                    pass
            out[k] = norm_msgs(v)
        return out
    return x


def replay_file(path):
    rec = json.load(open(path))
    req = rec.get("request")
    if not req:
        print("replay file has no native request"); return 2
    replay.ensure_built()
    resp = replay.run(req)
    print(json.dumps({"result": resp.get("result"), "error": resp.get("error"), "response": resp.get("response")}, indent=1)[:4000])
    return 0
