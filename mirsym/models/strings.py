"""String methods beyond equality/order/length.  Structured strings (ICS-20 denoms) are handled by shapes on atoms."""
from ..values import *
from .std import FmtStr, is_str


def simplify_fmt(I, ctx, f):
    parts = []
    for p in f.parts:
        if isinstance(p, tuple) and len(p) == 2 and p[0] == "arg": p = p[1]
        parts.append(p)
    if all(isinstance(p, str) for p in parts): return "".join(parts)
    if all(isinstance(p, (str, int)) and not isinstance(p, bool) for p in parts): return "".join(str(p) for p in parts)
    # single symbolic string with empty literal pieces: the string itself
    nonempty = [p for p in parts if not (isinstance(p, str) and p == "")]
    if len(nonempty) == 1 and is_str(nonempty[0]): return nonempty[0]
    return FmtStr(parts)


def str_method(I, ctx, meth, s, args, callee, crate):
    if isinstance(s, str):
        if meth == "starts_with":
            p = I.deref(ctx, args[1])
            if isinstance(p, str): return s.startswith(p)
        if meth == "ends_with":
            p = I.deref(ctx, args[1])
            if isinstance(p, str): return s.endswith(p)
        if meth == "contains":
            p = I.deref(ctx, args[1])
            if isinstance(p, str): return p in s
        if meth == "to_lowercase": return s.lower()
        if meth == "to_uppercase": return s.upper()
    raise Unsupported(f"str::{meth} on {s!r}")
