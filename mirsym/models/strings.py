"""String methods beyond equality/order/length.  Structured strings (ICS-20 denoms) are handled by shapes on atoms."""
from ..values import *
from .std import FmtStr, is_str


def simplify_fmt(I, ctx, f):
    parts = []
    for p in f.parts:
        if isinstance(p, tuple) and len(p) == 2 and p[0] == "arg": p = p[1]
        parts.append(p)
    if all(isinstance(p, str) for p in parts): return "".join(parts)
    if all(isinstance(p, (str, int)) and not isinstance(p, bool) for p in parts): return "".join(str(p) for p in parts)
    # single symbolic string with empty literal pieces: the string itself
    nonempty = [p for p in parts if not (isinstance(p, str) and p == "")]
    if len(nonempty) == 1 and is_str(nonempty[0]): return nonempty[0]
    # literal prefix + one string: a structured string (e.g. format!("cw20:{}", addr))
    if len(nonempty) == 2 and isinstance(nonempty[0], str) and is_str(nonempty[1]):
        return ctx.shaped("pre", nonempty[0], nonempty[1])
    return FmtStr(parts)


def str_method(I, ctx, meth, s, args, callee, crate):
    if isinstance(s, str):
        if meth == "starts_with":
            p = I.deref(ctx, args[1])
            if isinstance(p, str): return s.startswith(p)
        if meth == "ends_with":
            p = I.deref(ctx, args[1])
            if isinstance(p, str): return s.endswith(p)
        if meth == "contains":
            p = I.deref(ctx, args[1])
            if isinstance(p, str): return p in s
        if meth == "to_lowercase": return s.lower()
        if meth == "to_uppercase": return s.upper()
    if meth == "starts_with":
        p = I.deref(ctx, args[1])
        if isinstance(p, str): return ctx.str_starts_with(s, p)
    if meth == "get":
        rng = I.deref(ctx, args[1])
        if isinstance(rng, Struct) and rng.ty == "RangeFrom" and isinstance(rng.fields[0], int):
            r = ctx.str_after_prefix(s, rng.fields[0])
            return NONE if r is None else Some(r)
    if meth == "splitn":
        n, sep = I.deref(ctx, args[1]), I.deref(ctx, args[2])
        sep = sep.data if isinstance(sep, Opaque) and sep.tag == "char" else sep
        if n == 3 and isinstance(sep, str):
            from .std import make_iter
            return make_iter(list(ctx.str_split3(s, sep)))
    raise Unsupported(f"str::{meth} on {s!r}")
