"""String methods beyond equality/order/length.  Structured strings (ICS-20 denoms) are handled by shapes on atoms."""
from ..values import *
from .std import FmtStr, is_str


def simplify_fmt(I, ctx, f):
    parts = []
    for p in f.parts:
        if isinstance(p, tuple) and len(p) == 2 and p[0] == "arg": p = p[1]
        parts.append(p)
    if all(isinstance(p, str) for p in parts): return "".join(parts)
    if all(isinstance(p, (str, int)) and not isinstance(p, bool) for p in parts): return "".join(str(p) for p in parts)
    # single symbolic string with empty literal pieces: the string itself
    nonempty = [p for p in parts if not (isinstance(p, str) and p == "")]
    if len(nonempty) == 1 and is_str(nonempty[0]): return nonempty[0]
    # literal prefix + one string: a structured string (e.g. format!("cw20:{}", addr))
    if len(nonempty) == 2 and isinstance(nonempty[0], str) and is_str(nonempty[1]):
        return ctx.shaped("pre", nonempty[0], nonempty[1])
    return FmtStr(parts)


def _lit(I, ctx, x):
    """a concrete pattern argument: &str literal or char"""
    x = I.deref(ctx, x)
    if isinstance(x, Opaque) and x.tag == "char": return x.data
    return x if isinstance(x, str) else None


def _chars(s):
    from .std import make_iter
    return make_iter([Opaque("char", c) for c in s])


def concrete_str_method(I, ctx, meth, r, s, args):
    """methods on a fully concrete string (python semantics coincide with Rust's for these on valid UTF-8)"""
    from .std import make_iter, _store
    a1 = _lit(I, ctx, args[1]) if len(args) > 1 else None
    if meth in ("push_str", "push", "insert_str", "insert", "pop", "clear", "truncate", "remove"):
        if not isinstance(r, Ref): raise Unsupported(f"String::{meth} without a place")
        if meth in ("push_str", "push"):
            x = I.deref(ctx, args[1])
            if isinstance(x, Opaque) and x.tag == "char": x = x.data
            if isinstance(x, str): _store(I, ctx, r, s + x); return ()
            from .std import FmtStr
            _store(I, ctx, r, FmtStr([s, x]) if s else x); return ()
        if meth == "pop":
            if not s: return NONE
            _store(I, ctx, r, s[:-1]); return Some(Opaque("char", s[-1]))
        if meth == "clear": _store(I, ctx, r, ""); return ()
        if meth == "truncate":
            n = args[1]
            if not isinstance(n, int): n = ctx.concretize_int(n, 0, len(s.encode()) + 1, "truncate")
            b = s.encode()
            if n < len(b): _store(I, ctx, r, b[:n].decode())
            return ()
        if meth == "remove":
            n = args[1]
            if not isinstance(n, int): n = ctx.concretize_int(n, 0, len(s) + 1, "remove")
            if n >= len(s.encode()): raise Panic("cannot remove a char from the end of a string")
            _store(I, ctx, r, s[:n] + s[n + 1:]); return Some(Opaque("char", s[n])) if False else Opaque("char", s[n])
        if meth in ("insert_str", "insert"):
            n = args[1]
            if not isinstance(n, int): n = ctx.concretize_int(n, 0, len(s) + 1, "insert")
            x = _lit(I, ctx, args[2])
            if x is None or n > len(s): raise Unsupported("String::insert")
            _store(I, ctx, r, s[:n] + x + s[n:]); return ()
    if meth == "strip_prefix" and a1 is not None: return Some(s[len(a1):]) if s.startswith(a1) else NONE
    if meth == "strip_suffix" and a1 is not None: return Some(s[:len(s) - len(a1)]) if s.endswith(a1) else NONE
    if meth in ("find", "rfind") and a1 is not None:
        k = s.find(a1) if meth == "find" else s.rfind(a1)
        return NONE if k < 0 else Some(len(s[:k].encode()))
    if meth == "split" and a1 is not None: return make_iter(s.split(a1))
    if meth == "rsplit" and a1 is not None: return make_iter(list(reversed(s.split(a1))))
    if meth == "splitn" and len(args) > 2:
        n, sep = I.deref(ctx, args[1]), _lit(I, ctx, args[2])
        if isinstance(n, int) and sep is not None: return make_iter(s.split(sep, n - 1) if n > 0 else [])
    if meth == "split_once" and a1 is not None:
        k = s.find(a1)
        return NONE if k < 0 else Some((s[:k], s[k + len(a1):]))
    if meth == "rsplit_once" and a1 is not None:
        k = s.rfind(a1)
        return NONE if k < 0 else Some((s[:k], s[k + len(a1):]))
    if meth == "split_whitespace": return make_iter(s.split())
    if meth == "lines": return make_iter(s.splitlines())
    if meth == "trim": return s.strip()
    if meth == "trim_start": return s.lstrip()
    if meth == "trim_end": return s.rstrip()
    if meth == "trim_start_matches" and a1 is not None:
        while a1 and s.startswith(a1): s = s[len(a1):]
        return s
    if meth == "trim_end_matches" and a1 is not None:
        while a1 and s.endswith(a1): s = s[:len(s) - len(a1)]
        return s
    if meth == "repeat":
        n = args[1]
        if not isinstance(n, int): n = ctx.concretize_int(n, 0, 64, "repeat", beyond="unsupported")
        return s * n
    if meth == "replace" and a1 is not None:
        a2 = _lit(I, ctx, args[2])
        if a2 is not None: return s.replace(a1, a2)
    if meth == "chars": return _chars(s)
    if meth == "char_indices":
        out, k = [], 0
        for c in s:
            out.append((k, Opaque("char", c))); k += len(c.encode())
        return make_iter(out)
    if meth == "bytes": return make_iter(list(s.encode()))
    if meth in ("to_ascii_lowercase", "to_lowercase"): return s.lower()
    if meth in ("to_ascii_uppercase", "to_uppercase"): return s.upper()
    if meth == "is_ascii": return s.isascii()
    if meth == "eq_ignore_ascii_case" and a1 is not None: return s.lower() == a1.lower()
    if meth == "is_char_boundary" and isinstance(args[1], int):
        b = s.encode()
        return args[1] == len(b) or (args[1] < len(b) and (b[args[1]] & 0xC0) != 0x80)
    return NotImplemented


def str_method(I, ctx, meth, s, args, callee, crate):
    if isinstance(s, str):
        r = concrete_str_method(I, ctx, meth, args[0], s, args)
        if r is not NotImplemented: return r
    if isinstance(s, str):
        if meth == "starts_with":
            p = I.deref(ctx, args[1])
            if isinstance(p, str): return s.startswith(p)
        if meth == "ends_with":
            p = I.deref(ctx, args[1])
            if isinstance(p, str): return s.endswith(p)
        if meth == "contains":
            p = I.deref(ctx, args[1])
            if isinstance(p, str): return p in s
        if meth == "to_lowercase": return s.lower()
        if meth == "to_uppercase": return s.upper()
    if meth == "starts_with":
        p = I.deref(ctx, args[1])
        if isinstance(p, str): return ctx.str_starts_with(s, p)
    if meth == "eq_ignore_ascii_case":
        return ctx.str_eq_nocase(s, I.deref(ctx, args[1]))
    if meth == "strip_prefix":
        # same two primitives the contracts use by hand (`starts_with` then `get(n..)`)
        p = I.deref(ctx, args[1])
        if isinstance(p, str):
            if not ctx.str_starts_with(s, p): return NONE
            r = ctx.str_after_prefix(s, len(p.encode()))
            return NONE if r is None else Some(r)
    if meth == "get":
        rng = I.deref(ctx, args[1])
        if isinstance(rng, Struct) and rng.ty == "RangeFrom" and isinstance(rng.fields[0], int):
            r = ctx.str_after_prefix(s, rng.fields[0])
            return NONE if r is None else Some(r)
    if meth == "splitn":
        n, sep = I.deref(ctx, args[1]), I.deref(ctx, args[2])
        sep = sep.data if isinstance(sep, Opaque) and sep.tag == "char" else sep
        if n == 3 and isinstance(sep, str):
            from .std import make_iter
            return make_iter(list(ctx.str_split3(s, sep)))
    raise Unsupported(f"str::{meth} on {s!r}")
