"""BTreeMap / BTreeSet as sorted association lists (keys may be symbolic: every comparison that decides the position of a key
forks the path, exactly like the library's own comparisons would).

Representation: Struct("BTreeMap", [VecV([(k, v), ...])], ["items"]) and Struct("BTreeSet", [VecV([k, ...])], ["items"]), kept
sorted by key, so a reference to a value is an ordinary place path (field 0, index i, tuple field 1)."""
import re
import z3
from . import M
from .std import (generic_cmp, values_eq, make_iter, drain, get_iter, last_generics, default_of, _store, RANGE_LIMIT)
from ..values import *
from ..mirparse import strip_generics, split_top

_P = r"(std::collections::(btree_map::|btree_set::)?|alloc::collections::(btree_map::|btree_set::|btree::map::|btree::set::)?|btree_map::|btree_set::)?"


def new_map(): return Struct("BTreeMap", [VecV([])], ["items"])
def new_set(): return Struct("BTreeSet", [VecV([])], ["items"])


def _coll(I, ctx, r):
    v = I.deref(ctx, r) if isinstance(r, Ref) else r
    if not (isinstance(v, Struct) and v.ty in ("BTreeMap", "BTreeSet")): raise Unsupported(f"not a BTreeMap/BTreeSet: {v!r}")
    return v, list(v.fields[0].items)


def _put(I, ctx, r, ty, items):
    if not isinstance(r, Ref): raise Unsupported("collection mutated without a place")
    _store(I, ctx, r, Struct(ty, [VecV(items)], ["items"]))


def _key(e, is_map): return e[0] if is_map else e


def _locate(I, ctx, items, key, is_map, crate):
    """(index, found): position of `key` in the sorted list — forks on each comparison"""
    key = I.deref(ctx, key) if isinstance(key, Ref) else key
    for i, e in enumerate(items):
        o = generic_cmp(I, ctx, key, _key(e, is_map), crate).variant
        if o == "Equal": return i, True
        if o == "Less": return i, False
    return len(items), False


def _entry_ref(r, i): return Ref(r.cell, r.path + (("f", 0), ("i", i), ("f", 1)))
def _key_ref(r, i, is_map): return Ref(r.cell, r.path + (("f", 0), ("i", i)) + ((("f", 0),) if is_map else ()))


def build(I, ctx, ty, elems, crate):
    """collect / from_iter: later duplicates replace earlier ones (map) or are dropped (set)"""
    items = []
    is_map = ty == "BTreeMap"
    for e in elems:
        e = I.deref(ctx, e) if isinstance(e, Ref) and not is_map else e
        k = e[0] if is_map else e
        i, found = _locate(I, ctx, items, k, is_map, crate)
        if found:
            if is_map: items[i] = (items[i][0], e[1])
        else: items.insert(i, e)
    return Struct(ty, [VecV(items)], ["items"])


@M.on(r"^" + _P + r"BTreeMap::(new|insert|get|get_mut|get_key_value|remove|remove_entry|contains_key|len|is_empty|clear|iter|iter_mut|keys|values|values_mut|into_keys|into_values|entry|first_key_value|last_key_value|pop_first|pop_last|range|retain|extend|append)$"
      r"|^<" + _P + r"BTreeMap<.*> as (Default|IntoIterator|FromIterator<.*>|Extend<.*>|Index<.*>)>::(default|into_iter|from_iter|extend|index)$"
      r"|^<&(mut )?" + _P + r"BTreeMap<.*> as IntoIterator>::into_iter$")
def m_btreemap(I, ctx, callee, args, crate):
    meth = strip_generics(callee).split("::")[-1]
    if meth in ("new", "default"): return new_map()
    if meth == "from_iter": return build(I, ctx, "BTreeMap", drain(I, ctx, get_iter(I, ctx, args[0])), crate)
    r = args[0]
    m, items = _coll(I, ctx, r)
    if meth == "len": return len(items)
    if meth == "is_empty": return len(items) == 0
    if meth == "clear": _put(I, ctx, r, "BTreeMap", []); return ()
    if meth in ("iter", "into_iter", "iter_mut"):
        by_ref = isinstance(r, Ref) and (meth != "into_iter" or callee.lstrip("<").startswith("&"))
        if by_ref: return make_iter([(_key_ref(r, i, True), _entry_ref(r, i)) for i in range(len(items))])
        return make_iter(list(items))
    if meth in ("keys", "into_keys"): return make_iter([_key_ref(r, i, True) if meth == "keys" and isinstance(r, Ref) else e[0] for i, e in enumerate(items)])
    if meth in ("values", "values_mut", "into_values"):
        return make_iter([_entry_ref(r, i) if meth != "into_values" and isinstance(r, Ref) else e[1] for i, e in enumerate(items)])
    if meth in ("first_key_value", "last_key_value"):
        if not items: return NONE
        i = 0 if meth.startswith("first") else len(items) - 1
        return Some((_key_ref(r, i, True), _entry_ref(r, i)))
    if meth in ("pop_first", "pop_last"):
        if not items: return NONE
        e = items.pop(0 if meth == "pop_first" else -1)
        _put(I, ctx, r, "BTreeMap", items); return Some(e)
    if meth == "retain":
        out = []
        for (k, v) in items:
            vc = Cell("retain-v", v)
            keep = ctx.branch(I.call_value(ctx, args[1], [Ref(Cell("retain-k", k)), Ref(vc)]), "retain")
            if keep: out.append((k, vc.v))
        _put(I, ctx, r, "BTreeMap", out); return ()
    if meth in ("extend", "append"):
        src = args[1]
        new = drain(I, ctx, get_iter(I, ctx, src)) if meth == "extend" else list(_coll(I, ctx, src)[1])
        merged = build(I, ctx, "BTreeMap", items + [I.deref(ctx, e) if isinstance(e, Ref) else e for e in new], crate)
        _put(I, ctx, r, "BTreeMap", list(merged.fields[0].items))
        if meth == "append": _put(I, ctx, src, "BTreeMap", [])
        return ()
    if meth == "range":
        rng = I.deref(ctx, args[1])
        f = dict(zip(rng.names or [], rng.fields)) if isinstance(rng, Struct) else {}
        ty = rng.ty if isinstance(rng, Struct) else "RangeFull"
        out = []
        for i, (k, v) in enumerate(items):
            ok = True
            if ty in ("Range", "RangeFrom", "RangeInclusive"): ok = generic_cmp(I, ctx, k, f["start"], crate).variant != "Less"
            if ok and ty in ("Range", "RangeTo"): ok = generic_cmp(I, ctx, k, f["end"], crate).variant == "Less"
            if ok and ty in ("RangeInclusive", "RangeToInclusive"): ok = generic_cmp(I, ctx, k, f["end"], crate).variant != "Greater"
            if ok: out.append((_key_ref(r, i, True), _entry_ref(r, i)) if isinstance(r, Ref) else (k, v))
        if ty in ("Range", "RangeInclusive"):
            o = generic_cmp(I, ctx, f["start"], f["end"], crate).variant
            if o == "Greater": raise Panic("range start is greater than range end in BTreeMap")
        return make_iter(out)
    key = args[1]
    i, found = _locate(I, ctx, items, key, True, crate)
    if meth == "contains_key": return found
    if meth in ("get", "get_mut", "index"):
        if meth == "index":
            if not found: raise Panic("BTreeMap index: key not found")
            return _entry_ref(r, i) if isinstance(r, Ref) else items[i][1]
        if not found: return NONE
        return Some(_entry_ref(r, i) if isinstance(r, Ref) else items[i][1])
    if meth == "get_key_value": return Some((_key_ref(r, i, True), _entry_ref(r, i))) if found else NONE
    if meth == "insert":
        k = I.deref(ctx, key) if isinstance(key, Ref) else key
        if found:
            old = items[i][1]; items[i] = (items[i][0], args[2])
            _put(I, ctx, r, "BTreeMap", items); return Some(old)
        items.insert(i, (k, args[2]))
        _put(I, ctx, r, "BTreeMap", items); return NONE
    if meth in ("remove", "remove_entry"):
        if not found: return NONE
        e = items.pop(i)
        _put(I, ctx, r, "BTreeMap", items); return Some(e[1] if meth == "remove" else e)
    if meth == "entry":
        k = I.deref(ctx, key) if isinstance(key, Ref) else key
        inner = Struct("BTreeEntry", [r, i, found, k], ["map", "pos", "occupied", "key"])
        return EnumV("Entry", "Occupied" if found else "Vacant", (inner,))
    raise Unsupported(f"BTreeMap::{meth}")


@M.on(r"^" + _P + r"(Entry|OccupiedEntry|VacantEntry)::(or_insert|or_insert_with|or_insert_with_key|or_default|and_modify|key|insert|insert_entry|get|get_mut|into_mut|remove)$")
def m_btree_entry(I, ctx, callee, args, crate):
    meth = strip_generics(callee).split("::")[-1]
    e0 = e = I.deref(ctx, args[0]) if isinstance(args[0], Ref) else args[0]
    if isinstance(e, EnumV) and e.ty == "Entry": e = e.fields[0]
    if not (isinstance(e, Struct) and e.ty == "BTreeEntry"): return NotImplemented
    r, i, occ, k = e.fields
    m, items = _coll(I, ctx, r)
    if meth == "key": return Ref(Cell("entry-key", k))
    if meth == "and_modify":
        if occ: I.call_value(ctx, args[1], [_entry_ref(r, i)])
        return e0
    if meth in ("get", "get_mut", "into_mut") and occ: return _entry_ref(r, i)
    if meth == "remove" and occ:
        x = items.pop(i); _put(I, ctx, r, "BTreeMap", items); return x[1]
    if meth in ("or_insert", "or_insert_with", "or_insert_with_key", "or_default", "insert", "insert_entry"):
        if occ and meth != "insert" and meth != "insert_entry": return _entry_ref(r, i)
        if meth in ("or_insert", "insert", "insert_entry"): v = args[1]
        elif meth == "or_insert_with": v = I.call_value(ctx, args[1], [])
        elif meth == "or_insert_with_key": v = I.call_value(ctx, args[1], [Ref(Cell("entry-key", k))])
        else:
            g = [t for t in last_generics(callee[:callee.rindex("::")]) if not t.strip().startswith("'")]
            if len(g) < 2: raise Unsupported(f"value type of {callee}")
            v = default_of(I, ctx, g[1], crate)
        if occ:
            old = items[i][1]; items[i] = (items[i][0], v); _put(I, ctx, r, "BTreeMap", items)
            return old if meth == "insert" else e0
        items.insert(i, (k, v)); _put(I, ctx, r, "BTreeMap", items)
        return _entry_ref(r, i)
    raise Unsupported(f"btree_map::Entry::{meth}")


@M.on(r"^" + _P + r"BTreeSet::(new|insert|contains|remove|take|get|len|is_empty|clear|iter|first|last|pop_first|pop_last|range|retain|extend|append|union|intersection|difference|symmetric_difference|is_subset|is_superset|is_disjoint)$"
      r"|^<" + _P + r"BTreeSet<.*> as (Default|IntoIterator|FromIterator<.*>|Extend<.*>)>::(default|into_iter|from_iter|extend)$"
      r"|^<&" + _P + r"BTreeSet<.*> as IntoIterator>::into_iter$")
def m_btreeset(I, ctx, callee, args, crate):
    meth = strip_generics(callee).split("::")[-1]
    if meth in ("new", "default"): return new_set()
    if meth == "from_iter": return build(I, ctx, "BTreeSet", drain(I, ctx, get_iter(I, ctx, args[0])), crate)
    r = args[0]
    s, items = _coll(I, ctx, r)
    if meth == "len": return len(items)
    if meth == "is_empty": return len(items) == 0
    if meth == "clear": _put(I, ctx, r, "BTreeSet", []); return ()
    if meth in ("iter", "into_iter"):
        by_ref = isinstance(r, Ref) and (meth == "iter" or callee.lstrip("<").startswith("&"))
        return make_iter([_key_ref(r, i, False) for i in range(len(items))] if by_ref else list(items))
    if meth in ("first", "last"):
        if not items: return NONE
        i = 0 if meth == "first" else len(items) - 1
        return Some(_key_ref(r, i, False) if isinstance(r, Ref) else items[i])
    if meth in ("pop_first", "pop_last"):
        if not items: return NONE
        x = items.pop(0 if meth == "pop_first" else -1)
        _put(I, ctx, r, "BTreeSet", items); return Some(x)
    if meth == "retain":
        out = [x for x in items if ctx.branch(I.call_value(ctx, args[1], [Ref(Cell("retain", x))]), "retain")]
        _put(I, ctx, r, "BTreeSet", out); return ()
    if meth in ("extend", "append"):
        new = drain(I, ctx, get_iter(I, ctx, args[1])) if meth == "extend" else list(_coll(I, ctx, args[1])[1])
        merged = build(I, ctx, "BTreeSet", items + new, crate)
        _put(I, ctx, r, "BTreeSet", list(merged.fields[0].items))
        if meth == "append": _put(I, ctx, args[1], "BTreeSet", [])
        return ()
    if meth in ("union", "intersection", "difference", "symmetric_difference", "is_subset", "is_superset", "is_disjoint"):
        o, oitems = _coll(I, ctx, args[1])
        in_o = [(_locate(I, ctx, oitems, x, False, crate)[1]) for x in items]
        if meth == "is_subset": return all(in_o)
        if meth == "is_disjoint": return not any(in_o)
        in_s = [(_locate(I, ctx, items, y, False, crate)[1]) for y in oitems]
        if meth == "is_superset": return all(in_s)
        if meth == "intersection": res = [x for x, f in zip(items, in_o) if f]
        elif meth == "difference": res = [x for x, f in zip(items, in_o) if not f]
        else:
            extra = [y for y, f in zip(oitems, in_s) if not f]
            base = items if meth == "union" else [x for x, f in zip(items, in_o) if not f]
            res = list(build(I, ctx, "BTreeSet", base + extra, crate).fields[0].items)
        return make_iter([Ref(Cell("set-elem", x)) for x in res])
    if meth == "range":
        rng = I.deref(ctx, args[1])
        f = dict(zip(rng.names or [], rng.fields)) if isinstance(rng, Struct) else {}
        ty = rng.ty if isinstance(rng, Struct) else "RangeFull"
        out = []
        for i, k in enumerate(items):
            ok = True
            if ty in ("Range", "RangeFrom", "RangeInclusive"): ok = generic_cmp(I, ctx, k, f["start"], crate).variant != "Less"
            if ok and ty in ("Range", "RangeTo"): ok = generic_cmp(I, ctx, k, f["end"], crate).variant == "Less"
            if ok and ty in ("RangeInclusive", "RangeToInclusive"): ok = generic_cmp(I, ctx, k, f["end"], crate).variant != "Greater"
            if ok: out.append(_key_ref(r, i, False) if isinstance(r, Ref) else k)
        return make_iter(out)
    key = args[1]
    i, found = _locate(I, ctx, items, key, False, crate)
    if meth == "contains": return found
    if meth == "get": return Some(_key_ref(r, i, False)) if found else NONE
    if meth == "insert":
        if found: return False
        items.insert(i, I.deref(ctx, key) if isinstance(key, Ref) else key)
        _put(I, ctx, r, "BTreeSet", items); return True
    if meth in ("remove", "take"):
        if not found: return False if meth == "remove" else NONE
        x = items.pop(i)
        _put(I, ctx, r, "BTreeSet", items); return True if meth == "remove" else Some(x)
    raise Unsupported(f"BTreeSet::{meth}")
