"""Models of cw-storage-plus core (Item, Map, Prefix, Bound) over the finite symbolic tables of ctx.storage.

Snapshot{Map,Item} are *not* modelled: their MIR (dep_cw-storage-plus.mir) is interpreted on top of these primitives.
"""
import re
import z3
from . import M
from .std import impl_parts, last_generics, make_iter, is_str
from .cosmwasm import std_err
from ..values import *
from ..ctx import ItemStore, MapStore, key_eq, key_lt, comp_eq, comp_lt
from ..mirparse import strip_generics


def _ns(I, ctx, v):
    v = I.deref(ctx, v)
    if isinstance(v, Opaque) and v.tag in ("map", "item"): return v.data
    if isinstance(v, Struct) and v.ty in ("Map", "Item"):      # built by interpreted const fn
        return I.deref(ctx, v.fields[0])
    raise Unsupported(f"not a storage handle: {v!r}")


def _nskey(ns):
    if isinstance(ns, str): return ns
    if isinstance(ns, StrAtom) and ns.text is not None: return ns.text
    if isinstance(ns, VecV): return bytes(ns.items).decode()
    if isinstance(ns, Struct) and ns.ty == "Namespace": return _nskey(ns.fields[0])
    if isinstance(ns, EnumV) and ns.ty in ("Namespace", "Cow"): return _nskey(ns.fields[0])
    raise Unsupported(f"dynamic storage namespace {ns!r}")


def store_of(ctx, ns, kind):
    ns = _nskey(ns)
    st = ctx.storage.get(ns)
    if st is None:
        if not getattr(ctx, "storage_default_empty", False):
            raise Unsupported(f"storage namespace `{ns}` is not declared by the spec")
        st = ItemStore(ns, False, None) if kind == "item" else MapStore(ns)
        ctx.storage[ns] = st
    return st


def norm_key(I, ctx, k):
    """key argument -> tuple of components (strings / ints)"""
    k = I.deref(ctx, k)
    if isinstance(k, tuple):
        out = ()
        for c in k: out += norm_key(I, ctx, c)
        return out
    if isinstance(k, VecV): return (k,)
    if is_str(k) or is_int(k): return (k,)
    if k == (): return ()
    raise Unsupported(f"storage key {k!r}")


def key_out(comps):
    """K::Output for a key suffix"""
    if len(comps) == 1: return comps[0]
    return tuple(comps)


@M.on(r"(^|::)(Item|Map)(<.*>)?::(new|new_dyn)$")
def m_new(I, ctx, callee, args, crate):
    kind = "map" if re.search(r"(^|::)Map(<.*>)?::", strip_generics(callee)) else "item"
    return Opaque(kind, I.deref(ctx, args[0]))


@M.on(r"(^|::)Item(<.*>)?::(load|may_load|save|remove|exists|update|as_slice|query)$")
def m_item(I, ctx, callee, args, crate):
    meth = strip_generics(callee).split("::")[-1]
    if meth == "as_slice":
        return Opaque("rawkey", (_nskey(_ns(I, ctx, args[0])),))
    if meth == "query":
        if ctx.env is None or not hasattr(ctx.env, "raw_query"): raise Unsupported("Item::query (raw cross-contract query) needs an environment model")
        return ctx.env.raw_query(I, ctx, _nskey(_ns(I, ctx, args[0])), I.deref(ctx, args[2]), None)
    st = store_of(ctx, _ns(I, ctx, args[0]), "item")
    if not isinstance(st, ItemStore): raise Unsupported(f"namespace {st.ns} is not an Item")
    if meth == "load":
        if ctx.branch(st.present, f"{st.ns}?"): return Ok(st.value)
        return Err(std_err("NotFound", st.ns))
    if meth == "may_load":
        return Ok(Some(st.value)) if ctx.branch(st.present, f"{st.ns}?") else Ok(NONE)
    if meth == "exists": return st.present
    if meth == "save":
        st.present, st.value = True, I.deref(ctx, args[2])
        return Ok(())
    if meth == "remove":
        st.present = False
        return ()
    if meth == "update":
        # let input = self.load(store)?; let output = action(input)?; self.save(store, &output)?; Ok(output)
        if not ctx.branch(st.present, f"{st.ns}?"):
            e = std_err("NotFound", st.ns)
            return Err(_conv(I, ctx, e, callee, crate))
        r = I.force(ctx, I.call_value(ctx, args[2], [st.value]))
        if r.variant == "Ok":
            st.present, st.value = True, r.fields[0]
        return r
    raise Unsupported(callee)


def _conv(I, ctx, e, callee, crate):
    """StdError -> E for update::<A, E>"""
    g = last_generics(callee)
    if len(g) >= 2:
        from .std import convert_err
        return convert_err(I, ctx, e, "cosmwasm_std::StdError", g[-1], crate)
    return e


@M.on(r"(^|::)Map(<.*>)?::(load|may_load|save|remove|has|update|key|prefix|sub_prefix|range|range_raw|keys|keys_raw|is_empty|clear|first|last|query|no_prefix_raw|no_prefix|prefix_range|prefix_range_raw|namespace_bytes)$")
def m_map(I, ctx, callee, args, crate):
    meth = strip_generics(callee).split("::")[-1]
    ns = _nskey(_ns(I, ctx, args[0]))
    if meth == "query":
        if ctx.env is None or not hasattr(ctx.env, "raw_query"): raise Unsupported("Map::query (raw cross-contract query) needs an environment model")
        return ctx.env.raw_query(I, ctx, ns, I.deref(ctx, args[2]), norm_key(I, ctx, args[3]))
    if meth == "namespace_bytes": return VecV(list(ns.encode()))
    if meth == "key":
        return Opaque("path", (ns, norm_key(I, ctx, args[1])))
    if meth in ("prefix", "sub_prefix"):
        return Opaque("prefix", (ns, norm_key(I, ctx, args[1])))
    if meth in ("no_prefix_raw", "no_prefix"):
        return Opaque("prefix", (ns, ()))
    st = store_of(ctx, ns, "map")
    if not isinstance(st, MapStore): raise Unsupported(f"namespace {ns} is not a Map")
    if meth in ("range", "range_raw", "keys", "keys_raw"):
        return range_iter(I, ctx, st, (), args[2], args[3], args[4], keys_only=meth.startswith("keys"))
    if meth == "is_empty":
        return znot(zor(*[p for _, p, _ in st.slots]))
    if meth == "clear":
        for s in st.slots: s[1] = False
        return ()
    if meth in ("first", "last"):
        it = range_iter(I, ctx, st, (), NONE, NONE, EnumV("Order", "Ascending" if meth == "first" else "Descending"))
        r = it.next(I, ctx)
        if r.variant == "None": return Ok(NONE)
        return Ok(Some(r.fields[0].fields[0]))
    key = norm_key(I, ctx, args[2])
    if meth == "load":
        p, v = st.get(ctx, key)
        if ctx.branch(p, f"{ns}[..]?"): return Ok(v)
        return Err(std_err("NotFound", ns))
    if meth == "may_load":
        p, v = st.get(ctx, key)
        return Ok(Some(v)) if ctx.branch(p, f"{ns}[..]?") else Ok(NONE)
    if meth == "has":
        p, v = st.get(ctx, key)
        return p
    if meth == "save":
        st.put(ctx, key, I.deref(ctx, args[3])); return Ok(())
    if meth == "remove":
        st.delete(ctx, key); return ()
    if meth == "update":
        p, v = st.get(ctx, key)
        inp = Some(v) if ctx.branch(p, f"{ns}[..]?") else NONE
        r = I.force(ctx, I.call_value(ctx, args[3], [inp]))
        if r.variant == "Ok": st.put(ctx, key, r.fields[0])
        return r
    raise Unsupported(callee)


@M.on(r"(^|::)Prefix(<.*>)?::(range|range_raw|keys|keys_raw|is_empty|clear)$")
def m_prefix(I, ctx, callee, args, crate):
    meth = strip_generics(callee).split("::")[-1]
    p = I.deref(ctx, args[0])
    if not (isinstance(p, Opaque) and p.tag == "prefix"): raise Unsupported(f"not a Prefix: {p!r}")
    ns, pre = p.data
    st = store_of(ctx, ns, "map")
    if meth in ("range", "range_raw", "keys", "keys_raw"):
        return range_iter(I, ctx, st, pre, args[2], args[3], args[4], keys_only=meth.startswith("keys"))
    raise Unsupported(callee)


@M.on(r"(^|::)Path(<.*>)?::(load|may_load|save|remove|has|update)$|^<(cw_storage_plus::)?Path<.*> as Deref>::deref$")
def m_path(I, ctx, callee, args, crate):
    meth = strip_generics(callee).split("::")[-1]
    p = I.deref(ctx, args[0])
    if meth == "deref":
        return Opaque("rawkey", p.data)
    ns, key = p.data
    st = store_of(ctx, ns, "map")
    if meth == "may_load":
        pr, v = st.get(ctx, key)
        return Ok(Some(v)) if ctx.branch(pr, f"{ns}[..]?") else Ok(NONE)
    if meth == "load":
        pr, v = st.get(ctx, key)
        if ctx.branch(pr, f"{ns}[..]?"): return Ok(v)
        return Err(std_err("NotFound", ns))
    if meth == "has": return st.get(ctx, key)[0]
    if meth == "save": st.put(ctx, key, I.deref(ctx, args[2])); return Ok(())
    if meth == "remove": st.delete(ctx, key); return ()
    raise Unsupported(callee)


@M.on(r"(^|::)(Bound|PrefixBound)(<.*>)?::(inclusive|exclusive|inclusive_int|exclusive_int)$")
def m_bound(I, ctx, callee, args, crate):
    meth = strip_generics(callee).split("::")[-1]
    k = args[0]
    return EnumV("Bound", "Inclusive" if meth.startswith("inclusive") else "Exclusive", (k,))


def _bound(I, ctx, b):
    """Option<Bound> -> None | (inclusive:bool, key comps)"""
    b = I.force(ctx, I.deref(ctx, b))
    if b.variant == "None": return None
    bd = I.force(ctx, I.deref(ctx, b.fields[0]))
    if not isinstance(bd, EnumV) or bd.ty != "Bound": raise Unsupported(f"bound {bd!r}")
    k = bd.fields[0]
    if bd.variant in ("InclusiveRaw", "ExclusiveRaw"):
        k = I.deref(ctx, k)
    # Bound::Inclusive((k, PhantomData)) when built by the enum constructor directly
    k = I.deref(ctx, k)
    if isinstance(k, tuple) and len(k) == 2 and isinstance(k[1], (Opaque, FnItem)): k = k[0]
    return (bd.variant.startswith("Inclusive"), norm_key(I, ctx, k))


def range_iter(I, ctx, st, prefix, minb, maxb, order, keys_only=False):
    lo, hi = _bound(I, ctx, minb), _bound(I, ctx, maxb)
    order = I.force(ctx, I.deref(ctx, order))
    sel = []
    np = len(prefix)
    for k, p, v in st.slots:
        if len(k) < np: raise Unsupported("prefix longer than key")
        if not key_eq(ctx, k[:np], prefix): continue
        if not ctx.branch(p, f"{st.ns} slot?"): continue
        suf = k[np:]
        if lo is not None:
            if key_lt(ctx, suf, lo[1]): continue
            if not lo[0] and key_eq(ctx, suf, lo[1]): continue
        if hi is not None:
            if key_lt(ctx, hi[1], suf): continue
            if not hi[0] and key_eq(ctx, suf, hi[1]): continue
        sel.append((suf, v))
    # order by key (insertion sort; pre-state slots are normally already in order)
    out = []
    for item in sel:
        j = len(out)
        while j > 0 and key_lt(ctx, item[0], out[j - 1][0]): j -= 1
        out.insert(j, item)
    if order.variant == "Descending": out.reverse()
    if keys_only: return make_iter([Ok(key_out(k)) for k, v in out])
    return make_iter([Ok((key_out(k), v)) for k, v in out])


@M.on(r"(^|::)SnapshotMap(<.*>)?::(range|range_raw|keys|keys_raw|prefix|sub_prefix|prefix_range|no_prefix|no_prefix_raw)$")
def m_snapshot_range(I, ctx, callee, args, crate):
    """SnapshotMap's listing helpers only rebuild a Prefix over the primary map (cw-storage-plus snapshot/map.rs): delegate"""
    sm = I.deref(ctx, args[0])
    prim = sm.get("primary") if isinstance(sm, Struct) and sm.names and "primary" in sm.names else sm.fields[0]
    meth = strip_generics(callee).split("::")[-1]
    return m_map(I, ctx, "cw_storage_plus::Map::" + meth, [prim] + list(args[1:]), crate)
