"""Models of cosmwasm-std (trusted base): math newtypes, addresses, response builders, (de)serialisation, querier, errors."""
import re
import z3
from . import M
from .std import (impl_parts, last_generics, values_eq, is_str, FmtStr, int_cmp, iter_of, drain, get_iter, default_of, bin_len)
from ..values import *
from ..mirparse import split_top, strip_generics
from ..program import simple_name

E18 = 10 ** 18
WIDTH = {"Uint128": U128, "Uint64": U64, "Uint256": 2 ** 256, "Decimal": U128}


def _w(callee):
    m = re.search(r"(Uint128|Uint64|Uint256|Decimal)", callee)
    return m.group(1), WIDTH[m.group(1)]


def ovf_err(op="Add"):
    if isinstance(op, str): op = EnumV("OverflowOperation", op, ())
    return Struct("OverflowError", [op], ["operation"])


def std_err(kind, *fields):
    return EnumV("StdError", kind, fields)


# ------------------------------------------------------------------ Uint128 / Uint64 / Decimal
@M.on(r"^(cosmwasm_std::)?(Uint128|Uint64|Uint256)::(new|u128|u64|zero|one|is_zero|checked_add|checked_sub|checked_mul|checked_div|checked_rem|saturating_sub|saturating_add|saturating_mul|wrapping_add|wrapping_sub|abs_diff|multiply_ratio|checked_multiply_ratio|mul_floor|mul_ceil|checked_mul_floor|full_mul|pow|checked_pow|isqrt|to_be_bytes|to_le_bytes|from_be_bytes|MAX|MIN|strict_add|strict_sub|checked_div_floor|div_floor|u128_from)$")
def m_uint(I, ctx, callee, args, crate):
    ty, hi = _w(strip_generics(callee))
    meth = strip_generics(callee).split("::")[-1]
    if meth == "zero": return 0
    if meth == "one": return 1
    if meth == "MAX": return hi - 1
    a = I.deref(ctx, args[0])
    if meth in ("new", "u128", "u64"): return a
    if meth == "is_zero": return a == 0
    b = I.deref(ctx, args[1]) if len(args) > 1 else None
    if meth == "checked_add": return Ok(a + b) if ctx.branch(a + b < hi, "cadd") else Err(ovf_err("Add"))
    if meth == "checked_sub": return Ok(a - b) if ctx.branch(a >= b, "csub") else Err(ovf_err("Sub"))
    if meth == "checked_mul": return Ok(a * b) if ctx.branch(a * b < hi, "cmul") else Err(ovf_err("Mul"))
    if meth in ("checked_div", "checked_rem"):
        if not ctx.branch(b != 0, "cdiv"): return Err(Struct("DivideByZeroError", [], []))
        return Ok(_div(a, b) if meth == "checked_div" else a % b)
    if meth == "saturating_sub": return a - b if ctx.branch(a >= b, "ssub") else 0
    if meth == "saturating_add": return a + b if ctx.branch(a + b < hi, "sadd") else hi - 1
    if meth == "saturating_mul": return a * b if ctx.branch(a * b < hi, "smul") else hi - 1
    if meth == "wrapping_add": return (a + b) % hi
    if meth == "wrapping_sub": return (a - b) % hi
    if meth in ("strict_add",):
        if ctx.branch(a + b < hi, "sadd"): return a + b
        raise Panic("strict_add overflow")
    if meth in ("strict_sub",):
        if ctx.branch(a >= b, "ssub"): return a - b
        raise Panic("strict_sub overflow")
    if meth == "abs_diff": return a - b if ctx.branch(a >= b, "absdiff") else b - a
    if meth in ("mul_floor", "mul_ceil"):
        # rhs: Decimal (atomics / 1e18) or a Fraction tuple
        d = b
        if isinstance(d, tuple): num, den = d
        else: num, den = d, E18
        if not ctx.branch(den != 0, "mulfloor-den"): raise Panic("Denominator must not be zero")
        q = div_floor(ctx, a * num, den) if meth == "mul_floor" else div_floor(ctx, a * num + den - 1, den)
        if ctx.branch(q < hi, "mulfloor-ovf"): return q
        raise Panic("attempt to multiply with overflow (mul_floor)")
    if meth in ("multiply_ratio", "checked_multiply_ratio"):
        num, den = b, I.deref(ctx, args[2])
        checked = meth.startswith("checked")
        if not ctx.branch(den != 0, "ratio-den"):
            if checked: return Err(EnumV("CheckedMultiplyRatioError", "DivideByZero", ()))
            raise Panic("Denominator must not be zero")
        q = div_floor(ctx, a * num, den)
        if ctx.branch(q < hi, "ratio-ovf"): return Ok(q) if checked else q
        if checked: return Err(EnumV("CheckedMultiplyRatioError", "Overflow", ()))
        raise Panic("Multiplication overflow")
    if meth == "full_mul": return a * b
    if meth == "MIN": return 0
    if meth == "checked_pow":
        if not isinstance(b, int): b = ctx.concretize_int(b, 0, 33, "pow-exp", beyond="unsupported")
        r = a ** b if isinstance(a, int) else (1 if b == 0 else _ipow(a, b))
        return Ok(r) if ctx.branch(r < hi, "cpow") else Err(ovf_err("Pow"))
    if meth == "pow" and isinstance(b, int):
        r = a ** b
        if ctx.branch(r < hi, "pow"): return r
        raise Panic("pow overflow")
    raise Unsupported(f"{ty}::{meth}")


def _ipow(x, e):
    r = x
    for _ in range(e - 1): r = r * x
    return r


def _div(a, b):
    if isinstance(a, int) and isinstance(b, int): return a // b
    return a / b


def div_floor(ctx, n, d):
    """floor(n/d) for n >= 0, d > 0.  Non-linear n is handled with a fresh quotient + division lemma (keeps the query in
    a fragment z3/cvc5 decide quickly instead of a `div` over a product)"""
    if isinstance(n, int) and isinstance(d, int): return n // d
    if isinstance(d, int) and _is_linear(n): return n / d
    q = ctx.fresh_int("q", 0, None)
    r = ctx.fresh_int("r", 0, None)
    ctx.assume(n == q * d + r)
    ctx.assume(r < d)
    return q


def _is_linear(t):
    if isinstance(t, int): return True
    if z3.is_mul(t):
        syms = [c for c in t.children() if not z3.is_int_value(c)]
        return len(syms) <= 1 and all(_is_linear(c) for c in syms)
    if z3.is_app(t): return all(_is_linear(c) for c in t.children())
    return True


@M.on(r"^<(&)?(cosmwasm_std::)?(Uint128|Uint64|Uint256) as (std::ops::)?(Add|Sub|Mul|Div|Rem|AddAssign|SubAssign|MulAssign|DivAssign)(<.*>)?>::(add|sub|mul|div|rem|add_assign|sub_assign|mul_assign|div_assign)$")
def m_uint_ops(I, ctx, callee, args, crate):
    ty, hi = _w(callee)
    meth = callee.split("::")[-1]
    assign = meth.endswith("_assign")
    a, b = I.deref(ctx, args[0]), I.deref(ctx, args[1])
    op = meth.replace("_assign", "")
    if op == "add":
        r = a + b
        if not ctx.branch(r < hi, "add-ovf"): raise Panic(f"{ty} add overflow")
    elif op == "sub":
        r = a - b
        if not ctx.branch(a >= b, "sub-ovf"): raise Panic(f"{ty} sub overflow")
    elif op == "mul":
        r = a * b
        if not ctx.branch(r < hi, "mul-ovf"): raise Panic(f"{ty} mul overflow")
    elif op in ("div", "rem"):
        if not ctx.branch(b != 0, "div0"): raise Panic(f"{ty} division by zero")
        r = _div(a, b) if op == "div" else a % b
    if assign:
        args[0].cell.v = I.set_path(ctx, args[0].cell.v, args[0].path, r)
        return ()
    return r


@M.on(r"^(cosmwasm_std::)?Decimal::(one|zero|percent|permille|bps|new|raw|atomics|is_zero|from_ratio|from_atomics|checked_add|checked_sub|checked_mul|checked_div|checked_rem|floor|ceil|to_uint_floor|to_uint_ceil|decimal_places|MAX|inv|checked_from_ratio|saturating_add|saturating_sub|saturating_mul|abs_diff|numerator|denominator)$")
def m_decimal(I, ctx, callee, args, crate):
    meth = strip_generics(callee).split("::")[-1]
    if meth == "one": return E18
    if meth == "zero": return 0
    if meth == "MAX": return U128 - 1
    a = I.deref(ctx, args[0])
    if meth == "percent": return _chk(ctx, a * 10 ** 16, U128, "Decimal::percent")
    if meth == "permille": return _chk(ctx, a * 10 ** 15, U128, "Decimal::permille")
    if meth == "bps": return _chk(ctx, a * 10 ** 14, U128, "Decimal::bps")
    if meth in ("new", "raw", "atomics"): return a
    if meth == "is_zero": return a == 0
    if meth == "decimal_places": return 18
    b = I.deref(ctx, args[1]) if len(args) > 1 else None
    if meth == "checked_add": return Ok(a + b) if ctx.branch(a + b < U128, "dadd") else Err(ovf_err("Add"))
    if meth == "checked_sub": return Ok(a - b) if ctx.branch(a >= b, "dsub") else Err(ovf_err("Sub"))
    if meth == "from_ratio":
        if not ctx.branch(b != 0, "ratio0"): raise Panic("Denominator must not be zero")
        q = div_floor(ctx, a * E18, b)
        return _chk(ctx, q, U128, "Decimal::from_ratio")
    if meth == "checked_from_ratio":
        if not ctx.branch(b != 0, "ratio0"): return Err(EnumV("CheckedFromRatioError", "DivideByZero", ()))
        q = div_floor(ctx, a * E18, b)
        return Ok(q) if ctx.branch(q < U128, "ratio-ovf") else Err(EnumV("CheckedFromRatioError", "Overflow", ()))
    if meth == "checked_mul":
        q = div_floor(ctx, a * b, E18)
        return Ok(q) if ctx.branch(q < U128, "dmul") else Err(ovf_err("Mul"))
    if meth == "checked_div":
        # Decimal::checked_from_ratio(self.numerator(), other.numerator())
        if not ctx.branch(b != 0, "ddiv0"): return Err(EnumV("CheckedFromRatioError", "DivideByZero", ()))
        q = div_floor(ctx, a * E18, b)
        return Ok(q) if ctx.branch(q < U128, "ddiv-ovf") else Err(EnumV("CheckedFromRatioError", "Overflow", ()))
    if meth == "checked_rem":
        if not ctx.branch(b != 0, "drem0"): return Err(Struct("DivideByZeroError", [], []))
        return Ok(a % b)
    if meth == "saturating_add": return a + b if ctx.branch(a + b < U128, "dsadd") else U128 - 1
    if meth == "saturating_sub": return a - b if ctx.branch(a >= b, "dssub") else 0
    if meth == "saturating_mul":
        q = div_floor(ctx, a * b, E18)
        return q if ctx.branch(q < U128, "dsmul") else U128 - 1
    if meth == "abs_diff": return a - b if ctx.branch(a >= b, "dabs") else b - a
    if meth == "numerator": return a
    if meth == "denominator": return E18
    if meth == "to_uint_ceil":
        if not ctx.branch(a != 0, "ceil0"): return 0
        return 1 + div_floor(ctx, a - 1, E18)
    if meth == "ceil":
        fl = div_floor(ctx, a, E18) * E18
        if ctx.branch(fl == a, "ceil-exact"): return fl
        return _chk(ctx, fl + E18, U128, "Decimal::ceil")
    if meth == "inv":
        if not ctx.branch(a != 0, "inv0"): return NONE
        return Some(div_floor(ctx, E18 * E18, a))
    if meth in ("to_uint_floor", "floor"):
        q = div_floor(ctx, a, E18)
        return q if meth == "to_uint_floor" else q * E18
    raise Unsupported(f"Decimal::{meth}")


def _chk(ctx, r, hi, what):
    if ctx.branch(r < hi if not isinstance(r, int) else r < hi, what): return r
    raise Panic(f"{what} overflow")


@M.on(r"^<(&)?(cosmwasm_std::)?Decimal as (std::ops::)?(Add|Sub|Mul)(<.*>)?>::(add|sub|mul)$")
def m_decimal_ops(I, ctx, callee, args, crate):
    meth = callee.split("::")[-1]
    a, b = I.deref(ctx, args[0]), I.deref(ctx, args[1])
    if meth == "add": return _chk(ctx, a + b, U128, "Decimal add")
    if meth == "sub":
        if ctx.branch(a >= b, "dsub"): return a - b
        raise Panic("Decimal sub overflow")
    q = div_floor(ctx, a * b, E18)
    return _chk(ctx, q, U128, "Decimal mul")


@M.on(r"^(cosmwasm_std::)?Timestamp::(from_nanos|from_seconds|plus_seconds|plus_nanos|minus_seconds|minus_nanos|nanos|seconds|subsec_nanos|plus_days|plus_hours|plus_minutes)$")
def m_timestamp(I, ctx, callee, args, crate):
    meth = callee.split("::")[-1]
    a = I.deref(ctx, args[0])
    if meth in ("from_nanos", "nanos"): return a
    if meth == "from_seconds":
        r = a * 10 ** 9                                  # plain u64 multiplication: panics on overflow (overflow-checks are on)
        if ctx.branch(r < U64, "ts-from-seconds"): return r
        raise Panic("attempt to multiply with overflow (Timestamp::from_seconds)")
    if meth == "subsec_nanos": return a % 10 ** 9
    if meth == "seconds": return a / 10 ** 9 if not isinstance(a, int) else a // 10 ** 9
    b = I.deref(ctx, args[1]) if len(args) > 1 else None
    mult = {"plus_seconds": 10 ** 9, "plus_nanos": 1, "minus_seconds": -10 ** 9, "minus_nanos": -1, "plus_minutes": 60 * 10 ** 9,
            "plus_hours": 3600 * 10 ** 9, "plus_days": 86400 * 10 ** 9}.get(meth)
    if mult is None: raise Unsupported(f"Timestamp::{meth}")
    step = b * abs(mult)
    if not ctx.branch(step < U64 if not isinstance(step, int) else step < U64, "ts-mul"): raise Panic("Timestamp seconds*1e9 overflow")
    r = a + step if mult > 0 else a - step
    ok = (r < U64) if mult > 0 else (r >= 0)
    if ctx.branch(ok, "ts-add"): return r
    raise Panic("Timestamp overflow")


# ------------------------------------------------------------------ Addr / Binary / Coin
@M.on(r"^(cosmwasm_std::)?Addr::(unchecked|as_str|as_bytes|into_string|to_string)$|^(cosmwasm_std::)?Binary::(new|as_slice|to_vec|from_base64|len|is_empty|to_array|to_base64)$|^(cosmwasm_std::)?Binary::from$|^(cosmwasm_std::)?CanonicalAddr::")
def m_addr(I, ctx, callee, args, crate):
    meth = callee.split("::")[-1]
    if meth in ("as_str", "as_bytes", "as_slice"): return args[0]
    if meth == "len":
        v = I.deref(ctx, args[0])
        return len(v.items) if isinstance(v, VecV) else bin_len(ctx, v)
    if meth == "is_empty":
        v = I.deref(ctx, args[0])
        return (len(v.items) if isinstance(v, VecV) else bin_len(ctx, v)) == 0
    if meth in ("to_base64", "from_base64"):
        import base64
        v = I.deref(ctx, args[0])
        if meth == "to_base64" and isinstance(v, VecV) and all(isinstance(b, int) for b in v.items):
            return base64.b64encode(bytes(v.items)).decode()
        if meth == "to_base64" and isinstance(v, VecV): raise Unsupported("base64 text of symbolic bytes")
        if meth == "from_base64" and isinstance(v, str):
            try: return Ok(VecV(list(base64.b64decode(v, validate=True))))
            except Exception: return Err(EnumV("StdError", "InvalidBase64", ()))
        if meth == "from_base64": return Ok(v)
    return I.deref(ctx, args[0])


@M.on(r"^(cosmwasm_std::)?(testing::)?(MemoryStorage|MockStorage)::(new|default)$|^<(cosmwasm_std::)?(testing::)?(MemoryStorage|MockStorage) as Default>::default$")
def m_mem_storage(I, ctx, callee, args, crate):
    # the key-value store is ctx.storage (typed tables per namespace); the handle itself carries nothing
    return Opaque("storage")


@M.on(r"^(cosmwasm_std::)?(coins|coin|Coin::new|attr|has_coins)$")
def m_coin(I, ctx, callee, args, crate):
    meth = strip_generics(callee).split("::")[-1]
    if callee.startswith("attr") or meth == "attr":
        return Struct("Attribute", [_s(I, ctx, args[0]), _s(I, ctx, args[1])], ["key", "value"])
    if meth in ("coin", "new"):
        return Struct("Coin", [_s(I, ctx, args[1]), I.deref(ctx, args[0])], ["denom", "amount"])
    if meth == "coins":
        return VecV([Struct("Coin", [_s(I, ctx, args[1]), I.deref(ctx, args[0])], ["denom", "amount"])])
    if meth == "has_coins":
        req = I.deref(ctx, args[1])
        for c in I.deref(ctx, args[0]).items:
            c = I.deref(ctx, c)
            if ctx.branch(values_eq(I, ctx, c.get("denom"), req.get("denom")), "has_coins"):
                return c.get("amount") >= req.get("amount")
        return False
    raise Unsupported(callee)


def _s(I, ctx, v):
    v = I.deref(ctx, v)
    return v


# ------------------------------------------------------------------ Api / Deps
@M.on(r"Api>::(addr_validate|addr_canonicalize|addr_humanize|debug)$")
def m_api(I, ctx, callee, args, crate):
    meth = callee.split("::")[-1]
    if meth == "debug": return ()
    s = I.deref(ctx, args[1])
    if meth == "addr_validate":
        # identity or error: which strings are valid addresses is a fixed (unknown) predicate per string
        a = ctx.atom_of(s)
        ok = valid_addr_pred(ctx, a)
        if ctx.branch(ok, "addr_validate"): return Ok(a)
        return Err(std_err("GenericErr", "invalid address"))
    if meth == "addr_canonicalize":
        a = ctx.atom_of(s)
        if ctx.branch(valid_addr_pred(ctx, a), "addr_canonicalize"): return Ok(Opaque("canon", a))
        return Err(std_err("GenericErr", "invalid address"))
    raise Unsupported(callee)


def valid_addr_pred(ctx, atom):
    if getattr(atom, "valid_addr", None) is None:
        atom.valid_addr = ctx.fresh_bool(f"valid_addr[{atom.name}]")
    return atom.valid_addr


@M.on(r"^(cosmwasm_std::)?(DepsMut|Deps|OwnedDeps)(<.*>)?::(as_ref|branch|as_mut)$")
def m_deps(I, ctx, callee, args, crate):
    d = I.deref(ctx, args[0])
    meth = callee.split("::")[-1]
    if meth == "as_ref": return Struct("Deps", d.fields, d.names)
    return Struct("DepsMut", d.fields, d.names)


def make_deps(mutable=True):
    return Struct("DepsMut" if mutable else "Deps", [Opaque("storage"), Opaque("api"), Struct("QuerierWrapper", [Opaque("querier")], ["querier"])],
                  ["storage", "api", "querier"])


# ------------------------------------------------------------------ Response builders
def _resp_default(ty):
    if ty == "Response": return Struct("Response", [VecV([]), VecV([]), VecV([]), NONE], ["messages", "attributes", "events", "data"])
    if ty == "IbcBasicResponse": return Struct("IbcBasicResponse", [VecV([]), VecV([]), VecV([])], ["messages", "attributes", "events"])
    if ty == "IbcReceiveResponse":
        return Struct("IbcReceiveResponse", [NONE, VecV([]), VecV([]), VecV([])], ["acknowledgement", "messages", "attributes", "events"])
    raise Unsupported(ty)


_WRAP = {"BankMsg": "Bank", "WasmMsg": "Wasm", "StakingMsg": "Staking", "DistributionMsg": "Distribution", "IbcMsg": "Ibc", "GovMsg": "Gov"}


def into_cosmos(v):
    """impl Into<CosmosMsg> for the module message enums"""
    if isinstance(v, EnumV) and v.ty in _WRAP: return EnumV("CosmosMsg", _WRAP[v.ty], (v,))
    return v


def submsg(msg, id=0, reply_on="Never", gas_limit=NONE):
    msg = into_cosmos(msg)
    return Struct("SubMsg", [id, VecV([]), msg, gas_limit, EnumV("ReplyOn", reply_on)], ["id", "payload", "msg", "gas_limit", "reply_on"])


@M.on(r"^(cosmwasm_std::)?(Response|IbcBasicResponse|IbcReceiveResponse)::(new|without_ack|add_attribute|add_attributes|add_message|add_messages|add_submessage|add_submessages|add_event|add_events|set_data|set_ack)$")
def m_response(I, ctx, callee, args, crate):
    n = strip_generics(callee)
    m = re.search(r"(Response|IbcBasicResponse|IbcReceiveResponse)::(\w+)$", n)
    ty, meth = m.group(1), m.group(2)
    if meth == "new":
        r = _resp_default(ty)
        if ty == "IbcReceiveResponse" and args: r = r.with_("acknowledgement", Some(I.deref(ctx, args[0])))
        return r
    if meth == "without_ack": return _resp_default(ty)
    r = I.deref(ctx, args[0])
    if meth == "add_attribute":
        at = Struct("Attribute", [I.deref(ctx, args[1]), I.deref(ctx, args[2])], ["key", "value"])
        return r.with_("attributes", VecV(r.get("attributes").items + (at,)))
    if meth == "add_attributes":
        its = [I.deref(ctx, x) for x in drain(I, ctx, get_iter(I, ctx, args[1]))]
        return r.with_("attributes", VecV(r.get("attributes").items + tuple(its)))
    if meth == "add_message":
        return r.with_("messages", VecV(r.get("messages").items + (submsg(I.deref(ctx, args[1])),)))
    if meth == "add_messages":
        its = [submsg(I.deref(ctx, x)) for x in drain(I, ctx, get_iter(I, ctx, args[1]))]
        return r.with_("messages", VecV(r.get("messages").items + tuple(its)))
    if meth == "add_submessage":
        return r.with_("messages", VecV(r.get("messages").items + (I.deref(ctx, args[1]),)))
    if meth == "add_submessages":
        its = [I.deref(ctx, x) for x in drain(I, ctx, get_iter(I, ctx, args[1]))]
        return r.with_("messages", VecV(r.get("messages").items + tuple(its)))
    if meth in ("add_event", "add_events"): return r
    if meth == "set_data": return r.with_("data", Some(I.deref(ctx, args[1])))
    if meth == "set_ack": return r.with_("acknowledgement", Some(I.deref(ctx, args[1])))
    raise Unsupported(callee)


@M.on(r"^(cosmwasm_std::)?SubMsg::(new|reply_on_success|reply_on_error|reply_always|reply_never|with_gas_limit|with_payload)$")
def m_submsg(I, ctx, callee, args, crate):
    meth = strip_generics(callee).split("::")[-1]
    if meth == "new": return submsg(I.deref(ctx, args[0]))
    if meth == "reply_never": return submsg(I.deref(ctx, args[0]))
    if meth in ("reply_on_success", "reply_on_error", "reply_always"):
        return submsg(I.deref(ctx, args[0]), I.deref(ctx, args[1]), {"reply_on_success": "Success", "reply_on_error": "Error", "reply_always": "Always"}[meth])
    s = I.deref(ctx, args[0])
    if meth == "with_gas_limit": return s.with_("gas_limit", Some(I.deref(ctx, args[1])))
    if meth == "with_payload": return s.with_("payload", I.deref(ctx, args[1]))
    raise Unsupported(callee)


# ------------------------------------------------------------------ errors
@M.on(r"^(cosmwasm_std::)?StdError::(generic_err|not_found|parse_err|serialize_err|overflow|divide_by_zero|invalid_utf8|invalid_base64|invalid_data_size|verification_err)$|^(cosmwasm_std::)?OverflowError::new$")
def m_stderr(I, ctx, callee, args, crate):
    meth = strip_generics(callee).split("::")[-1]
    if "OverflowError" in callee: return ovf_err(I.deref(ctx, args[0]) if args else "Add")
    kind = {"generic_err": "GenericErr", "not_found": "NotFound", "parse_err": "ParseErr", "serialize_err": "SerializeErr",
            "overflow": "Overflow", "divide_by_zero": "DivideByZero", "invalid_utf8": "InvalidUtf8", "invalid_base64": "InvalidBase64",
            "invalid_data_size": "InvalidDataSize", "verification_err": "VerificationErr"}[meth]
    return std_err(kind, *[I.deref(ctx, a) for a in args])


@M.on(r"thiserror::__private::AsDynError|as_dyn_error$|^<dyn std::error::Error")
def m_dynerr(I, ctx, callee, args, crate):
    return args[0]


# ------------------------------------------------------------------ JSON (de)serialisation
@M.on(r"^(cosmwasm_std::)?(to_json_binary|to_json_vec|to_json_string|to_binary|to_vec)$")
def m_to_json(I, ctx, callee, args, crate):
    v = I.deep(ctx, args[0])
    g = last_generics(callee)
    return Ok(JsonBin(v, g[0] if g else None))


@M.on(r"^(cosmwasm_std::)?(from_json|from_binary|from_slice)$")
def m_from_json(I, ctx, callee, args, crate):
    g = last_generics(callee)
    ty = g[0] if g else None
    b = I.deref(ctx, args[0])
    return parse_json(I, ctx, b, ty, crate)


def parse_json(I, ctx, b, ty, crate):
    if isinstance(b, JsonBin):
        v = b.value
        want = simple_name(ty) if ty else None
        have = getattr(v, "ty", None)
        if want is None or have is None or have == want or want in ("T", "U", "M"):
            return Ok(v)
        return Err(std_err("ParseErr", want, "type mismatch"))
    if isinstance(b, SymBin):
        key = (b.id, ty)
        if key not in ctx.bin_parse:
            ok = ctx.fresh_bool(f"parses[{b.name} as {simple_name(ty)}]")
            ctx.bin_parse[key] = [ok, None]
        ok, val = ctx.bin_parse[key]
        if ctx.branch(ok, "from_json"):
            if ctx.bin_parse[key][1] is None:
                from .. import symval
                ctx.bin_parse[key][1] = symval.fresh(I, ctx, ty, f"{b.name}:{simple_name(ty)}", None, crate)
            return Ok(ctx.bin_parse[key][1])
        return Err(std_err("ParseErr", simple_name(ty), "invalid json"))
    if isinstance(b, VecV) and not b.items:
        return Err(std_err("ParseErr", simple_name(ty) if ty else "?", "EOF"))
    raise Unsupported(f"from_json of {b!r}")


# ------------------------------------------------------------------ querier (environment)
@M.on(r"^(cosmwasm_std::)?QuerierWrapper(<.*>)?::(query|query_wasm_smart|query_wasm_raw|query_balance|query_all_balances|query_wasm_contract_info|query_supply)$")
def m_querier(I, ctx, callee, args, crate):
    n = strip_generics(callee)
    meth = n.split("::")[-1]
    g = last_generics(callee)
    if ctx.env is None or not hasattr(ctx.env, "query"):
        raise Unsupported(f"querier call {meth} without an environment model")
    return ctx.env.query(I, ctx, meth, [I.deref(ctx, a) for a in args[1:]], g, crate)


# ------------------------------------------------------------------ semver (opaque ordered versions)
def parse_version(I, ctx, s):
    if isinstance(s, str):
        m = re.match(r"^(\d+)\.(\d+)\.(\d+)", s)
        if not m: return Err(Opaque("semver::Error"))
        return Ok(Struct("Version", [int(m.group(1)), int(m.group(2)), int(m.group(3))], ["major", "minor", "patch"]))
    a = ctx.atom_of(s)
    if a.text is not None: return parse_version(I, ctx, a.text)
    if getattr(a, "version", None) is None:
        a.version = (ctx.fresh_bool(f"semver_ok[{a.name}]"),
                     Struct("Version", [ctx.fresh_int(f"ver[{a.name}].{k}", 0, U64) for k in ("major", "minor", "patch")], ["major", "minor", "patch"]))
    ok, v = a.version
    if ctx.branch(ok, "semver-parse"): return Ok(v)
    return Err(Opaque("semver::Error"))


@M.on(r"^(semver::)?Version::(parse|new)$")
def m_version(I, ctx, callee, args, crate):
    if callee.endswith("new"):
        return Struct("Version", [I.deref(ctx, a) for a in args], ["major", "minor", "patch"])
    return parse_version(I, ctx, I.deref(ctx, args[0]))


@M.on(r"^<(semver::)?Version as (PartialOrd|Ord|PartialEq)(<.*>)?>::(lt|le|gt|ge|eq|ne|cmp|partial_cmp)$")
def m_version_cmp(I, ctx, callee, args, crate):
    meth = callee.split("::")[-1]
    a, b = I.deref(ctx, args[0]), I.deref(ctx, args[1])
    lt = zor(a.fields[0] < b.fields[0], zand(zeq(a.fields[0], b.fields[0]),
             zor(a.fields[1] < b.fields[1], zand(zeq(a.fields[1], b.fields[1]), a.fields[2] < b.fields[2]))))
    eq = zand(*[zeq(x, y) for x, y in zip(a.fields, b.fields)])
    if meth == "lt": return lt
    if meth == "le": return zor(lt, eq)
    if meth == "gt": return znot(zor(lt, eq))
    if meth == "ge": return znot(lt)
    if meth == "eq": return eq
    if meth == "ne": return znot(eq)
    i = ctx.choose([lt, eq, znot(zor(lt, eq))], "vercmp")
    o = EnumV("Ordering", ["Less", "Equal", "Greater"][i])
    return o if meth == "cmp" else Some(o)


M.on(r"^<(semver::)?Version as (PartialOrd|Ord|PartialEq)")(m_version_cmp)
# make sure the Version comparison wins over the generic ordering model registered earlier
M.pre.insert(0, M.pre.pop())


# ------------------------------------------------------------------ associated constants
@M.const(r"^(cosmwasm_std::)?(Uint128|Uint64|Uint256|Decimal)::(MAX|MIN)$")
def c_uint_max(I, ctx, name):
    ty = re.search(r"(Uint128|Uint64|Uint256|Decimal)", name).group(1)
    return WIDTH[ty] - 1 if name.endswith("MAX") else 0
