"""Model registry: handlers for library functions that are not interpreted from MIR (the trusted base, DESIGN §3.5)."""
import re
from ..mirparse import strip_generics

_CLOS = re.compile(r"\{closure@[^}]*\}")


def norm(callee):
    return _CLOS.sub("{closure}", strip_generics(callee)).strip()


class Models:
    def __init__(self):
        self.pre, self.post, self.consts = [], [], []
        self._cache = {}
        self._fcache = {}

    def on(self, pat, fallback=False):
        rx = re.compile(pat)

        def deco(h):
            (self.post if fallback else self.pre).append((rx, h))
            return h
        return deco

    def const(self, pat):
        rx = re.compile(pat)

        def deco(h):
            self.consts.append((rx, h)); return h
        return deco

    def lookup(self, callee):
        c = self._cache.get(callee, 0)
        if c != 0: return c
        n = norm(callee)
        r = None
        for rx, h in self.pre:
            if rx.search(n):
                r = h; break
        self._cache[callee] = r
        return r

    def lookup_fallback(self, callee):
        c = self._fcache.get(callee, 0)
        if c != 0: return c
        n = norm(callee)
        r = None
        for rx, h in self.post:
            if rx.search(n):
                r = h; break
        self._fcache[callee] = r
        return r

    def lookup_const(self, name):
        for rx, h in self.consts:
            if rx.search(name): return h
        return None


M = Models()


def load_all():
    from . import std, cosmwasm, storage   # noqa: F401  (registration by import)
    return M
