"""Model registry: handlers for library functions that are not interpreted from MIR (the trusted base, DESIGN §3.5)."""
import re
from ..mirparse import strip_generics

_CLOS = re.compile(r"\{closure@[^}]*\}")


def norm(callee):
    return _CLOS.sub("{closure}", strip_generics(callee)).strip()


# rustc prints *trimmed* paths: a name that is unique among the crates in scope loses its module path (`String::len` instead of
# `std::string::String::len`), so how a library function is spelled depends on what else the crate under analysis imports.
# Every equivalent spelling is tried against the model patterns.
_ALIASES = [
    ("String::", "std::string::String::", "alloc::string::String::"),
    ("Vec::", "std::vec::Vec::", "alloc::vec::Vec::"),
    ("Option::", "std::option::Option::", "core::option::Option::"),
    ("Result::", "std::result::Result::", "core::result::Result::"),
    ("slice::", "core::slice::", "std::slice::"),
    ("str::", "core::str::", "std::str::"),
    ("Box::", "std::boxed::Box::", "alloc::boxed::Box::"),
    ("mem::", "std::mem::", "core::mem::"),
    ("cmp::", "std::cmp::", "core::cmp::"),
    ("Ordering::", "std::cmp::Ordering::", "core::cmp::Ordering::"),
    ("BTreeMap::", "std::collections::BTreeMap::", "alloc::collections::BTreeMap::", "std::collections::btree_map::BTreeMap::"),
    ("BTreeSet::", "std::collections::BTreeSet::", "alloc::collections::BTreeSet::", "std::collections::btree_set::BTreeSet::"),
    ("array::", "core::array::", "std::array::"),
    ("num::", "core::num::", "std::num::"),
    ("char::", "core::char::", "std::char::"),
    ("iter::", "core::iter::", "std::iter::"),
    ("ops::", "core::ops::", "std::ops::"),
    ("fmt::", "core::fmt::", "std::fmt::", "alloc::fmt::"),
    ("convert::", "core::convert::", "std::convert::"),
]


_INNER = re.compile(r"\b(?:std|alloc|core)::(?:vec|string|option|result|boxed|collections(?:::btree_map|::btree_set)?|cmp|ops)::(?=[A-Z])")


def spellings(n):
    out = [n]
    short = _INNER.sub("", n)             # std paths nested in `<..>` (`<std::vec::Vec<T> as Extend<T>>::extend`)
    if short != n: out.append(short)
    if re.fullmatch(r"\w+", n):            # a free function trimmed to its bare name (`min`, `swap`, `once`)
        out += [f"std::cmp::{n}", f"std::mem::{n}", f"std::iter::{n}"]
    for group in _ALIASES:
        for g in group:
            if n.startswith(g):
                # only when the prefix is the whole leading path (`Vec::` must not match `MyVec::`): startswith on the full name is enough
                out += [h + n[len(g):] for h in group if h != g]
                return out
    return out


class Models:
    def __init__(self):
        self.pre, self.post, self.consts = [], [], []
        self._cache = {}
        self._fcache = {}

    def on(self, pat, fallback=False):
        rx = re.compile(pat)

        def deco(h):
            (self.post if fallback else self.pre).append((rx, h))
            return h
        return deco

    def const(self, pat):
        rx = re.compile(pat)

        def deco(h):
            self.consts.append((rx, h)); return h
        return deco

    def lookup(self, callee):
        c = self._cache.get(callee, 0)
        if c != 0: return c
        r = None
        for n in spellings(norm(callee)):
            for rx, h in self.pre:
                if rx.search(n):
                    r = h; break
            if r is not None: break
        self._cache[callee] = r
        return r

    def lookup_fallback(self, callee):
        c = self._fcache.get(callee, 0)
        if c != 0: return c
        r = None
        for n in spellings(norm(callee)):
            for rx, h in self.post:
                if rx.search(n):
                    r = h; break
            if r is not None: break
        self._fcache[callee] = r
        return r

    def lookup_const(self, name):
        for rx, h in self.consts:
            if rx.search(name): return h
        return None


M = Models()


def load_all():
    from . import std, cosmwasm, storage, collections   # noqa: F401  (registration by import)
    return M
