"""Models of Rust core/alloc/std items (trusted base).  Closure bodies passed to combinators are interpreted from MIR."""
import re
import z3
from . import M
from ..values import *
from ..mirparse import split_top, strip_generics
from ..program import simple_name
from ..ctx import comp_eq, comp_lt


# ------------------------------------------------------------------ helpers
def last_generics(callee):
    """generic arguments of the last path segment:  a::b::<X, Y>  -> ['X','Y']"""
    callee = callee.strip()
    if not callee.endswith(">"): return []
    d = 0
    for i in range(len(callee) - 1, -1, -1):
        c = callee[i]
        if c == ">" and callee[i - 1] not in "-=": d += 1
        elif c == "<":
            d -= 1
            if d == 0:
                if callee[i - 2:i] == "::": return split_top(callee[i + 1:-1])
                return []
    return []


def impl_parts(callee):
    """<Self as Trait<..>>::method  -> (Self, Trait<..>, method)"""
    m = re.match(r"^<(.*)>::(\w+)(::<.*>)?$", callee.strip())
    if not m: return None
    inner = m.group(1)
    d = 0
    for i, c in enumerate(inner):
        if c == "<": d += 1
        elif c == ">" and inner[i - 1] not in "-=": d -= 1
        elif d == 0 and inner.startswith(" as ", i):
            return inner[:i].strip(), inner[i + 4:].strip(), m.group(2)
    return inner.strip(), None, m.group(2)


def is_str(v):
    return isinstance(v, (str, StrAtom, SymStr))


def values_eq(I, ctx, a, b):
    """structural equality; returns python bool or z3 Bool (forks only on lazy values / strings)"""
    a, b = I.deref(ctx, a), I.deref(ctx, b)
    if is_str(a) or is_str(b):
        if not (is_str(a) and is_str(b)): raise Unsupported(f"eq {a!r} {b!r}")
        return ctx.str_eq(a, b)
    if is_boolish(a) and is_boolish(b): return zeq(a, b)
    if is_int(a) and is_int(b): return zeq(a, b)
    if isinstance(a, EnumV) and isinstance(b, EnumV):
        if a.variant != b.variant: return False
        return zand(*[values_eq(I, ctx, x, y) for x, y in zip(a.fields, b.fields)])
    if isinstance(a, Struct) and isinstance(b, Struct):
        return zand(*[values_eq(I, ctx, x, y) for x, y in zip(a.fields, b.fields)])
    if isinstance(a, tuple) and isinstance(b, tuple):
        return zand(*[values_eq(I, ctx, x, y) for x, y in zip(a, b)])
    if isinstance(a, VecV) and isinstance(b, VecV):
        if len(a) != len(b): return False
        return zand(*[values_eq(I, ctx, x, y) for x, y in zip(a.items, b.items)])
    if isinstance(a, JsonBin) and isinstance(b, JsonBin): return values_eq(I, ctx, a.value, b.value)
    if isinstance(a, SymBin) and isinstance(b, SymBin):
        if a.id == b.id: return True
        return bin_eq(ctx, a, b)
    if isinstance(a, (SymBin, JsonBin, VecV)) and isinstance(b, (SymBin, JsonBin, VecV)):
        return bin_eq(ctx, a, b)
    if isinstance(a, Opaque) and isinstance(b, Opaque):
        if a.tag == b.tag and a.data == b.data: return True
        if a.tag == "char" and b.tag == "char": return False
    if isinstance(a, FmtStr) or isinstance(b, FmtStr):
        return a == b if (isinstance(a, FmtStr) and isinstance(b, FmtStr)) else False
    raise Unsupported(f"structural equality of {a!r} and {b!r}")


def bin_eq(ctx, a, b):
    key = ("bineq",) + tuple(sorted([id_of(a), id_of(b)]))
    v = ctx.vars.get(str(key))
    if v is None:
        v = z3.Bool(str(key)); ctx.vars[str(key)] = v
    return v


def id_of(x):
    return getattr(x, "id", None) or repr(x)


class FmtStr:
    """result of format!: kept structurally (pieces + args); only compared structurally"""

    def __init__(self, parts): self.parts = tuple(parts)
    def __eq__(self, o): return isinstance(o, FmtStr) and repr(self.parts) == repr(o.parts)
    def __hash__(self): return hash(repr(self.parts))
    def __repr__(self): return "fmt" + repr(self.parts)


def int_cmp(ctx, a, b):
    """three-way compare of ints -> EnumV Ordering (forks if symbolic)"""
    if isinstance(a, int) and isinstance(b, int):
        return EnumV("Ordering", "Less" if a < b else ("Equal" if a == b else "Greater"))
    i = ctx.choose([a < b, a == b, a > b], "cmp")
    return EnumV("Ordering", ["Less", "Equal", "Greater"][i])


def generic_cmp(I, ctx, a, b, crate):
    a, b = I.deref(ctx, a), I.deref(ctx, b)
    if is_int(a) and is_int(b): return int_cmp(ctx, a, b)
    if is_str(a) and is_str(b):
        if ctx.str_eq(a, b): return EnumV("Ordering", "Equal")
        return EnumV("Ordering", "Less" if ctx.str_lt(a, b) else "Greater")
    if isinstance(a, tuple) and isinstance(b, tuple):
        for x, y in zip(a, b):
            o = generic_cmp(I, ctx, x, y, crate)
            if o.variant != "Equal": return o
        return EnumV("Ordering", "Equal")
    if isinstance(a, bool) and isinstance(b, bool): return int_cmp(ctx, int(a), int(b))
    a, b = I.force(ctx, a), I.force(ctx, b)
    if isinstance(a, EnumV) and isinstance(b, EnumV) and a.ty == b.ty == "Option":
        if a.variant != b.variant: return EnumV("Ordering", "Less" if a.variant == "None" else "Greater")
        return generic_cmp(I, ctx, a.fields[0], b.fields[0], crate) if a.variant == "Some" else EnumV("Ordering", "Equal")
    if isinstance(a, EnumV) and isinstance(b, EnumV) and a.ty == b.ty == "Ordering":
        return int_cmp(ctx, I.discriminant(a), I.discriminant(b))
    if isinstance(a, Struct) and isinstance(b, Struct) and a.ty == b.ty == "Reverse":
        return generic_cmp(I, ctx, b.fields[0], a.fields[0], crate)
    if isinstance(a, (EnumV, Struct)) and type(a) is type(b) and a.ty == b.ty and _derives(I, a.ty, ("PartialOrd", "Ord"), crate):
        # #[derive(PartialOrd)]: variants by discriminant, then fields lexicographically
        if isinstance(a, EnumV) and a.variant != b.variant:
            return int_cmp(ctx, I.discriminant(a, crate), I.discriminant(b, crate))
        for x, y in zip(a.fields, b.fields):
            o = generic_cmp(I, ctx, x, y, crate)
            if o.variant != "Equal": return o
        return EnumV("Ordering", "Equal")
    raise Unsupported(f"ordering of {a!r} and {b!r}")


def _derives(I, ty, traits, crate):
    td = I.prog.types.lookup(ty, crate)
    if td is None: return False
    for at in td.attrs:
        if at.startswith("derive") and any(re.search(r"\b" + t + r"\b", at) for t in traits): return True
    return False


def make_iter(items):
    st = {"i": 0}

    def nxt(I, ctx):
        if st["i"] >= len(items): return NONE
        v = items[st["i"]]; st["i"] += 1
        return Some(v)
    it = IterV(nxt)
    it.remaining = lambda: items[st["i"]:]
    return it


RANGE_LIMIT = 64


def range_iter(lo, hi, inclusive):
    """iterator over lo..hi / lo..=hi with symbolic ends: every step forks on `cur < hi` (the path condition bounds the trip count)"""
    st = {"cur": lo, "n": 0, "done": False}

    def nxt(I, ctx):
        if st["done"]: return NONE
        cur = st["cur"]
        more = (cur <= hi) if inclusive else (cur < hi)
        if not ctx.branch(more, "range"):
            st["done"] = True
            return NONE
        st["n"] += 1
        if st["n"] > RANGE_LIMIT: raise Unsupported(f"range iteration longer than {RANGE_LIMIT} steps")
        st["cur"] = cur + 1
        return Some(cur)
    return IterV(nxt)


def _range_of(v):
    if isinstance(v, Struct) and v.ty in ("Range", "RangeInclusive") and len(v.fields) >= 2:
        return range_iter(v.fields[0], v.fields[1], v.ty == "RangeInclusive")
    return None


def iter_of(I, ctx, v, by_ref):
    """iterator over a Vec / slice value or reference"""
    if isinstance(v, IterV): return v
    if isinstance(v, Ref):
        tgt = I.deref(ctx, v)
        if isinstance(tgt, IterV): return tgt
        r = _range_of(tgt)
        if r is not None:
            _store(I, ctx, v, r)          # `next(&mut range)`: the range object itself is the iterator state
            return r
        if isinstance(tgt, Struct) and tgt.ty in ("BTreeMap", "BTreeSet"):
            from . import collections
            return (collections.m_btreemap if tgt.ty == "BTreeMap" else collections.m_btreeset)(I, ctx, f"{tgt.ty}::iter", [v], None)
        if isinstance(tgt, EnumV) and tgt.ty in ("Option", "Result"):
            return make_iter([Ref(v.cell, v.path + (("d", tgt.variant), ("f", 0)))] if tgt.variant in ("Some", "Ok") and by_ref else ([tgt.fields[0]] if tgt.variant in ("Some", "Ok") else []))
        if isinstance(tgt, str): return make_iter(list(tgt.encode()))
        if isinstance(tgt, VecV):
            # materialise the forced vector in place so element references stay valid
            if by_ref:
                cur = I.get_path(ctx, v.cell.v, v.path)
                if not isinstance(cur, VecV):
                    v.cell.v = I.set_path(ctx, v.cell.v, v.path, tgt)
                return make_iter([Ref(v.cell, v.path + (("i", k),)) for k in range(len(tgt.items))])
            return make_iter(list(tgt.items))
        raise Unsupported(f"iter over {tgt!r}")
    v = I.force(ctx, v)
    if isinstance(v, VecV): return make_iter(list(v.items))
    if isinstance(v, str): return make_iter(list(v.encode()))
    r = _range_of(v)
    if r is not None: return r
    if isinstance(v, EnumV) and v.ty in ("Option", "Result"): return make_iter([v.fields[0]] if v.variant in ("Some", "Ok") else [])
    if isinstance(v, Struct) and v.ty in ("BTreeMap", "BTreeSet"): return make_iter(list(v.fields[0].items))
    raise Unsupported(f"iter over {v!r}")


def drain(I, ctx, it, limit=10000):
    out = []
    while True:
        r = it.next(I, ctx)
        if r.variant == "None": return out
        out.append(r.fields[0])
        if len(out) > limit: raise Unsupported("iterator too long")


def get_iter(I, ctx, v):
    if isinstance(v, IterV): return v
    if isinstance(v, Ref):
        t = I.deref(ctx, v)
        if isinstance(t, IterV): return t
    return iter_of(I, ctx, v, False)


# ------------------------------------------------------------------ identities / conversions
@M.on(r"^<.* as (Deref|DerefMut|AsRef<.*>|AsMut<.*>|Borrow<.*>)>::(deref|deref_mut|as_ref|as_mut|borrow)$")
def m_deref(I, ctx, callee, args, crate):
    parts = impl_parts(strip_generics(callee))
    f = I.prog.resolve(callee, crate)
    if f is not None and f.blocks and simple_name(parts[0]) not in ("String", "Vec", "Addr", "Binary", "Box"):
        return I.call_mir(ctx, f, args)
    return args[0]           # a reference to String/Vec/Binary/Addr doubles as the reference to str/[T]


@M.on(r"^<.* as (Clone|ToOwned)>::(clone|to_owned)$")
def m_clone(I, ctx, callee, args, crate):
    return I.deref(ctx, args[0])


@M.on(r"^<.* as ToString>::to_string$")
def m_to_string(I, ctx, callee, args, crate):
    v = I.deref(ctx, args[0])
    if is_str(v): return v
    if isinstance(v, int) and not isinstance(v, bool): return str(v)
    return FmtStr([v])


@M.on(r"^(std|core|alloc)::(string::String|str)::(as_str|as_bytes|into_bytes|as_mut_str|into_boxed_str|trim)$|^core::str::(as_bytes|trim)$|^(std::string::String|str)::(as_str|as_bytes|into_bytes)$")
def m_str_ident(I, ctx, callee, args, crate):
    if callee.endswith("trim"):
        v = I.deref(ctx, args[0])
        if isinstance(v, str): return v.strip()
        # abstract strings are assumed to carry no surrounding whitespace (only cw20 UpdateMarketing trims, to detect blank input)
        return args[0]
    return I.deref(ctx, args[0]) if callee.endswith("into_bytes") else args[0]


@M.on(r"^<.* as Into<.*>>::into$|^<.* as From<.*>>::from$|^<.* as TryInto<.*>>::try_into$|^<.* as TryFrom<.*>>::try_from$")
def m_into(I, ctx, callee, args, crate):
    cs = strip_generics(callee) if False else callee
    parts = impl_parts(callee)
    selfty, trait, meth = parts
    targ = trait[trait.index("<") + 1:-1] if "<" in trait else ""
    if meth in ("into", "try_into"): src, dst = selfty, targ
    else: src, dst = targ, selfty
    x = args[0]
    s_src, s_dst = simple_name(src), simple_name(dst)
    # user-defined From impl in MIR?
    f = find_from(I, src, dst, crate)
    if f is not None:
        r = I.call_mir(ctx, f, [x])
        return r
    if meth in ("try_into", "try_from"):
        v = I.deref(ctx, x)
        if int_bits(s_dst) is not None and is_int(v):
            lo_, hi_ = int_bounds(s_dst)
            if ctx.branch(zand(v >= lo_, v < hi_), "try_into"): return Ok(v)
            return Err(Opaque("TryFromIntError"))
        if isinstance(v, VecV): return Ok(v)
        raise Unsupported(f"try_into {src} -> {dst}")
    wrap = {("BankMsg", "CosmosMsg"): "Bank", ("WasmMsg", "CosmosMsg"): "Wasm", ("StakingMsg", "CosmosMsg"): "Staking",
            ("DistributionMsg", "CosmosMsg"): "Distribution", ("IbcMsg", "CosmosMsg"): "Ibc", ("GovMsg", "CosmosMsg"): "Gov",
            ("WasmQuery", "QueryRequest"): "Wasm", ("BankQuery", "QueryRequest"): "Bank", ("IbcQuery", "QueryRequest"): "Ibc",
            ("StakingQuery", "QueryRequest"): "Staking"}
    if (s_src, s_dst) in wrap: return EnumV(s_dst, wrap[(s_src, s_dst)], (x,))
    if s_dst == "Option" and s_src != "Option":
        if s_src.startswith("impl") or s_src in ("T", "U", "S", "A", "B"):
            # generic source (`impl Into<Option<u64>>`): the instantiation is only visible in the value — an Option converts to itself
            v = I.deref(ctx, x) if isinstance(x, Ref) else x
            if (isinstance(v, EnumV) and v.ty == "Option") or (isinstance(v, SymEnum) and simple_name(v.ty) == "Option"): return x
        return Some(x)
    if (s_src, s_dst) == ("Timestamp", "IbcTimeout"):
        return Struct("IbcTimeout", [NONE, Some(x)], ["block", "timestamp"])
    if (s_src, s_dst) == ("IbcTimeoutBlock", "IbcTimeout"):
        return Struct("IbcTimeout", [Some(x), NONE], ["block", "timestamp"])
    if s_src == "IbcChannelConnectMsg" and s_dst == "IbcChannel":
        v = I.deref(ctx, x)
        return v.fields[0]
    ident = {"String", "str", "Addr", "Vec", "Binary", "Uint128", "u128", "Uint64", "u64", "u32", "u8", "usize", "T", "U", "Box",
             "[u8]", "[u8; 1]", "Cow"}
    if s_src == s_dst or (s_src in ident and s_dst in ident) or s_src.startswith("impl ") or s_src.startswith("[u8"):
        v = I.deref(ctx, x) if isinstance(x, Ref) and s_dst in ("String", "Vec", "Binary") else x
        return v
    if s_src in ("T", "U", "S", "A", "B") or s_src.startswith("impl"): return x
    if s_src.endswith("Error") and s_dst.endswith("Error"):
        # error wrapping without a MIR body (e.g. cosmwasm_std's From<OverflowError> for StdError): same value `?` would build
        return convert_err(I, ctx, x, src, dst, crate)
    raise Unsupported(f"conversion {src} -> {dst}")


def find_from(I, src, dst, crate):
    s_dst = simple_name(dst)
    cands = [x for x in I.prog.methods.get((s_dst, "from"), []) if x[1] == "From"]
    s_src = simple_name(src)
    for c, tr, f, trait_full, selfty in cands:
        if f.params and simple_name(f.params[0][1]) == s_src and f.blocks:
            if f.params[0][1].strip().startswith("&") != src.strip().startswith("&"): continue
            qp, qs = _crate_qual(I, f.params[0][1]), _crate_qual(I, src)
            if qp != qs and not (qp is None and qs == c) and not (qs is None and qp == crate): continue
            return f
    return None


@M.on(r"^<.* as Default>::default$")
def m_default(I, ctx, callee, args, crate):
    ty = impl_parts(callee)[0]
    return default_of(I, ctx, ty, crate, callee)


def default_of(I, ctx, ty, crate, callee=None):
    ty = ty.strip()
    if ty.startswith("(") and ty.endswith(")"):
        inner = ty[1:-1].strip()
        return tuple(default_of(I, ctx, t, crate) for t in split_top(inner) if t.strip()) if inner else ()
    if ty.startswith("["):
        m_ = re.match(r"^\[(.*); (\d+)\]$", ty)
        if m_: return VecV([default_of(I, ctx, m_.group(1), crate)] * int(m_.group(2)))
    sn = simple_name(ty)
    if sn in INTMAX or sn in SINT or sn in ("Uint128", "Uint64", "Decimal", "Timestamp"): return 0
    if sn == "char": return Opaque("char", "\0")
    if sn in ("BTreeMap", "BTreeSet"): return Struct(sn, [VecV([])], ["items"])
    if sn == "bool": return False
    if sn in ("String", "str"): return ""
    if sn in ("Vec", "Binary"): return VecV([])
    if sn == "Option": return NONE
    if sn == "Response":
        return Struct("Response", [VecV([]), VecV([]), VecV([]), NONE], ["messages", "attributes", "events", "data"])
    if sn == "IbcBasicResponse":
        return Struct("IbcBasicResponse", [VecV([]), VecV([]), VecV([])], ["messages", "attributes", "events"])
    f = I.prog.resolve(f"<{ty} as Default>::default", crate)
    if f is not None and f.blocks: return I.call_mir(ctx, f, [])
    td = I.prog.types.lookup(ty, crate)
    if td is not None and td.kind == "struct":
        vals = [default_of(I, ctx, fl.ty, td.crate) for fl in td.fields]
        if td.tuple_struct: return vals[0] if len(vals) == 1 and td.name in ("Uint128", "Addr") else Struct(td.name, vals)
        return Struct(td.name, vals, [fl.name for fl in td.fields])
    raise Unsupported(f"Default for {ty}")


# ------------------------------------------------------------------ equality / ordering
@M.on(r"^<.* as PartialEq(<.*>)?>::(eq|ne)$")
def m_eq(I, ctx, callee, args, crate):
    selfty, trait, meth = impl_parts(callee)
    f = None
    if not selfty.startswith("&"):
        f = I.prog.resolve(strip_generics(callee), crate) if meth == "eq" else I.prog.resolve(strip_generics(callee)[:-2] + "eq", crate)
    if f is not None and f.blocks and f.impl_at:
        # hand-written impls are interpreted; derived ones are structural equality
        from .. import rtypes, build
        import os
        path, line, col = f.impl_at.rsplit(":", 2)
        if not os.path.isabs(path): path = os.path.join(build.REPO, path)
        tr, st = rtypes.impl_header_at(path, int(line))
        if tr != "derive" and st is not None:
            r = I.call_mir(ctx, f, args)
            return r if meth == "eq" else znot(r)
    r = values_eq(I, ctx, args[0], args[1])
    return r if meth == "eq" else znot(r)


@M.on(r"^<.* as (PartialOrd|Ord)(<.*>)?>::(lt|le|gt|ge|cmp|partial_cmp|min|max)$|^std::cmp::(max|min)$|^core::cmp::(max|min)$")
def m_ord(I, ctx, callee, args, crate):
    meth = strip_generics(callee).split("::")[-1]
    parts = impl_parts(callee)
    a, b = I.deref(ctx, args[0]), I.deref(ctx, args[1])
    if is_int(a) and is_int(b):
        if meth == "lt": return a < b
        if meth == "le": return a <= b
        if meth == "gt": return a > b
        if meth == "ge": return a >= b
        if meth == "cmp": return int_cmp(ctx, a, b)
        if meth == "partial_cmp": return Some(int_cmp(ctx, a, b))
        if meth == "min": return a if ctx.branch(a <= b, "min") else b
        if meth == "max": return b if ctx.branch(a <= b, "max") else a
    # user impl (e.g. Expiration::partial_cmp) from MIR
    if parts is not None:
        selfty, trait, _ = parts
        f = I.prog.resolve(f"<{strip_generics(selfty)} as {simple_name(trait)}>::{meth}", crate)
        if f is not None and f.blocks: return I.call_mir(ctx, f, args)
        fp = I.prog.resolve(f"<{strip_generics(selfty)} as PartialOrd>::partial_cmp", crate)
        if fp is not None and fp.blocks and meth in ("lt", "le", "gt", "ge"):
            o = I.force(ctx, I.call_mir(ctx, fp, args))
            if o.variant == "None": return False
            v = I.force(ctx, o.fields[0]).variant
            return {"lt": v == "Less", "le": v != "Greater", "gt": v == "Greater", "ge": v != "Less"}[meth]
    o = generic_cmp(I, ctx, a, b, crate).variant
    if meth == "cmp": return EnumV("Ordering", o)
    if meth == "partial_cmp": return Some(EnumV("Ordering", o))
    if meth in ("min", "max"):
        return args[0] if (o != "Greater") == (meth == "min") else args[1]
    return {"lt": o == "Less", "le": o != "Greater", "gt": o == "Greater", "ge": o != "Less"}[meth]


@M.on(r"^std::cmp::Ordering::(is_lt|is_le|is_gt|is_ge|is_eq|is_ne|reverse|then|then_with)$|^core::cmp::Ordering::")
def m_ordering(I, ctx, callee, args, crate):
    meth = strip_generics(callee).split("::")[-1]
    v = I.force(ctx, I.deref(ctx, args[0])).variant
    if meth == "reverse": return EnumV("Ordering", {"Less": "Greater", "Greater": "Less", "Equal": "Equal"}[v])
    if meth == "then": return args[1] if v == "Equal" else EnumV("Ordering", v)
    if meth == "then_with": return I.call_value(ctx, args[1], []) if v == "Equal" else EnumV("Ordering", v)
    return {"is_lt": v == "Less", "is_le": v != "Greater", "is_gt": v == "Greater", "is_ge": v != "Less", "is_eq": v == "Equal",
            "is_ne": v != "Equal"}[meth]


# ------------------------------------------------------------------ Try / ?
@M.on(r" as Try>::branch$")
def m_branch(I, ctx, callee, args, crate):
    v = I.force(ctx, args[0])
    if v.variant in ("Ok", "Some"): return EnumV("ControlFlow", "Continue", v.fields)
    return EnumV("ControlFlow", "Break", (v,))


@M.on(r" as FromResidual<.*>>::from_residual$")
def m_residual(I, ctx, callee, args, crate):
    v = I.force(ctx, args[0])
    if v.variant == "None": return NONE
    selfty, trait, _ = impl_parts(callee)
    dst_e = split_top(selfty[selfty.index("<") + 1:selfty.rindex(">")])[-1]
    inner = trait[trait.index("<") + 1:trait.rindex(">")]
    src_e = split_top(inner[inner.index("<") + 1:inner.rindex(">")])[-1]
    e = v.fields[0]
    return Err(convert_err(I, ctx, e, src_e, dst_e, crate))


def _crate_qual(I, ty):
    seg = strip_generics(ty).strip().lstrip("&").split("::")[0].replace("_", "-")
    return seg if seg in I.prog.funcs else None


def same_type(I, a, b):
    a, b = strip_generics(a).strip(), strip_generics(b).strip()
    if a == b: return True
    if simple_name(a) != simple_name(b): return False
    return _crate_qual(I, a) == _crate_qual(I, b)


def convert_err(I, ctx, e, src_e, dst_e, crate):
    if same_type(I, src_e, dst_e): return e
    f = find_from(I, src_e, dst_e, crate)
    if f is not None: return I.call_mir(ctx, f, [e])
    if simple_name(dst_e) == "StdError":
        # cosmwasm-std's `impl From<X> for StdError` (no MIR: registry crate) wraps the source in the variant of the same kind
        kind = {"OverflowError": "Overflow", "DivideByZeroError": "DivideByZero", "ConversionOverflowError": "ConversionOverflow",
                "Utf8Error": "InvalidUtf8", "FromUtf8Error": "InvalidUtf8", "VerificationError": "VerificationErr",
                "RecoverPubkeyError": "RecoverPubkeyErr"}.get(simple_name(src_e))
        if kind: return EnumV("StdError", kind, (e,), ("source",))
        return EnumV("StdError", "Converted", (e,))
    return EnumV(simple_name(dst_e), "From_" + simple_name(src_e), (e,))


# ------------------------------------------------------------------ Option / Result combinators
def _opt(I, ctx, v): return I.force(ctx, I.deref(ctx, v) if isinstance(v, Ref) else v)


@M.on(r"^(std|core)::option::Option::(map|and_then|unwrap_or|unwrap_or_default|unwrap_or_else|ok_or|ok_or_else|is_some|is_none|as_ref|as_mut|unwrap|expect|filter|transpose|cloned|copied|take|or|or_else|map_or|map_or_else|is_some_and|is_none_or|as_deref|iter|zip|xor|and|flatten|get_or_insert_with|get_or_insert|insert|replace|unwrap_unchecked|inspect|ok_or_default|take_if|into_iter|unzip)$")
def m_option(I, ctx, callee, args, crate):
    meth = strip_generics(callee).split("::")[-1]
    if meth in ("replace", "insert", "get_or_insert_with", "get_or_insert"):
        r = args[0]
        old = I.force(ctx, I.deref(ctx, r))
        if meth == "replace":
            _store(I, ctx, r, Some(args[1])); return old
        if meth == "insert" or old.variant == "None":
            nv = args[1] if meth in ("insert", "get_or_insert") else I.call_value(ctx, args[1], [])
            _store(I, ctx, r, Some(nv))
        elif I.get_path(ctx, r.cell.v, r.path) is not old:
            _store(I, ctx, r, old)
        return Ref(r.cell, r.path + (("d", "Some"), ("f", 0)))
    if meth in ("as_ref", "as_mut", "as_deref"):
        r = args[0]
        v = I.force(ctx, I.deref(ctx, r))
        if v.variant == "None": return NONE
        if isinstance(r, Ref):
            # pin the forced value so the inner reference is stable
            cur = I.get_path(ctx, r.cell.v, r.path)
            if cur is not v: r.cell.v = I.set_path(ctx, r.cell.v, r.path, v)
            return Some(Ref(r.cell, r.path + (("d", "Some"), ("f", 0))))
        return v
    if meth == "take":
        r = args[0]
        v = I.force(ctx, I.deref(ctx, r))
        r.cell.v = I.set_path(ctx, r.cell.v, r.path, NONE)
        return v
    o = _opt(I, ctx, args[0])
    some = o.variant == "Some"
    x = o.fields[0] if some else None
    if meth == "map": return Some(I.call_value(ctx, args[1], [x])) if some else NONE
    if meth == "and_then": return I.call_value(ctx, args[1], [x]) if some else NONE
    if meth == "unwrap_or": return x if some else args[1]
    if meth == "unwrap_or_else": return x if some else I.call_value(ctx, args[1], [])
    if meth == "unwrap_or_default":
        if some: return x
        g = last_generics(callee[:callee.rindex("::")]) or last_generics(callee)
        return default_of(I, ctx, g[0], crate) if g else 0
    if meth == "ok_or": return Ok(x) if some else Err(args[1])
    if meth == "ok_or_else": return Ok(x) if some else Err(I.call_value(ctx, args[1], []))
    if meth == "is_some": return some
    if meth == "is_none": return not some
    if meth in ("unwrap", "expect", "unwrap_unchecked"):
        if some: return x
        raise Panic("Option::unwrap on None")
    if meth == "filter":
        if not some: return NONE
        keep = I.call_value(ctx, args[1], [Ref(Cell("filter", x))])
        return o if ctx.branch(keep, "filter") else NONE
    if meth == "transpose":
        if not some: return Ok(NONE)
        r = I.force(ctx, x)
        return Ok(Some(r.fields[0])) if r.variant == "Ok" else r
    if meth in ("cloned", "copied"): return Some(I.deref(ctx, x)) if some else NONE
    if meth == "or": return o if some else args[1]
    if meth == "or_else": return o if some else I.call_value(ctx, args[1], [])
    if meth == "map_or": return I.call_value(ctx, args[2], [x]) if some else args[1]
    if meth == "map_or_else": return I.call_value(ctx, args[2], [x]) if some else I.call_value(ctx, args[1], [])
    if meth == "is_some_and": return I.call_value(ctx, args[1], [x]) if some else False
    if meth in ("iter", "into_iter"): return make_iter([x] if some else [])
    if meth == "and": return args[1] if some else NONE
    if meth == "flatten": return I.force(ctx, x) if some else NONE
    if meth == "is_none_or": return I.call_value(ctx, args[1], [x]) if some else True
    if meth == "inspect":
        if some: I.call_value(ctx, args[1], [Ref(Cell("inspect", x))])
        return o
    if meth in ("zip", "xor"):
        o2 = _opt(I, ctx, args[1])
        some2 = o2.variant == "Some"
        if meth == "zip": return Some((x, o2.fields[0])) if some and some2 else NONE
        return o if some and not some2 else (o2 if some2 and not some else NONE)
    if meth == "unzip":
        if not some: return (NONE, NONE)
        t = I.deref(ctx, x)
        return (Some(t[0]), Some(t[1]))
    raise Unsupported(f"Option::{meth}")


@M.on(r"^(std|core)::result::Result::(map|map_err|and_then|or|or_else|unwrap|expect|unwrap_or|unwrap_or_else|unwrap_or_default|is_ok|is_err|ok|err|as_ref|as_mut|unwrap_err|expect_err|map_or|map_or_else|is_ok_and|is_err_and|iter|into_iter|and|transpose|inspect|inspect_err|flatten|copied|cloned|unwrap_unchecked)$")
def m_result(I, ctx, callee, args, crate):
    meth = strip_generics(callee).split("::")[-1]
    if meth in ("as_ref", "as_mut"):
        r = args[0]
        v = I.force(ctx, I.deref(ctx, r))
        if isinstance(r, Ref):
            cur = I.get_path(ctx, r.cell.v, r.path)
            if cur is not v: r.cell.v = I.set_path(ctx, r.cell.v, r.path, v)
            return EnumV("Result", v.variant, (Ref(r.cell, r.path + (("d", v.variant), ("f", 0))),))
        return v
    o = _opt(I, ctx, args[0])
    ok = o.variant == "Ok"
    x = o.fields[0]
    if meth == "map": return Ok(I.call_value(ctx, args[1], [x])) if ok else o
    if meth == "map_err": return o if ok else Err(I.call_value(ctx, args[1], [x]))
    if meth == "and_then": return I.call_value(ctx, args[1], [x]) if ok else o
    if meth == "or": return o if ok else args[1]
    if meth == "or_else": return o if ok else I.call_value(ctx, args[1], [x])
    if meth in ("unwrap", "expect"):
        if ok: return x
        raise Panic("Result::unwrap on Err")
    if meth in ("unwrap_err", "expect_err"):
        if not ok: return x
        raise Panic("Result::unwrap_err on Ok")
    if meth == "unwrap_or": return x if ok else args[1]
    if meth == "unwrap_or_else": return x if ok else I.call_value(ctx, args[1], [x])
    if meth == "unwrap_or_default":
        if ok: return x
        g = last_generics(callee[:callee.rindex("::")])
        return default_of(I, ctx, g[0], crate)
    if meth == "is_ok": return ok
    if meth == "is_err": return not ok
    if meth == "ok": return Some(x) if ok else NONE
    if meth == "err": return NONE if ok else Some(x)
    if meth == "map_or": return I.call_value(ctx, args[2], [x]) if ok else args[1]
    if meth == "map_or_else": return I.call_value(ctx, args[2], [x]) if ok else I.call_value(ctx, args[1], [x])
    if meth == "and": return args[1] if ok else o
    if meth in ("iter", "into_iter"): return make_iter([x] if ok else [])
    if meth == "is_ok_and": return I.call_value(ctx, args[1], [x]) if ok else False
    if meth == "is_err_and": return I.call_value(ctx, args[1], [x]) if not ok else False
    if meth == "transpose":
        if not ok: return Some(o)
        inner = I.force(ctx, x)
        return Some(Ok(inner.fields[0])) if inner.variant == "Some" else NONE
    if meth == "flatten": return I.force(ctx, x) if ok else o
    if meth in ("copied", "cloned"): return Ok(I.deref(ctx, x)) if ok else o
    if meth in ("inspect", "inspect_err"):
        if ok == (meth == "inspect"): I.call_value(ctx, args[1], [Ref(Cell("inspect", x))])
        return o
    if meth == "unwrap_unchecked": return x
    raise Unsupported(f"Result::{meth}")


# ------------------------------------------------------------------ closures through Fn traits
@M.on(r"^<.* as (FnOnce|FnMut|Fn)<.*>>::(call_once|call_mut|call)$")
def m_fn_call(I, ctx, callee, args, crate):
    f, tup = args[0], args[1]
    return I.call_value(ctx, f, list(tup))


# ------------------------------------------------------------------ Vec / slice
def _vec_ref(I, ctx, r):
    """returns (ref, VecV) making sure the referenced vector is forced in place"""
    if not isinstance(r, Ref): raise Unsupported(f"expected &mut Vec, got {r!r}")
    v = I.deref(ctx, r)
    if not isinstance(v, VecV): raise Unsupported(f"not a vector: {v!r}")
    return r, v


def _store(I, ctx, r, v):
    r.cell.v = I.set_path(ctx, r.cell.v, r.path, v)


@M.on(r"^(std|alloc)::vec::Vec::(new|with_capacity|push|len|is_empty|pop|insert|remove|clear|truncate|extend_from_slice|dedup|retain|split_off|first|last|sort|contains|iter|as_slice|append|swap_remove|reserve|capacity|get|drain|as_mut_slice|into_boxed_slice|dedup_by_key|sort_by|sort_unstable|sort_by_key|shrink_to_fit|reserve_exact|resize|extend_from_within|leak)$|^(std::vec|alloc::vec)::from_elem$|^<Vec<.*> as Extend<.*>>::extend$")
def m_vec(I, ctx, callee, args, crate):
    meth = strip_generics(callee).split("::")[-1]
    if meth in ("new", "with_capacity"): return VecV([])
    if meth in ("reserve", "reserve_exact", "shrink_to_fit"): return ()
    if meth == "from_elem":
        n = args[1]
        n = ctx.concretize_int(n, 0, RANGE_LIMIT, "vec-len", beyond="unsupported") if not isinstance(n, int) else n
        return VecV([args[0]] * n)
    if meth in ("as_slice", "as_mut_slice", "into_boxed_slice"): return args[0]
    if meth == "iter": return iter_of(I, ctx, args[0], True)
    if meth in ("len", "is_empty", "first", "last", "contains", "get", "capacity"):
        v = I.deref(ctx, args[0])
        if meth == "capacity": raise Unsupported("Vec::capacity (allocation detail, not modelled)")
        if meth == "len": return len(v.items)
        if meth == "is_empty": return len(v.items) == 0
        if meth == "first": return Some(_elem_ref(args[0], v, 0)) if v.items else NONE
        if meth == "last": return Some(_elem_ref(args[0], v, len(v.items) - 1)) if v.items else NONE
        if meth == "contains": return zor(*[values_eq(I, ctx, x, args[1]) for x in v.items])
        if meth == "get":
            idx = I.deref(ctx, args[1])
            idx = ctx.concretize_int(idx, 0, len(v.items) + 1, "get-idx") if not isinstance(idx, int) else idx
            return Some(_elem_ref(args[0], v, idx)) if idx < len(v.items) else NONE
    r, v = _vec_ref(I, ctx, args[0])
    items = list(v.items)
    if meth == "push": _store(I, ctx, r, VecV(items + [args[1]])); return ()
    if meth == "extend":
        _store(I, ctx, r, VecV(items + [I.deref(ctx, x) if isinstance(x, Ref) and callee.count("&") else x for x in drain(I, ctx, get_iter(I, ctx, args[1]))])); return ()
    if meth == "resize":
        n = ctx.concretize_int(args[1], 0, RANGE_LIMIT, "resize", beyond="unsupported") if not isinstance(args[1], int) else args[1]
        _store(I, ctx, r, VecV(items[:n] + [args[2]] * max(0, n - len(items)))); return ()
    if meth == "drain":
        rng = I.deref(ctx, args[1])
        n = len(items)
        f = dict(zip(rng.names or [], rng.fields)) if isinstance(rng, Struct) else {}
        ty = rng.ty if isinstance(rng, Struct) else "RangeFull"
        lo = f.get("start", 0) if ty in ("Range", "RangeFrom", "RangeInclusive") else 0
        hi = f.get("end", n) if ty in ("Range", "RangeTo", "RangeInclusive", "RangeToInclusive") else n
        if ty in ("RangeInclusive", "RangeToInclusive"): hi = hi + 1
        lo = ctx.concretize_int(lo, 0, n + 2, "drain-start") if not isinstance(lo, int) else lo
        hi = ctx.concretize_int(hi, 0, n + 2, "drain-end") if not isinstance(hi, int) else hi
        if lo > hi or hi > n: raise Panic("drain range out of bounds")
        _store(I, ctx, r, VecV(items[:lo] + items[hi:]))
        return make_iter(items[lo:hi])
    if meth == "pop":
        if not items: return NONE
        _store(I, ctx, r, VecV(items[:-1])); return Some(items[-1])
    if meth == "insert":
        idx = ctx.concretize_int(args[1], 0, len(items) + 1, "insert-idx")
        if idx > len(items): raise Panic("Vec::insert index out of bounds")
        items.insert(idx, args[2]); _store(I, ctx, r, VecV(items)); return ()
    if meth in ("remove", "swap_remove"):
        if not items: raise Panic("Vec::remove on empty")
        idx = ctx.concretize_int(args[1], 0, len(items) + 1, "remove-idx")
        if idx >= len(items): raise Panic("Vec::remove out of bounds")
        x = items.pop(idx) if meth == "remove" else _swap_remove(items, idx)
        _store(I, ctx, r, VecV(items)); return x
    if meth == "clear": _store(I, ctx, r, VecV([])); return ()
    if meth == "truncate":
        n = ctx.concretize_int(args[1], 0, len(items) + 1, "truncate") if not isinstance(args[1], int) else args[1]
        _store(I, ctx, r, VecV(items[:n])); return ()
    if meth in ("extend_from_slice", "append"):
        o = I.deref(ctx, args[1])
        if isinstance(o, str): o = VecV(list(o.encode()))
        _store(I, ctx, r, VecV(items + list(o.items)))
        if meth == "append": _store(I, ctx, args[1], VecV([]))
        return ()
    if meth == "split_off":
        n = ctx.concretize_int(args[1], 0, len(items) + 1, "split_off") if not isinstance(args[1], int) else args[1]
        if n > len(items): raise Panic("split_off out of bounds")
        _store(I, ctx, r, VecV(items[:n])); return VecV(items[n:])
    if meth == "dedup":
        out = []
        for x in items:
            if out and ctx.branch(values_eq(I, ctx, out[-1], x), "dedup"): continue
            out.append(x)
        _store(I, ctx, r, VecV(out)); return ()
    if meth == "retain":
        out = []
        for x in items:
            if ctx.branch(I.call_value(ctx, args[1], [Ref(Cell("retain", x))]), "retain"): out.append(x)
        _store(I, ctx, r, VecV(out)); return ()
    if meth in ("sort", "sort_unstable"):
        _store(I, ctx, r, VecV(_sort(I, ctx, items, lambda a, b: generic_cmp(I, ctx, a, b, crate).variant == "Greater"))); return ()
    if meth == "sort_by":
        _store(I, ctx, r, VecV(_sort(I, ctx, items, lambda a, b: _cmp_clo(I, ctx, args[1], a, b) == "Greater"))); return ()
    if meth == "sort_by_key":
        key = lambda x: I.call_value(ctx, args[1], [Ref(Cell("key", x))])
        _store(I, ctx, r, VecV(_sort(I, ctx, items, lambda a, b: generic_cmp(I, ctx, key(a), key(b), crate).variant == "Greater"))); return ()
    if meth == "dedup_by_key":
        out = []
        for x in items:
            if out and ctx.branch(values_eq(I, ctx, I.call_value(ctx, args[1], [Ref(Cell("k", out[-1]))]), I.call_value(ctx, args[1], [Ref(Cell("k", x))])), "dedup"): continue
            out.append(x)
        _store(I, ctx, r, VecV(out)); return ()
    raise Unsupported(f"Vec::{meth}")


def _swap_remove(items, idx):
    x = items[idx]; items[idx] = items[-1]; items.pop(); return x


def _elem_ref(r, v, k):
    if isinstance(r, Ref): return Ref(r.cell, r.path + (("i", k),))
    return v.items[k]


def _cmp_clo(I, ctx, clo, a, b):
    o = I.force(ctx, I.call_value(ctx, clo, [Ref(Cell("a", a)), Ref(Cell("b", b))]))
    return o.variant


def _sort(I, ctx, items, greater):
    out = []
    for x in items:          # stable insertion sort
        k = len(out)
        while k > 0 and greater(out[k - 1], x): k -= 1
        out.insert(k, x)
    return out


@M.on(r"^(core|std)::slice::(iter|iter_mut|len|is_empty|contains|starts_with|ends_with|to_vec|sort|sort_by|sort_unstable|sort_unstable_by|sort_by_key|reverse|concat|first|last|get|split_inclusive|into_vec|join|binary_search|binary_search_by|binary_search_by_key|windows|chunks|first_mut|last_mut|get_mut|split_first|split_last|swap|fill|copy_from_slice|clone_from_slice|split_at|iter_rev|repeat|is_sorted|rotate_left|rotate_right)$|^slice::(concat|join|to_vec|into_vec)$|^<\[.*\] as ToOwned>::to_owned$")
def m_slice(I, ctx, callee, args, crate):
    meth = strip_generics(callee).split("::")[-1]
    if meth in ("iter", "iter_mut"): return iter_of(I, ctx, args[0], True)
    v = I.deref(ctx, args[0])
    if meth in ("to_vec", "into_vec", "to_owned"):
        if isinstance(v, VecV): return VecV([I.deref(ctx, x) if isinstance(x, Ref) else x for x in v.items])
        return v
    if isinstance(v, str) and meth not in ("len", "is_empty"): v = VecV(list(v.encode()))      # bytes of a literal string
    if is_str(v) or isinstance(v, (SymBin, JsonBin)):
        if meth == "len": return ctx.str_len(v) if is_str(v) else bin_len(ctx, v)
        if meth == "is_empty": return (ctx.str_len(v) if is_str(v) else bin_len(ctx, v)) == 0
        raise Unsupported(f"slice::{meth} on opaque bytes {v!r}")
    if not isinstance(v, VecV): raise Unsupported(f"slice::{meth} on {v!r}")
    if meth == "len": return len(v.items)
    if meth == "is_empty": return len(v.items) == 0
    if meth in ("windows", "chunks"):
        n = args[1]
        if not isinstance(n, int): raise Unsupported(f"slice::{meth} with a symbolic size")
        if n == 0: raise Panic(f"{meth} size is zero")
        items = [I.deref(ctx, x) if isinstance(x, Ref) else x for x in v.items]
        starts = range(0, len(items) - n + 1) if meth == "windows" else range(0, len(items), n)
        return make_iter([Ref(Cell("window", VecV(items[k:k + n]))) for k in starts])
    if meth == "contains": return zor(*[values_eq(I, ctx, x, args[1]) for x in v.items])
    if meth in ("first", "first_mut"): return Some(_elem_ref(args[0], v, 0)) if v.items else NONE
    if meth in ("last", "last_mut"): return Some(_elem_ref(args[0], v, len(v.items) - 1)) if v.items else NONE
    if meth in ("split_first", "split_last"):
        if not v.items: return NONE
        items = [I.deref(ctx, x) if isinstance(x, Ref) else x for x in v.items]
        if meth == "split_first": return Some((_elem_ref(args[0], v, 0), Ref(Cell("rest", VecV(items[1:])))))
        return Some((_elem_ref(args[0], v, len(items) - 1), Ref(Cell("rest", VecV(items[:-1])))))
    if meth == "split_at":
        n = ctx.concretize_int(args[1], 0, len(v.items) + 1, "split_at") if not isinstance(args[1], int) else args[1]
        if n > len(v.items): raise Panic("split_at: mid > len")
        items = [I.deref(ctx, x) if isinstance(x, Ref) else x for x in v.items]
        return (Ref(Cell("lhs", VecV(items[:n]))), Ref(Cell("rhs", VecV(items[n:]))))
    if meth == "swap":
        i, j = [ctx.concretize_int(x, 0, len(v.items) + 1, "swap") if not isinstance(x, int) else x for x in (args[1], args[2])]
        if i >= len(v.items) or j >= len(v.items): raise Panic("swap index out of bounds")
        items = list(v.items); items[i], items[j] = items[j], items[i]
        _store(I, ctx, args[0], VecV(items)); return ()
    if meth == "fill": _store(I, ctx, args[0], VecV([args[1]] * len(v.items))); return ()
    if meth in ("copy_from_slice", "clone_from_slice"):
        o = I.deref(ctx, args[1])
        if len(o.items) != len(v.items): raise Panic("source slice length does not match destination slice length")
        _store(I, ctx, args[0], VecV([I.deref(ctx, x) if isinstance(x, Ref) else x for x in o.items])); return ()
    if meth in ("rotate_left", "rotate_right"):
        k = args[1]
        if not isinstance(k, int): k = ctx.concretize_int(k, 0, len(v.items) + 1, "rotate")
        if k > len(v.items): raise Panic("rotate: mid > len")
        if meth == "rotate_right": k = len(v.items) - k
        _store(I, ctx, args[0], VecV(list(v.items[k:]) + list(v.items[:k]))); return ()
    if meth == "repeat":
        n = args[1]
        if not isinstance(n, int): n = ctx.concretize_int(n, 0, RANGE_LIMIT, "repeat", beyond="unsupported")
        return VecV(list(v.items) * n)
    if meth == "is_sorted":
        ok = True
        for x, y in zip(v.items, v.items[1:]): ok = zand(ok, generic_cmp(I, ctx, x, y, crate).variant != "Greater")
        return ok
    if meth in ("get", "get_mut"):
        idx = I.deref(ctx, args[1])
        if isinstance(idx, Struct) and idx.ty.startswith("Range"):
            n = len(v.items)
            f = dict(zip(idx.names or [], idx.fields))
            lo = f.get("start", 0) if idx.ty in ("Range", "RangeFrom", "RangeInclusive") else 0
            hi = f.get("end", n) if idx.ty in ("Range", "RangeTo", "RangeInclusive", "RangeToInclusive") else n
            if idx.ty in ("RangeInclusive", "RangeToInclusive"): hi = hi + 1
            lo = ctx.concretize_int(lo, 0, n + 2, "slice-start") if not isinstance(lo, int) else lo
            hi = ctx.concretize_int(hi, 0, n + 2, "slice-end") if not isinstance(hi, int) else hi
            if lo > hi or hi > n: return NONE
            if meth == "get_mut": raise Unsupported("mutable sub-slice")
            return Some(Ref(Cell("subslice", VecV([I.deref(ctx, x) if isinstance(x, Ref) else x for x in v.items[lo:hi]]))))
        idx = ctx.concretize_int(idx, 0, len(v.items) + 1, "get-idx") if not isinstance(idx, int) else idx
        return Some(_elem_ref(args[0], v, idx)) if idx < len(v.items) else NONE
    if meth in ("binary_search", "binary_search_by", "binary_search_by_key"):
        # the result is only specified for sorted input: emulate the library's algorithm exactly (size halving, rustc 1.8x)
        cmpf = {"binary_search": lambda x: generic_cmp(I, ctx, x, args[1], crate).variant,
                "binary_search_by": lambda x: I.force(ctx, I.call_value(ctx, args[1], [Ref(Cell("probe", x))])).variant,
                "binary_search_by_key": lambda x: generic_cmp(I, ctx, I.call_value(ctx, args[2], [Ref(Cell("probe", x))]), args[1], crate).variant}[meth]
        items = [I.deref(ctx, x) if isinstance(x, Ref) else x for x in v.items]
        size = len(items)
        if size == 0: return Err(0)
        base = 0
        while size > 1:
            half = size // 2
            mid = base + half
            if cmpf(items[mid]) != "Greater": base = mid
            size -= half
        c = cmpf(items[base])
        if c == "Equal": return Ok(base)
        return Err(base + (1 if c == "Less" else 0))
    if meth == "join":
        sep = I.deref(ctx, args[1])
        parts = [I.deref(ctx, x) for x in v.items]
        if all(isinstance(x, VecV) for x in parts):
            out = []
            sepi = list(sep.items) if isinstance(sep, VecV) else [sep]
            for k, x in enumerate(parts):
                if k: out += sepi
                out += list(x.items)
            return VecV(out)
        if isinstance(sep, Opaque) and sep.tag == "char": sep = sep.data
        out = []
        for k, x in enumerate(parts):
            if k: out.append(sep)
            out.append(x)
        if all(isinstance(x, str) for x in out): return "".join(out)
        return FmtStr(out)
    if meth in ("starts_with", "ends_with"):
        o = I.deref(ctx, args[1])
        n = len(o.items)
        if n > len(v.items): return False
        seg = v.items[:n] if meth == "starts_with" else v.items[len(v.items) - n:]
        return zand(*[values_eq(I, ctx, x, y) for x, y in zip(seg, o.items)])
    if meth in ("sort", "sort_unstable"):
        _store(I, ctx, args[0], VecV(_sort(I, ctx, list(v.items), lambda a, b: generic_cmp(I, ctx, a, b, crate).variant == "Greater"))); return ()
    if meth in ("sort_by", "sort_unstable_by"):
        _store(I, ctx, args[0], VecV(_sort(I, ctx, list(v.items), lambda a, b: _cmp_clo(I, ctx, args[1], a, b) == "Greater"))); return ()
    if meth == "reverse": _store(I, ctx, args[0], VecV(list(reversed(v.items)))); return ()
    if meth == "concat":
        parts = [I.deref(ctx, x) for x in v.items]
        if parts and all(is_str(x) or isinstance(x, FmtStr) for x in parts):
            return "".join(parts) if all(isinstance(x, str) for x in parts) else FmtStr(parts)
        out = []
        for x in v.items:
            x = I.deref(ctx, x)
            if isinstance(x, str): x = VecV(list(x.encode()))
            if not isinstance(x, VecV): raise Unsupported("concat of opaque bytes")
            out.extend(x.items)
        return VecV(out)
    if meth == "sort_by_key":
        key = lambda x: I.call_value(ctx, args[1], [Ref(Cell("key", x))])
        _store(I, ctx, args[0], VecV(_sort(I, ctx, list(v.items), lambda a, b: generic_cmp(I, ctx, key(a), key(b), crate).variant == "Greater"))); return ()
    raise Unsupported(f"slice::{meth}")


def bin_len(ctx, v):
    key = f"binlen[{id_of(v)}]"
    if key not in ctx.vars: ctx.fresh_int(key, 0, 2 ** 32, unique=False)
    return ctx.vars[key]


@M.on(r"^(core::)?array::map$|^(core::)?array::(iter|iter_mut|as_slice|len)$")
def m_array(I, ctx, callee, args, crate):
    meth = strip_generics(callee).split("::")[-1]
    if meth in ("iter", "iter_mut"): return iter_of(I, ctx, args[0], True)
    if meth == "as_slice": return args[0]
    v = I.deref(ctx, args[0])
    if not isinstance(v, VecV): raise Unsupported(f"array::{meth} on {v!r}")
    if meth == "len": return len(v.items)
    return VecV([I.call_value(ctx, args[1], [x]) for x in v.items])


@M.on(r"^((std|core)::iter::)?(from_fn|once|once_with|empty|repeat|repeat_n|successors|zip)$")
def m_iter_sources(I, ctx, callee, args, crate):
    meth = strip_generics(callee).split("::")[-1]
    if meth == "from_fn":
        f = args[0]
        return IterV(lambda I2, c2: I2.force(c2, I2.call_value(c2, f, [])))
    if meth == "once": return make_iter([args[0]])
    if meth == "once_with": return make_iter([I.call_value(ctx, args[0], [])])
    if meth == "empty": return make_iter([])
    if meth == "repeat": return IterV(lambda I2, c2: Some(args[0]))
    if meth == "repeat_n":
        n = args[1] if isinstance(args[1], int) else ctx.concretize_int(args[1], 0, RANGE_LIMIT, "repeat_n", beyond="unsupported")
        return make_iter([args[0]] * n)
    if meth == "successors":
        st = {"cur": I.force(ctx, args[0])}
        def nxt(I2, c2):
            cur = st["cur"]
            if cur.variant == "None": return NONE
            st["cur"] = I2.force(c2, I2.call_value(c2, args[1], [Ref(Cell("succ", cur.fields[0]))]))
            return cur
        return IterV(nxt)
    a, b = get_iter(I, ctx, args[0]), get_iter(I, ctx, args[1])
    def nxt(I2, c2):
        x = a.next(I2, c2)
        if x.variant == "None": return NONE
        y = b.next(I2, c2)
        if y.variant == "None": return NONE
        return Some((x.fields[0], y.fields[0]))
    return IterV(nxt)


@M.on(r"^(core::)?bool::(then_some|then)$")
def m_bool_then(I, ctx, callee, args, crate):
    c = args[0]
    if not ctx.branch(c, "bool-then"): return NONE
    return Some(args[1]) if strip_generics(callee).endswith("then_some") else Some(I.call_value(ctx, args[1], []))


@M.on(r"^(std|core)::ops::RangeInclusive::new$|^RangeInclusive::new$")
def m_range_incl(I, ctx, callee, args, crate):
    return Struct("RangeInclusive", [args[0], args[1]], ["start", "end"])


@M.on(r"^<.* as (std::ops::)?(Index|IndexMut)<.*>>::(index|index_mut)$")
def m_index(I, ctx, callee, args, crate):
    r, idx = args[0], I.deref(ctx, args[1])
    v = I.deref(ctx, r)
    if isinstance(v, VecV):
        if isinstance(idx, Struct) and idx.ty.startswith("Range"):
            n = len(v.items)
            f = dict(zip(idx.names or [], idx.fields))
            lo = f.get("start", 0) if idx.ty in ("Range", "RangeFrom", "RangeInclusive") else 0
            hi = f.get("end", n) if idx.ty in ("Range", "RangeTo", "RangeInclusive", "RangeToInclusive") else n
            if idx.ty in ("RangeInclusive", "RangeToInclusive"): hi = hi + 1
            lo = ctx.concretize_int(lo, 0, n + 2, "slice-start") if not isinstance(lo, int) else lo
            hi = ctx.concretize_int(hi, 0, n + 2, "slice-end") if not isinstance(hi, int) else hi
            if lo > hi: raise Panic("slice index starts after its end")
            if hi > n: raise Panic("range end index out of range for slice")
            if callee.endswith("index_mut"): raise Unsupported("mutable sub-slice")
            items = [I.deref(ctx, x) if isinstance(x, Ref) else x for x in v.items[lo:hi]]
            return Ref(Cell("subslice", VecV(items)))
        n = len(v.items)
        if not isinstance(idx, int):
            idx = ctx.concretize_int(idx, 0, n + 1, "index")
        if idx >= n: raise Panic("index out of bounds")
        if isinstance(r, Ref):
            cur = I.get_path(ctx, r.cell.v, r.path)
            if not isinstance(cur, VecV): r.cell.v = I.set_path(ctx, r.cell.v, r.path, v)
            return Ref(r.cell, r.path + (("i", idx),))
        return v.items[idx]
    raise Unsupported(f"index into {v!r}")


# ------------------------------------------------------------------ iterators
@M.on(r" as IntoIterator>::into_iter$")
def m_into_iter(I, ctx, callee, args, crate):
    selfty = impl_parts(callee)[0]
    return iter_of(I, ctx, args[0], selfty.strip().startswith("&"))


@M.on(r" as (Iterator|DoubleEndedIterator|ExactSizeIterator)>::(next|map|filter|take|skip|zip|enumerate|filter_map|collect|sum|any|all|position|rposition|find|find_map|unzip|partition|count|fold|rfold|last|rev|cloned|copied|chain|flatten|flat_map|min|max|nth|for_each|try_fold|peekable|step_by|take_while|skip_while|map_while|len|next_back|product|try_for_each|min_by_key|max_by_key|min_by|max_by|by_ref|inspect|scan|eq|ne|lt|le|gt|ge|cmp|partial_cmp|reduce|fuse|cycle|rfind|nth_back|is_sorted)$|^(std::iter::|core::iter::)?Peekable::(peek|next_if|next_if_eq|peek_mut)$")
def m_iter(I, ctx, callee, args, crate):
    meth = strip_generics(callee).split("::")[-1]
    it = get_iter(I, ctx, args[0])
    if meth == "next": return it.next(I, ctx)
    if meth == "by_ref": return args[0]
    if meth == "map":
        f = args[1]
        def nxt(I2, c2):
            r = it.next(I2, c2)
            return Some(I2.call_value(c2, f, [r.fields[0]])) if r.variant == "Some" else NONE
        return IterV(nxt)
    if meth in ("cloned", "copied"):
        def nxt(I2, c2):
            r = it.next(I2, c2)
            return Some(I2.deref(c2, r.fields[0])) if r.variant == "Some" else NONE
        return IterV(nxt)
    if meth == "filter":
        f = args[1]
        def nxt(I2, c2):
            while True:
                r = it.next(I2, c2)
                if r.variant == "None": return NONE
                if c2.branch(I2.call_value(c2, f, [Ref(Cell("it", r.fields[0]))]), "filter"): return r
        return IterV(nxt)
    if meth == "filter_map":
        f = args[1]
        def nxt(I2, c2):
            while True:
                r = it.next(I2, c2)
                if r.variant == "None": return NONE
                o = I2.force(c2, I2.call_value(c2, f, [r.fields[0]]))
                if o.variant == "Some": return o
        return IterV(nxt)
    if meth in ("take", "skip"):
        n = I.deref(ctx, args[1])
        st = {"n": n, "done": False}
        if meth == "take":
            def nxt(I2, c2):
                n = st["n"]
                if isinstance(n, int):
                    if n <= 0: return NONE
                    st["n"] = n - 1
                else:
                    if not c2.branch(n > 0, "take"):
                        st["n"] = 0
                        return NONE
                    st["n"] = n - 1
                return it.next(I2, c2)
            return IterV(nxt)
        def nxt(I2, c2):
            while not st["done"]:
                n = st["n"]
                more = (n > 0) if isinstance(n, int) else c2.branch(n > 0, "skip")
                if not more: st["done"] = True; break
                st["n"] = n - 1
                r = it.next(I2, c2)
                if r.variant == "None": st["done"] = True; return NONE
            return it.next(I2, c2)
        return IterV(nxt)
    if meth == "zip":
        other = get_iter(I, ctx, args[1])
        def nxt(I2, c2):
            a = it.next(I2, c2)
            if a.variant == "None": return NONE
            b = other.next(I2, c2)
            if b.variant == "None": return NONE
            return Some((a.fields[0], b.fields[0]))
        return IterV(nxt)
    if meth == "chain":
        other = get_iter(I, ctx, args[1])
        def nxt(I2, c2):
            a = it.next(I2, c2)
            if a.variant == "Some": return a
            return other.next(I2, c2)
        return IterV(nxt)
    if meth == "enumerate":
        st = {"i": 0}
        def nxt(I2, c2):
            a = it.next(I2, c2)
            if a.variant == "None": return NONE
            i = st["i"]; st["i"] += 1
            return Some((i, a.fields[0]))
        return IterV(nxt)
    if meth == "rev":
        items = drain(I, ctx, it)
        return make_iter(list(reversed(items)))
    if meth == "collect":
        g = last_generics(callee)
        target = g[0] if g else "Vec<_>"
        items = drain_result(I, ctx, it, target)
        return items
    if meth in ("peek", "peek_mut", "next_if", "next_if_eq"):
        # Peekable: look-ahead of one item, kept in the iterator object
        if not hasattr(it, "peeked"): it.peeked = None
        if it.peeked is None:
            inner = it.nextfn
            it.peeked = [inner(I, ctx)]
            def nxt(I2, c2, inner=inner):
                if it.peeked:
                    r = it.peeked.pop(); return r
                return inner(I2, c2)
            it.nextfn = nxt
            it.inner_next = inner
        elif not it.peeked:
            it.peeked = [it.inner_next(I, ctx)]
        r = it.peeked[0]
        if meth in ("peek", "peek_mut"):
            return Some(Ref(Cell("peeked", r.fields[0]))) if r.variant == "Some" else NONE
        if r.variant == "None": return NONE
        ok = I.call_value(ctx, args[1], [Ref(Cell("peeked", r.fields[0]))]) if meth == "next_if" else values_eq(I, ctx, r.fields[0], args[1])
        if ctx.branch(ok, "next_if"):
            it.peeked = []
            return r
        return NONE
    if meth == "sum" or meth == "product":
        items = drain(I, ctx, it)
        g = last_generics(callee)
        acc = 0 if meth == "sum" else 1
        ty = simple_name(g[0]) if g else "u64"
        if ty in ("Option", "Result"):
            inner = simple_name(split_top(g[0][g[0].index("<") + 1:g[0].rindex(">")])[0])
            hi = INTMAX.get(inner) or {"Uint128": U128, "Uint64": U64}.get(inner)
            for x in items:
                x = I.force(ctx, I.deref(ctx, x))
                if x.variant in ("None", "Err"): return x
                acc = acc + x.fields[0] if meth == "sum" else acc * x.fields[0]
                if hi is not None and not ctx.branch(acc < hi, "sum-ovf"): raise Panic("iterator sum overflow")
            return Some(acc) if ty == "Option" else Ok(acc)
        hi = INTMAX.get(ty) or {"Uint128": U128, "Uint64": U64}.get(ty)
        for x in items:
            x = I.deref(ctx, x)
            acc = acc + x if meth == "sum" else acc * x
            if hi is not None:
                if not ctx.branch(acc < hi if not isinstance(acc, int) else acc < hi, "sum-ovf"): raise Panic("iterator sum overflow")
        return acc
    if meth == "count": return len(drain(I, ctx, it))
    if meth == "len": return len(it.remaining()) if hasattr(it, "remaining") else len(drain(I, ctx, it))
    if meth == "last":
        items = drain(I, ctx, it)
        return Some(items[-1]) if items else NONE
    if meth == "nth":
        n = args[1]
        if not isinstance(n, int): n = ctx.concretize_int(n, 0, RANGE_LIMIT, "nth")
        r = NONE
        for _ in range(n + 1): r = it.next(I, ctx)
        return r
    if meth in ("any", "all"):
        while True:
            r = it.next(I, ctx)
            if r.variant == "None": return meth == "all"
            c = I.call_value(ctx, args[1], [r.fields[0]])
            if ctx.branch(c, meth) == (meth == "any"): return meth == "any"
    if meth in ("eq", "ne", "lt", "le", "gt", "ge", "cmp", "partial_cmp"):
        xs, ys = drain(I, ctx, it), drain(I, ctx, get_iter(I, ctx, args[1]))
        o = "Equal"
        for x, y in zip(xs, ys):
            o = generic_cmp(I, ctx, x, y, crate).variant
            if o != "Equal": break
        if o == "Equal" and len(xs) != len(ys): o = "Less" if len(xs) < len(ys) else "Greater"
        if meth == "cmp": return EnumV("Ordering", o)
        if meth == "partial_cmp": return Some(EnumV("Ordering", o))
        return {"eq": o == "Equal", "ne": o != "Equal", "lt": o == "Less", "le": o != "Greater", "gt": o == "Greater", "ge": o != "Less"}[meth]
    if meth == "scan":
        st_cell = Cell("scan-state", args[1])
        f = args[2]
        done = {"d": False}
        def nxt(I2, c2):
            if done["d"]: return NONE
            r = it.next(I2, c2)
            if r.variant == "None": return NONE
            o = I2.force(c2, I2.call_value(c2, f, [Ref(st_cell), r.fields[0]]))
            if o.variant == "None": done["d"] = True
            return o
        return IterV(nxt)
    if meth == "fuse": return it
    if meth == "cycle":
        items = drain(I, ctx, it)
        st = {"i": 0}
        def nxt(I2, c2):
            if not items: return NONE
            v = items[st["i"] % len(items)]; st["i"] += 1
            return Some(v)
        return IterV(nxt)
    if meth == "reduce":
        items = drain(I, ctx, it)
        if not items: return NONE
        acc = items[0]
        for x in items[1:]: acc = I.call_value(ctx, args[1], [acc, x])
        return Some(acc)
    if meth == "rfold":
        acc = args[1]
        for x in reversed(drain(I, ctx, it)): acc = I.call_value(ctx, args[2], [acc, x])
        return acc
    if meth in ("rposition", "rfind"):
        items = drain(I, ctx, it)
        for k in range(len(items) - 1, -1, -1):
            arg = items[k] if meth == "rposition" else Ref(Cell("find", items[k]))
            if ctx.branch(I.call_value(ctx, args[1], [arg]), meth): return Some(k) if meth == "rposition" else Some(items[k])
        return NONE
    if meth in ("min_by", "max_by"):
        items = drain(I, ctx, it)
        if not items: return NONE
        best = items[0]
        for x in items[1:]:
            o = I.force(ctx, I.call_value(ctx, args[1], [Ref(Cell("a", x)), Ref(Cell("b", best))])).variant
            if (meth == "min_by" and o == "Less") or (meth == "max_by" and o != "Less"): best = x
        return Some(best)
    if meth == "position":
        k = 0
        while True:
            r = it.next(I, ctx)
            if r.variant == "None": return NONE
            if ctx.branch(I.call_value(ctx, args[1], [r.fields[0]]), "position"): return Some(k)
            k += 1
    if meth == "find":
        while True:
            r = it.next(I, ctx)
            if r.variant == "None": return NONE
            if ctx.branch(I.call_value(ctx, args[1], [Ref(Cell("find", r.fields[0]))]), "find"): return r
    if meth == "find_map":
        while True:
            r = it.next(I, ctx)
            if r.variant == "None": return NONE
            o = I.force(ctx, I.call_value(ctx, args[1], [r.fields[0]]))
            if o.variant == "Some": return o
    if meth == "for_each":
        for x in drain(I, ctx, it): I.call_value(ctx, args[1], [x])
        return ()
    if meth == "fold":
        acc = args[1]
        for x in drain(I, ctx, it): acc = I.call_value(ctx, args[2], [acc, x])
        return acc
    if meth == "unzip":
        items = [I.deref(ctx, x) for x in drain(I, ctx, it)]
        return (VecV([x[0] for x in items]), VecV([x[1] for x in items]))
    if meth == "partition":
        a, b = [], []
        for x in drain(I, ctx, it):
            (a if ctx.branch(I.call_value(ctx, args[1], [Ref(Cell("part", x))]), "partition") else b).append(x)
        return (VecV(a), VecV(b))
    if meth in ("min", "max"):
        items = drain(I, ctx, it)
        if not items: return NONE
        best = items[0]
        for x in items[1:]:
            o = generic_cmp(I, ctx, x, best, crate).variant
            if (meth == "min" and o == "Less") or (meth == "max" and o != "Less"): best = x
        return Some(best)
    if meth == "peekable": return it
    if meth == "inspect":
        f = args[1]
        def nxt(I2, c2):
            r = it.next(I2, c2)
            if r.variant == "Some": I2.call_value(c2, f, [Ref(Cell("inspect", r.fields[0]))])
            return r
        return IterV(nxt)
    if meth in ("try_fold", "try_for_each"):
        # the closure yields a Try value (Result / Option / ControlFlow): stop at the first residual, as the library does
        g = last_generics(callee)
        rty = simple_name(g[-1]) if g else None
        acc = args[1] if meth == "try_fold" else ()
        f = args[2] if meth == "try_fold" else args[1]
        while True:
            r = it.next(I, ctx)
            if r.variant == "None": break
            o = I.force(ctx, I.call_value(ctx, f, [acc, r.fields[0]] if meth == "try_fold" else [r.fields[0]]))
            if not isinstance(o, EnumV): raise Unsupported(f"{meth}: closure result {o!r}")
            if o.variant in ("Err", "None", "Break"): return o
            if o.variant not in ("Ok", "Some", "Continue"): raise Unsupported(f"{meth}: closure result {o!r}")
            rty = o.ty
            acc = o.fields[0]
        if rty == "Result": return Ok(acc)
        if rty == "Option": return Some(acc)
        if rty == "ControlFlow": return EnumV("ControlFlow", "Continue", (acc,))
        raise Unsupported(f"{meth}: cannot tell the Try type from {callee}")
    if meth in ("take_while", "map_while", "skip_while"):
        f = args[1]
        st = {"done": False, "skipping": True}
        def nxt(I2, c2):
            if st["done"]: return NONE
            while True:
                r = it.next(I2, c2)
                if r.variant == "None": st["done"] = True; return NONE
                if meth == "map_while":
                    o = I2.force(c2, I2.call_value(c2, f, [r.fields[0]]))
                    if o.variant == "None": st["done"] = True
                    return o
                if meth == "skip_while":
                    if st["skipping"] and c2.branch(I2.call_value(c2, f, [Ref(Cell("it", r.fields[0]))]), "skip_while"): continue
                    st["skipping"] = False
                    return r
                if c2.branch(I2.call_value(c2, f, [Ref(Cell("it", r.fields[0]))]), "take_while"): return r
                st["done"] = True
                return NONE
        return IterV(nxt)
    if meth in ("flatten", "flat_map"):
        st = {"cur": None}
        def nxt(I2, c2):
            while True:
                if st["cur"] is not None:
                    r = st["cur"].next(I2, c2)
                    if r.variant == "Some": return r
                    st["cur"] = None
                o = it.next(I2, c2)
                if o.variant == "None": return NONE
                x = o.fields[0]
                if meth == "flat_map": x = I2.call_value(c2, args[1], [x])
                xv = I2.force(c2, I2.deref(c2, x)) if not isinstance(x, IterV) else x
                if isinstance(xv, EnumV) and xv.ty in ("Option", "Result"):
                    st["cur"] = make_iter([xv.fields[0]] if xv.variant in ("Some", "Ok") else [])
                else:
                    st["cur"] = get_iter(I2, c2, x)
        return IterV(nxt)
    if meth == "step_by":
        n = args[1]
        if not isinstance(n, int): n = ctx.concretize_int(n, 0, 17, "step", beyond="unsupported")
        if n == 0: raise Panic("assertion failed: step != 0")
        st = {"first": True}
        def nxt(I2, c2):
            if st["first"]: st["first"] = False; return it.next(I2, c2)
            r = NONE
            for _ in range(n):
                r = it.next(I2, c2)
                if r.variant == "None": return NONE
            return r
        return IterV(nxt)
    if meth == "next_back":
        items = drain(I, ctx, it)
        if not items: return NONE
        last = items.pop()
        rest = make_iter(items)
        it.nextfn = rest.nextfn
        return Some(last)
    if meth in ("min_by_key", "max_by_key"):
        items = drain(I, ctx, it)
        if not items: return NONE
        best, bk = items[0], I.call_value(ctx, args[1], [Ref(Cell("k", items[0]))])
        for x in items[1:]:
            k = I.call_value(ctx, args[1], [Ref(Cell("k", x))])
            o = generic_cmp(I, ctx, k, bk, crate).variant
            if (meth == "min_by_key" and o == "Less") or (meth == "max_by_key" and o != "Less"): best, bk = x, k
        return Some(best)
    raise Unsupported(f"Iterator::{meth}")


def drain_result(I, ctx, it, target):
    """collect into Vec<T> or Result<Vec<T>, E> / Option<Vec<T>> (short-circuiting)"""
    head = simple_name(target)
    out = []
    if head in ("Result", "Option"):
        while True:
            r = it.next(I, ctx)
            if r.variant == "None": break
            x = I.force(ctx, r.fields[0])
            if x.variant in ("Err", "None"): return x
            out.append(x.fields[0])
        inner = split_top(target[target.index("<") + 1:target.rindex(">")])[0]
        coll = _finish_collect(I, ctx, out, inner)
        return Ok(coll) if head == "Result" else Some(coll)
    return _finish_collect(I, ctx, drain(I, ctx, it), target)


def _finish_collect(I, ctx, items, target):
    head = simple_name(target)
    if head in ("Vec", "_", "VecDeque", "Box"): return VecV(items)
    if head == "String":
        if all(isinstance(x, str) for x in items): return "".join(items)
        return FmtStr(tuple(items))
    if head in ("BTreeSet", "BTreeMap"):
        from . import collections
        return collections.build(I, ctx, head, items, None)
    if head in ("HashSet", "HashMap"):
        raise Unsupported(f"collect into {head} (iteration order is unspecified)")
    return VecV(items)


# ------------------------------------------------------------------ strings
@M.on(r"^(core::str|std::string::String|alloc::string::String|str)::(len|is_empty|starts_with|ends_with|contains|to_lowercase|to_uppercase|to_string|to_owned|new|from_utf8|from_utf8_lossy|push_str|get|splitn|split|chars|bytes|eq_ignore_ascii_case|is_char_boundary|strip_prefix|strip_suffix|find|rfind|with_capacity|push|pop|insert_str|insert|clear|truncate|remove|from_utf8_unchecked|trim_start_matches|trim_end_matches|trim_start|trim_end|trim|split_once|rsplit_once|rsplit|split_whitespace|lines|repeat|replace|char_indices|to_ascii_lowercase|to_ascii_uppercase|is_ascii|as_mut_str|capacity|reserve|shrink_to_fit|into_boxed_str|concat|join)$")
def m_str(I, ctx, callee, args, crate):
    meth = strip_generics(callee).split("::")[-1]
    if meth in ("new", "with_capacity"): return ""
    s = I.deref(ctx, args[0])
    if meth == "len":
        if isinstance(s, FmtStr): return fmt_len(I, ctx, s)
        return ctx.str_len(s) if is_str(s) else (len(s.items) if isinstance(s, VecV) else bin_len(ctx, s))
    if meth == "is_empty":
        if isinstance(s, str): return s == ""
        if isinstance(s, FmtStr): return fmt_len(I, ctx, s) == 0
        return ctx.str_eq(s, "")
    if meth in ("to_string", "to_owned"): return s
    if meth == "from_utf8":
        if is_str(s): return Ok(s)
        if isinstance(s, VecV) and all(isinstance(b, int) for b in s.items):
            try: return Ok(bytes(s.items).decode())
            except Exception: return Err(Opaque("FromUtf8Error"))
        return Err(Opaque("FromUtf8Error")) if not ctx.branch(ctx.fresh_bool("utf8ok"), "utf8") else Ok(SymStr(ctx.fresh_id(), "utf8"))
    from . import strings
    return strings.str_method(I, ctx, meth, s, args, callee, crate)


def decimal_digits(v, maxd=39):
    """number of decimal digits of a non-negative integer term (u128 needs at most 39)"""
    if isinstance(v, int): return len(str(v))
    r = maxd
    for d in range(maxd - 1, 0, -1): r = z3.If(v < 10 ** d, d, r)
    return r


def fmt_len(I, ctx, f):
    """byte length of a formatted string whose pieces are literals, integers, booleans and abstract strings"""
    n = 0
    for p in f.parts:
        if isinstance(p, tuple) and len(p) == 2 and p[0] == "arg": p = p[1]
        p = I.deref(ctx, p) if isinstance(p, Ref) else p
        if isinstance(p, bool): n = n + (4 if p else 5)
        elif isinstance(p, int): n = n + len(str(p))
        elif isinstance(p, str): n = n + len(p.encode())
        elif is_str(p): n = n + ctx.str_len(p)
        elif isinstance(p, FmtStr): n = n + fmt_len(I, ctx, p)
        elif z3.is_expr(p) and z3.is_bool(p): n = n + z3.If(p, 4, 5)
        elif z3.is_expr(p): n = n + z3.If(p < 0, 1 + decimal_digits(-p), decimal_digits(p))
        elif isinstance(p, Struct) and p.ty == "Coin":                      # Display for Coin: "{amount}{denom}"
            n = n + fmt_len(I, ctx, FmtStr([p.get("amount"), p.get("denom")]))
        else: raise Unsupported(f"length of a formatted {p!r}")
    return n


@M.on(r"^(alloc::fmt::|std::fmt::)?format$|^alloc::fmt::format::format_inner$")
def m_format(I, ctx, callee, args, crate):
    a = args[0]
    if isinstance(a, FmtStr):
        from . import strings
        return strings.simplify_fmt(I, ctx, a)
    return FmtStr(("?", a))


@M.on(r"^(core::fmt::|std::fmt::)?Arguments::(new|new_const|new_v1|new_v1_formatted|from_str)$|Arguments::<'_>::(new|new_const|new_v1)$")
def m_fmt_args(I, ctx, callee, args, crate):
    pieces = I.deref(ctx, args[0])
    fargs = I.deref(ctx, args[1]) if len(args) > 1 else VecV([])
    fa = [I.deref(ctx, x) for x in fargs.items] if isinstance(fargs, VecV) else []
    if isinstance(pieces, VecV) and pieces.items and all(isinstance(b, int) and not isinstance(b, bool) for b in pieces.items):
        return FmtStr(_decode_template(bytes(pieces.items), fa))
    if isinstance(pieces, str): return FmtStr([pieces])
    ps = [I.deref(ctx, p) for p in pieces.items] if isinstance(pieces, VecV) else [pieces]
    parts = []
    for i, p in enumerate(ps):
        parts.append(p)
        if i < len(fa): parts.append(fa[i])
    for x in fa[len(ps):]: parts.append(x)
    return FmtStr(parts)


def _decode_template(t, fa):
    """rustc >= 1.9x `fmt::Arguments` byte template: length-prefixed literal pieces, 0b11xxxxxx placeholders, 0 = end"""
    parts, i, nxt = [], 0, 0
    while i < len(t):
        n = t[i]; i += 1
        if n == 0: break
        if n < 0x80:
            parts.append(t[i:i + n].decode()); i += n
        elif n == 0x80:
            ln = int.from_bytes(t[i:i + 2], "little"); i += 2
            parts.append(t[i:i + ln].decode()); i += ln
        elif n & 0xC0 == 0xC0:
            if n & 0x01: i += 4
            if n & 0x02: i += 2
            if n & 0x04: i += 2
            idx = nxt
            if n & 0x08:
                idx = int.from_bytes(t[i:i + 2], "little"); i += 2
            nxt = idx + 1
            parts.append(fa[idx] if idx < len(fa) else "?")
        else:
            raise Unsupported(f"format template byte {n:#x}")
    return parts


@M.on(r"^core::fmt::rt::Argument::(new_display|new_debug|new_lower_hex|new_upper_hex)$|Argument::<'_>::new_(display|debug)$")
def m_fmt_arg(I, ctx, callee, args, crate):
    v = I.deref(ctx, args[0])
    return ("arg", v)


@M.on(r"^core::str::parse$|^str::parse$")
def m_parse(I, ctx, callee, args, crate):
    g = last_generics(callee)
    ty = simple_name(g[0]) if g else "?"
    s = I.deref(ctx, args[0])
    if ty == "Version":
        from . import cosmwasm
        return cosmwasm.parse_version(I, ctx, s)
    if int_bits(ty) is not None and isinstance(s, FmtStr):
        parts = [p[1] if isinstance(p, tuple) and len(p) == 2 and p[0] == "arg" else p for p in s.parts]
        parts = [p for p in parts if not (isinstance(p, str) and p == "")]
        if len(parts) == 2 and parts[0] == "-" and is_int(parts[1]) and not isinstance(parts[1], bool):
            lo_, hi_ = int_bounds(ty)
            if ty in INTMAX: return Err(Opaque("ParseIntError"))
            return Ok(-parts[1]) if ctx.branch(zand(parts[1] >= 0, -parts[1] >= lo_), "parse-fits") else Err(Opaque("ParseIntError"))
        if len(parts) == 1 and is_int(parts[0]) and not isinstance(parts[0], bool):
            lo_, hi_ = int_bounds(ty)
            return Ok(parts[0]) if ctx.branch(zand(parts[0] >= lo_, parts[0] < hi_), "parse-fits") else Err(Opaque("ParseIntError"))
        raise Unsupported(f"str::parse of a formatted string {s!r}")
    if int_bits(ty) is not None and isinstance(s, str):
        # Rust's FromStr for integers: optional sign ('-' only for signed types), ASCII digits only, no whitespace, must fit
        m_ = re.fullmatch(r"([+-]?)(\d+)", s, re.ASCII)
        if not m_ or (m_.group(1) == "-" and ty in INTMAX): return Err(Opaque("ParseIntError"))
        v_ = int(m_.group(2)) * (-1 if m_.group(1) == "-" else 1)
        lo_, hi_ = int_bounds(ty)
        return Ok(v_) if lo_ <= v_ < hi_ else Err(Opaque("ParseIntError"))
    if ty in INTMAX or ty in ("Uint128",):
        if isinstance(s, str):
            m_ = re.fullmatch(r"\+?(\d+)", s, re.ASCII)
            if not m_ or int(m_.group(1)) >= U128: return Err(Opaque("ParseIntError"))
            return Ok(int(m_.group(1)))
        a = ctx.atom_of(s)
        key = f"parse[{a.idx}]"
        if not ctx.branch(ctx.fresh_bool(key + ".ok", unique=False) if key + ".ok" not in ctx.vars else ctx.vars[key + ".ok"], "parse"):
            return Err(Opaque("ParseIntError"))
        if key not in ctx.vars: ctx.fresh_int(key, 0, INTMAX.get(ty, U128), unique=False)
        return Ok(ctx.vars[key])
    raise Unsupported(f"str::parse::<{ty}>")


# ------------------------------------------------------------------ misc
@M.on(r"^(std|core)::mem::(swap|replace|take|drop|forget)$|^drop$")
def m_mem(I, ctx, callee, args, crate):
    meth = strip_generics(callee).split("::")[-1]
    if meth in ("drop", "forget"): return ()
    a = args[0]
    if meth == "swap":
        b = args[1]
        va, vb = I.deref(ctx, a), I.deref(ctx, b)
        _store(I, ctx, a, vb); _store(I, ctx, b, va); return ()
    old = I.deref(ctx, a)
    if meth == "replace": _store(I, ctx, a, args[1]); return old
    g = last_generics(callee)
    _store(I, ctx, a, default_of(I, ctx, g[0], crate)); return old


@M.on(r"^Box::(new|new_uninit|from)$|^std::boxed::Box::(new|new_uninit)$|^std::boxed::box_assume_init_into_vec_unsafe$|^std::boxed::box_new_uninit|^alloc::boxed::")
def m_box(I, ctx, callee, args, crate):
    if "new_uninit" in callee: return Ref(Cell("box", Opaque("uninit")))
    if "assume_init_into_vec" in callee:
        v = I.deref(ctx, args[0])
        return v
    if strip_generics(callee).split("::")[-1] == "new" and not isinstance(args[0], (Ref, Closure, FnItem)):
        # a heap cell: `*b = x` (compiled to a write through the box's raw pointer) must reach the boxed value
        return Ref(Cell("box", args[0]))
    return args[0]


@M.on(r"^<(std::boxed::|alloc::boxed::)?Box<.*> as Drop>::drop$|^<(std::vec::|alloc::vec::)?Vec<.*> as Drop>::drop$|^<(std::string::)?String as Drop>::drop$")
def m_std_drop(I, ctx, callee, args, crate): return ()


@M.on(r"^must_use$|^core::hint::must_use$|^std::hint::must_use$|^core::hint::black_box$")
def m_must_use(I, ctx, callee, args, crate): return args[0]


@M.on(r"^(core|std)::intrinsics::|^core::panicking::|^std::rt::|^core::panic::|^std::panicking::|^panic$|^core::option::expect_failed|^core::result::unwrap_failed|^core::slice::index::slice_")
def m_panic(I, ctx, callee, args, crate):
    if "write_box_via_move" in callee or "write_via_move" in callee:
        return args[1] if len(args) > 1 else ()
    if "cold_path" in callee or "assume" in callee.split("::")[-1]: return ()
    if "likely" in callee or "unlikely" in callee: return args[0]
    raise Panic(callee)


@M.on(r"^<String as (std::ops::)?(Add|AddAssign)<&str>>::(add|add_assign)$")
def m_string_add(I, ctx, callee, args, crate):
    a, b = I.deref(ctx, args[0]), I.deref(ctx, args[1])
    r = a + b if isinstance(a, str) and isinstance(b, str) else (b if a == "" else (a if b == "" else FmtStr([a, b])))
    if callee.endswith("add_assign"):
        _store(I, ctx, args[0], r); return ()
    return r


@M.on(r"^<&?(u8|u16|u32|u64|u128|usize) as (std::ops::)?(Add|Sub|Mul|Div|Rem)(<.*>)?>::(add|sub|mul|div|rem)$")
def m_prim_arith(I, ctx, callee, args, crate):
    selfty, trait, meth = impl_parts(callee)
    ty = simple_name(selfty)
    a, b = I.deref(ctx, args[0]), I.deref(ctx, args[1])
    hi = INTMAX[ty]
    if meth == "add": r = a + b
    elif meth == "sub": r = a - b
    elif meth == "mul": r = a * b
    elif meth in ("div", "rem"):
        if not ctx.branch(b != 0 if not isinstance(b, int) else b != 0, "div0"): raise Panic("division by zero")
        return (a // b if isinstance(a, int) and isinstance(b, int) else a / b) if meth == "div" else a % b
    ok = zand(r >= 0, r < hi) if not isinstance(r, int) else (0 <= r < hi)
    if ctx.branch(ok, "arith"): return r
    raise Panic(f"{ty} arithmetic overflow")


_INT_T = r"(u8|u16|u32|u64|u128|usize|i8|i16|i32|i64|i128|isize)"


@M.on(r"^(core::num|core::num::<impl " + _INT_T + r">|" + _INT_T + r")::(checked_add|checked_sub|checked_mul|checked_div|checked_rem|checked_pow|checked_neg|checked_shl|checked_shr|checked_abs|"
      r"saturating_sub|saturating_add|saturating_mul|saturating_pow|wrapping_add|wrapping_sub|wrapping_mul|wrapping_neg|wrapping_pow|wrapping_shl|wrapping_shr|wrapping_div|wrapping_rem|"
      r"overflowing_add|overflowing_sub|overflowing_mul|overflowing_neg|pow|min|max|abs_diff|abs|unsigned_abs|wrapping_abs|saturating_abs|saturating_neg|signum|is_positive|is_negative|is_power_of_two|div_euclid|rem_euclid|div_ceil|"
      r"from_be_bytes|to_be_bytes|from_le_bytes|to_le_bytes|leading_zeros|trailing_zeros|count_ones|MAX|MIN)$|^<" + _INT_T + r" as Ord>::(clamp|min|max)$")
def m_prim_checked(I, ctx, callee, args, crate):
    n = strip_generics(callee)
    meth = n.split("::")[-1]
    m = re.search(r"\b" + _INT_T + r"\b", callee)
    if m is None: raise Unsupported(f"integer width of {callee}")
    ty = m.group(1)
    lo, hi = int_bounds(ty)
    bits = int_bits(ty)
    signed = ty in SINT
    a = I.deref(ctx, args[0])
    if meth in ("to_be_bytes", "to_le_bytes", "from_be_bytes", "from_le_bytes"):
        if meth.startswith("to") and isinstance(a, int):
            return VecV(list((a % (hi - lo)).to_bytes(bits // 8, "big" if "be" in meth else "little")))
        return Opaque("bytes-of", (meth, a)) if meth.startswith("to") else _from_bytes(ctx, a, hi, meth)
    b = I.deref(ctx, args[1]) if len(args) > 1 else None
    fits = lambda r: (lo <= r < hi) if isinstance(r, int) else zand(r >= lo, r < hi)
    conc = lambda *xs: all(isinstance(x, int) for x in xs)

    def tdiv(x, y):
        """truncating division / remainder of the mathematical values (Rust semantics), y != 0"""
        if conc(x, y):
            q = abs(x) // abs(y) * (1 if (x >= 0) == (y >= 0) else -1)
            return q, x - q * y
        if not signed: return (x / y, x % y)
        q = z3.If(x >= 0, z3.If(y > 0, x / y, -(x / -y)), z3.If(y > 0, -((-x) / y), (-x) / (-y)))
        return q, x - q * y

    def power(x, e):
        if not isinstance(e, int): e = ctx.concretize_int(e, 0, 33, "pow-exp", beyond="unsupported")
        if isinstance(x, int): return x ** e
        return 1 if e == 0 else _ipow(x, e)

    if meth in ("checked_add", "checked_sub", "checked_mul"):
        r = {"add": lambda: a + b, "sub": lambda: a - b, "mul": lambda: a * b}[meth[8:]]()
        return Some(r) if ctx.branch(fits(r), "c" + meth[8:]) else NONE
    if meth in ("checked_div", "checked_rem", "wrapping_div", "wrapping_rem", "div_euclid", "rem_euclid"):
        if not ctx.branch(b != 0, "div0"):
            if meth.startswith("checked"): return NONE
            raise Panic("division by zero")
        if signed and meth.startswith("checked") and not ctx.branch(znot(zand(a == lo, b == -1)), "divovf"): return NONE
        if meth.endswith("_euclid"):
            if conc(a, b):
                r = a % abs(b); q = (a - r) // b
            else:
                q, r = a / b, a % b          # SMT-LIB div / mod are the euclidean pair (0 <= mod < |b|)
            if "div" in meth and not ctx.branch(fits(q), "euclid-ovf"): raise Panic("attempt to divide with overflow")
        else:
            q, r = tdiv(a, b)
        if "div" in meth: return Some(q) if meth.startswith("checked") else (wrap_int(q, ty) if meth.startswith("wrapping") else q)
        return Some(r) if meth.startswith("checked") else r
    if meth == "div_ceil":
        if not ctx.branch(b != 0, "div0"): raise Panic("division by zero")
        q, r = tdiv(a, b)
        return q + 1 if ctx.branch(r > 0, "ceil") else q
    if meth in ("checked_pow", "saturating_pow", "wrapping_pow", "pow"):
        r = power(a, b)
        if meth == "wrapping_pow": return wrap_int(r, ty)
        if ctx.branch(fits(r), "pow"): return Some(r) if meth == "checked_pow" else r
        if meth == "checked_pow": return NONE
        if meth == "saturating_pow": return (hi - 1) if (not signed or ctx.branch(r > 0, "pow-sign")) else lo
        raise Panic("attempt to multiply with overflow (pow)")
    if meth in ("checked_neg", "wrapping_neg", "overflowing_neg"):
        r = -a
        if meth == "wrapping_neg": return wrap_int(r, ty)
        if meth == "overflowing_neg": return (wrap_int(r, ty), znot(fits(r)))
        return Some(r) if ctx.branch(fits(r), "cneg") else NONE
    if meth in ("checked_shl", "checked_shr", "wrapping_shl", "wrapping_shr"):
        if meth.startswith("wrapping"): b = b % bits
        elif not ctx.branch(b < bits, "shift-range"): return NONE
        if not isinstance(b, int): b = ctx.concretize_int(b, 0, bits, "shift")
        r = wrap_int(a * 2 ** b, ty) if meth.endswith("shl") else (a >> b if isinstance(a, int) else a / (2 ** b))
        return Some(r) if meth.startswith("checked") else r
    if meth in ("saturating_sub", "saturating_add", "saturating_mul"):
        r = {"add": lambda: a + b, "sub": lambda: a - b, "mul": lambda: a * b}[meth[11:]]()
        if ctx.branch(fits(r), "s" + meth[11:]): return r
        return (hi - 1) if ctx.branch(r >= hi, "sat-hi") else lo
    if meth in ("wrapping_add", "wrapping_sub", "wrapping_mul"):
        r = {"add": lambda: a + b, "sub": lambda: a - b, "mul": lambda: a * b}[meth[9:]]()
        return wrap_int(r, ty)
    if meth in ("overflowing_add", "overflowing_sub", "overflowing_mul"):
        r = {"add": lambda: a + b, "sub": lambda: a - b, "mul": lambda: a * b}[meth[12:]]()
        if isinstance(r, int): return (wrap_int(r, ty), not fits(r))
        return (wrap_int(r, ty), znot(fits(r)))
    if meth == "min": return a if ctx.branch(a <= b, "min") else b
    if meth == "max": return b if ctx.branch(a <= b, "max") else a
    if meth == "clamp":
        c = I.deref(ctx, args[2])
        if not ctx.branch(b <= c, "clamp-order"): raise Panic("assertion failed: min <= max")
        if ctx.branch(a < b, "clamp-lo"): return b
        return c if ctx.branch(a > c, "clamp-hi") else a
    if meth == "abs_diff": return a - b if ctx.branch(a >= b, "absdiff") else b - a
    if meth == "saturating_neg": return -a if ctx.branch(fits(-a), "sneg") else hi - 1
    if meth in ("abs", "checked_abs", "unsigned_abs", "wrapping_abs", "saturating_abs"):
        r = a if ctx.branch(a >= 0, "abs") else -a
        if meth == "unsigned_abs": return r
        if meth == "wrapping_abs": return wrap_int(r, ty)
        if meth == "saturating_abs": return r if ctx.branch(fits(r), "sabs") else hi - 1
        if ctx.branch(fits(r), "abs-fit"): return Some(r) if meth == "checked_abs" else r
        if meth == "checked_abs": return NONE
        raise Panic("attempt to negate with overflow")
    if meth == "signum": return 0 if ctx.branch(a == 0, "sig0") else (1 if ctx.branch(a > 0, "sig+") else -1)
    if meth == "is_positive": return a > 0
    if meth == "is_negative": return a < 0
    if meth == "MAX": return hi - 1
    if meth == "MIN": return lo
    if meth in ("is_power_of_two", "leading_zeros", "trailing_zeros", "count_ones") and isinstance(a, int):
        if meth == "is_power_of_two": return a > 0 and a & (a - 1) == 0
        if meth == "count_ones": return bin(a % (hi - lo)).count("1")
        if meth == "leading_zeros": return bits - (a % (hi - lo)).bit_length()
        return bits if a == 0 else ((a & -a).bit_length() - 1)
    raise Unsupported(f"integer method {meth}")


def _ipow(x, e):
    r = x
    for _ in range(e - 1): r = r * x
    return r


def _from_bytes(ctx, a, hi, meth):
    if isinstance(a, Opaque) and a.tag == "bytes-of": return a.data[1]
    if isinstance(a, VecV) and all(isinstance(x, int) for x in a.items):
        return int.from_bytes(bytes(a.items), "big" if "be" in meth else "little")
    raise Unsupported("from_bytes on symbolic bytes")
