"""Concretisation of symbolic values under a solver model and type-directed serde-JSON / raw-storage encoding.

Used to turn a counterexample into a native replay request and to compare the interpreter's predicted post-state with the
post-state of the real contract (replay gate, differential validation of the encoder).
"""
import base64, json, re
import z3
from .values import *
from .symval import parse_ty
from .program import simple_name
from .models.std import FmtStr


class Concretizer:
    def __init__(self, I, ctx, model, addr_pool=None):
        self.I, self.ctx, self.model = I, ctx, model
        self.addr_pool = addr_pool          # callable: n -> list of n valid mock addresses (any order)
        self.strings = {}                   # root atom idx -> concrete string
        self._assign_strings()

    # ---------------------------------------------------------- scalars
    def ev(self, t):
        if isinstance(t, (int, bool)): return t
        if z3.is_expr(t):
            v = self.model.eval(t, model_completion=True)
            if z3.is_int_value(v): return v.as_long()
            if z3.is_true(v): return True
            if z3.is_false(v): return False
            v = z3.simplify(v)
            if z3.is_int_value(v): return v.as_long()
            raise Unsupported(f"cannot evaluate {t} in model: {v}")
        raise Unsupported(f"ev({t!r})")

    # ---------------------------------------------------------- strings
    def _assign_strings(self):
        ctx = self.ctx
        roots = [a for a in ctx.atoms if ctx.find(a) is a]
        need = []
        for a in roots:
            if a.text is not None:
                self.strings[a.idx] = a.text; continue
            if a.shape is not None: continue          # derived from its parts on demand
            if a.version is not None:
                if self.ev(a.version[0]):
                    self.strings[a.idx] = ".".join(str(self.ev(x)) for x in a.version[1].fields)
                else:
                    self.strings[a.idx] = f"not-a-version-{a.idx}"
                continue
            va = self.ev(a.valid_addr) if a.valid_addr is not None else None
            need.append((self.ev(a.rank), a, va))
        need.sort(key=lambda x: x[0])
        addrs = [x for x in need if x[2] is not False and x[1].len is None]
        pool = sorted(self.addr_pool(len(addrs))) if (addrs and self.addr_pool) else [f"addr{i:04d}" for i in range(len(addrs))]
        for (r, a, va), s in zip(addrs, pool): self.strings[a.idx] = s
        k = 0
        for r, a, va in need:
            if a.idx in self.strings: continue
            if a.len is not None:
                n = self.ev(a.len)
                base = f"s{k}"
                self.strings[a.idx] = (base + "x" * n)[:n] if n >= len(base) else "xyzwvu"[k % 6] * n
            else:
                self.strings[a.idx] = f"invalid:{k}"
            k += 1
        # classes decided to differ only in ASCII case: the second becomes a case variant of the first
        for x, y in getattr(ctx, "case_variants", []):
            rx, ry = ctx.find(x), ctx.find(y)
            if rx is ry or rx.idx not in self.strings: continue
            if ry.text is not None:
                if rx.text is None: rx, ry = ry, rx
                else: continue
            base = self.strings[rx.idx]
            self.strings[ry.idx] = base.upper() if base.upper() != base else base.lower()

    def string(self, s):
        if isinstance(s, str): return s
        if isinstance(s, FmtStr):
            out = []
            for p in s.parts:
                if isinstance(p, tuple) and len(p) == 2 and p[0] == "arg": p = p[1]
                try:
                    out.append(str(p) if isinstance(p, int) and not isinstance(p, bool) else self.string(p))
                except Unsupported:
                    out.append(repr(p))
            return "".join(out)
        if is_int(s): return str(self.ev(s))
        a = self.ctx.atom_of(s)
        if a.shape is not None and a.text is None:
            if a.shape[0] == "pre": return a.shape[1] + self.string(a.shape[2])
            if a.shape[0] == "split3": return a.shape[1].join(self.string(p) for p in a.shape[2:])
        if a.idx not in self.strings:
            if a.text is not None: self.strings[a.idx] = a.text
            else: self.strings[a.idx] = f"str{a.idx}"      # never inspected on the path: any content will do
        return self.strings[a.idx]

    # ---------------------------------------------------------- values (forcing lazies according to the model is not
    # possible after the fact: lazy values that were never forced on the path are given a default shape)
    def value(self, v):
        I, ctx = self.I, self.ctx
        while isinstance(v, Ref): v = I.get_path(ctx, v.cell.v, v.path)
        if isinstance(v, SymEnum):
            r = ctx.forced.get(v.id)
            if r is None: return self.default_enum(v)
            return self.value(r)
        if isinstance(v, SymVec):
            r = ctx.forced.get(v.id)
            return self.value(r) if r is not None else VecV([])
        if isinstance(v, Struct): return Struct(v.ty, [self.value(f) for f in v.fields], v.names)
        if isinstance(v, EnumV): return EnumV(v.ty, v.variant, [self.value(f) for f in v.fields], v.names)
        if isinstance(v, tuple): return tuple(self.value(f) for f in v)
        if isinstance(v, VecV): return VecV([self.value(f) for f in v.items])
        if isinstance(v, JsonBin): return JsonBin(self.value(v.value), v.ty)
        if isinstance(v, (str, StrAtom, SymStr, FmtStr)): return self.string(v)
        if isinstance(v, SymBin):
            # bytes that the path parsed successfully are the JSON of the value it got; otherwise unparsable filler
            for (bid, ty), (ok, val) in ctx.bin_parse.items():
                if bid == v.id and val is not None and self.ev(ok):
                    return JsonBin(self.value(val), ty)
            return JsonBin(Struct("Opaque", [f"bin{v.id}"], ["opaque"]), None)
        if z3.is_expr(v): return self.ev(v)
        return v

    def default_enum(self, v):
        """a never-inspected enum: pick the first allowed variant with default payload (its content is irrelevant to the path)"""
        from . import symval
        if v.ty == "Option": return NONE
        td = v.tdef
        names = [x.name for x in td.variants]
        allowed = v.variants if v.variants is not None else names
        if v.disc is not None:
            # the solver model fixes the variant even though the path never inspected it
            k = self.ev(v.disc)
            var = td.variants[k]
            vals = [self.default_of_type(f.ty, v.targs, td.crate) for f in var.fields]
            return EnumV(td.name, var.name, vals, [f.name for f in var.fields] if var.kind == "struct" else None)
        # prefer a unit variant
        for var in td.variants:
            if var.name in allowed and not var.fields: return EnumV(td.name, var.name, [], [] if var.kind == "struct" else None)
        var = [x for x in td.variants if x.name in allowed][0]
        vals = [self.default_of_type(f.ty, v.targs, td.crate) for f in var.fields]
        return EnumV(td.name, var.name, vals, [f.name for f in var.fields] if var.kind == "struct" else None)

    def default_of_type(self, ty, tenv, crate):
        from .symval import _subst
        ty = _subst(ty, tenv) if tenv else ty
        head, args = parse_ty(ty)
        sn = head.split("::")[-1]
        if sn in INTMAX or sn in ("Uint128", "Uint64", "Decimal", "Timestamp"): return 0
        if sn == "bool": return False
        if sn in ("String", "str"): return "s"
        if sn == "Addr": return "addr-default"
        if sn == "Binary": return VecV([])
        if sn == "Vec": return VecV([])
        if sn == "Option": return NONE
        if sn == "Empty": return Struct("Empty", [], [])
        if sn == "(tuple)": return tuple(self.default_of_type(a, tenv, crate) for a in args)
        td = self.I.prog.types.lookup(head, crate)
        if td is None: raise Unsupported(f"default of {ty}")
        env2 = dict(zip(td.generics, args))
        if td.kind == "enum":
            var = td.variants[0]
            for x in td.variants:
                if not x.fields: var = x; break
            return EnumV(td.name, var.name, [self.default_of_type(f.ty, env2, td.crate) for f in var.fields],
                         [f.name for f in var.fields] if var.kind == "struct" else None)
        vals = [self.default_of_type(f.ty, env2, td.crate) for f in td.fields]
        if td.tuple_struct: return vals[0] if len(vals) == 1 else Struct(td.name, vals)
        return Struct(td.name, vals, [f.name for f in td.fields])


# ================================================================== JSON encoding (serde conventions of cosmwasm)
def snake(name):
    s = re.sub(r"(?<=[a-z0-9])([A-Z])", r"_\1", name)
    s = re.sub(r"([A-Z]+)([A-Z][a-z])", r"\1_\2", s)
    return s.lower()


def _rename(attrs, default):
    for a in attrs:
        m = re.search(r'serde\(.*rename\s*=\s*"([^"]+)"', a)
        if m: return m.group(1)
    return default


def _skip_if_none(attrs):
    return any("skip_serializing_if" in a for a in attrs)


def to_json(prog, v, ty, crate, tenv=None):
    """concrete value tree -> python JSON object, directed by the Rust type `ty`"""
    from .symval import _subst
    if tenv: ty = _subst(ty, tenv)
    head, args = parse_ty(ty)
    sn = head.split("::")[-1]
    if sn in ("u8", "u16", "u32", "u64", "usize", "i32", "i64"): return int(v)
    if sn in ("u128",): return int(v)
    if sn in ("Uint128", "Uint64", "Uint256"): return str(int(v))
    if sn == "Timestamp": return str(int(v))
    if sn == "Decimal": return dec_str(int(v))
    if sn == "bool": return bool(v)
    if sn in ("String", "str", "Addr"): return v if isinstance(v, str) else str(v)
    if sn == "Binary" or sn == "HexBinary":
        return bin_json(prog, v, crate)
    if sn == "Empty": return {}
    if sn == "Option":
        if v.variant == "None": return None
        return to_json(prog, v.fields[0], args[0], crate)
    if sn == "Vec" or sn == "[array]": return [to_json(prog, x, args[0], crate) for x in v.items]
    if sn == "(tuple)": return [to_json(prog, x, a, crate) for x, a in zip(v, args)]
    if sn == "Box": return to_json(prog, v, args[0], crate)
    td = prog.types.lookup(head, crate)
    if td is None: raise Unsupported(f"to_json: unknown type {ty}")
    env2 = dict(zip(td.generics, args))
    for g in td.generics: env2.setdefault(g, "Empty")
    ra = td.serde_rename_all()
    if td.kind == "struct":
        if td.tuple_struct:
            if len(td.fields) == 1:
                inner = v.fields[0] if isinstance(v, Struct) and v.ty == td.name else v
                return to_json(prog, inner, td.fields[0].ty, td.crate, env2)
            return [to_json(prog, x, f.ty, td.crate, env2) for x, f in zip(v.fields, td.fields)]
        out = {}
        for f in td.fields:
            x = v.get(f.name) if v.names else v.fields[td.fields.index(f)]
            if _skip_if_none(f.attrs) and isinstance(x, EnumV) and x.variant == "None": continue
            key = _rename(f.attrs, snake(f.name) if ra == "snake_case" else f.name)
            out[key] = to_json(prog, x, f.ty, td.crate, env2)
        return out
    # enum, externally tagged
    var = [x for x in td.variants if x.name == v.variant][0]
    tag = _rename(var.attrs, snake(var.name) if ra == "snake_case" else (var.name.lower() if ra == "lowercase" else var.name))
    if var.kind == "unit": return tag
    if var.kind == "tuple":
        if len(var.fields) == 1: return {tag: to_json(prog, v.fields[0], var.fields[0].ty, td.crate, env2)}
        return {tag: [to_json(prog, x, f.ty, td.crate, env2) for x, f in zip(v.fields, var.fields)]}
    out = {}
    for i, f in enumerate(var.fields):
        x = v.fields[i]
        if _skip_if_none(f.attrs) and isinstance(x, EnumV) and x.variant == "None": continue
        out[_rename(f.attrs, snake(f.name) if ra == "snake_case" else f.name)] = to_json(prog, x, f.ty, td.crate, env2)
    return {tag: out}


def dec_str(atomics):
    whole, frac = divmod(atomics, 10 ** 18)
    if frac == 0: return str(whole)
    return f"{whole}.{frac:018d}".rstrip("0")


def bin_json(prog, v, crate):
    """Binary -> base64 string"""
    return base64.b64encode(bin_bytes(prog, v, crate)).decode()


def bin_bytes(prog, v, crate):
    if isinstance(v, JsonBin):
        if isinstance(v.value, Struct) and v.value.ty == "Opaque":
            return json.dumps({"opaque": v.value.fields[0]}, separators=(",", ":")).encode()
        ty = v.ty or getattr(v.value, "ty", None)
        if ty is None: raise Unsupported(f"untyped json binary {v!r}")
        return json.dumps(to_json(prog, v.value, ty, crate), separators=(",", ":")).encode()
    if isinstance(v, VecV): return bytes(int(x) for x in v.items)
    if isinstance(v, str): return v.encode()
    raise Unsupported(f"binary value {v!r}")


# ================================================================== raw storage keys (cw-storage-plus layout)
def _len2(b): return len(b).to_bytes(2, "big")


def key_comp_bytes(c, kind=None):
    if isinstance(c, str): return c.encode()
    if isinstance(c, int):
        w = {"u8": 1, "u16": 2, "u32": 4, "u64": 8, "u128": 16}.get(kind or "u64", 8)
        return c.to_bytes(w, "big")
    if isinstance(c, VecV): return bytes(c.items)
    raise Unsupported(f"key component {c!r}")


def map_key(ns, comps, kinds=None):
    kinds = kinds or [None] * len(comps)
    bs = [key_comp_bytes(c, k) for c, k in zip(comps, kinds)]
    out = _len2(ns.encode()) + ns.encode()
    for b in bs[:-1]: out += _len2(b) + b
    return out + bs[-1]


def item_key(ns):
    return ns.encode()


def storage_kv(prog, conc, storage, crate):
    """symbolic storage -> {key bytes: parsed JSON value} under the concretizer's model"""
    from .ctx import ItemStore, MapStore
    out = {}
    for ns, st in storage.items():
        if isinstance(st, ItemStore):
            if conc.ev(st.present) if not isinstance(st.present, bool) else st.present:
                if st.ty is None: raise Unsupported(f"item {ns} has no declared type")
                out[item_key(ns)] = to_json(prog, conc.value(st.value), st.ty, crate)
        else:
            for k, p, v in st.slots:
                if not (conc.ev(p) if not isinstance(p, bool) else p): continue
                if st.val_ty is None: raise Unsupported(f"map {ns} has no declared value type")
                comps = [conc.string(c) if isinstance(c, (str, StrAtom, SymStr)) else conc.ev(c) for c in k]
                out[map_key(ns, comps, st.key_ty)] = to_json(prog, conc.value(v), st.val_ty, crate)
    return out
