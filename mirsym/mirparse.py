"""Parser for `rustc -Zunpretty=mir` text (nightly 1.97) into a small structured IR.

Only the textual MIR that rustc emits for /repo's current tree is read; nothing is hand-translated.
Parsed files are cached (pickle) next to the dump, keyed by the dump's content hash.
"""
import hashlib, os, pickle, re
from dataclasses import dataclass, field

PARSER_VERSION = 14


@dataclass
class Func:
    name: str            # name as printed (trimmed path), generics stripped
    kind: str            # fn | const | static | promoted | constval
    params: list         # [(local, type)]
    ret: str
    locals: dict         # local -> type
    blocks: dict         # bbN -> ([stmt...], terminator)
    crate: str = ""
    src: str = ""        # for constval: literal text
    impl_at: str = ""    # "file:line:col" when the name contains <impl at ...>
    debug: dict = field(default_factory=dict)   # debug name -> place text (for messages only)


class ParseError(Exception):
    pass


def split_top(s, sep=","):
    """split on sep at nesting depth 0 (parens, brackets, braces; angle brackets heuristically; string literals)"""
    out, depth, cur = [], 0, []
    i, n = 0, len(s)
    instr = False
    while i < n:
        c = s[i]
        if instr:
            cur.append(c)
            if c == "\\" and i + 1 < n:
                cur.append(s[i + 1]); i += 1
            elif c == '"':
                instr = False
        elif c == '"':
            instr = True; cur.append(c)
        elif c == "'" and i + 2 < n and (s[i + 2] == "'" or (s[i + 1] == "\\" and "'" in s[i + 2:i + 6])):
            # char literal
            j = s.index("'", i + 2 if s[i + 1] != "\\" else i + 3)
            cur.append(s[i:j + 1]); i = j
        elif c in "([{":
            depth += 1; cur.append(c)
        elif c in ")]}":
            depth -= 1; cur.append(c)
        elif c == "<":
            # `<` is a generic bracket unless surrounded by spaces (comparison never appears in MIR operands)
            depth += 1; cur.append(c)
        elif c == ">" and (i == 0 or s[i - 1] not in "-="):
            depth -= 1; cur.append(c)
        elif c == sep and depth == 0:
            out.append("".join(cur).strip()); cur = []
        else:
            cur.append(c)
        i += 1
    t = "".join(cur).strip()
    if t:
        out.append(t)
    return out


def strip_generics(name):
    """remove every `::<...>` turbofish group (balanced) from a path"""
    out, i, n = [], 0, len(name)
    while i < n:
        if name.startswith("::<", i) and not name.startswith("::<impl at ", i):
            d, j = 0, i + 2
            while j < n:
                if name[j] == "<": d += 1
                elif name[j] == ">" and name[j - 1] not in "-=":
                    d -= 1
                    if d == 0: break
                j += 1
            i = j + 1
        else:
            out.append(name[i]); i += 1
    return "".join(out)


# ---------------------------------------------------------------- places / operands
_LOCAL = re.compile(r"^_\d+$")


def parse_place(s):
    s = s.strip()
    if _LOCAL.match(s): return (s, ())
    if s.startswith("(*") and s.endswith(")") and _balanced(s[1:-1]):
        l, p = parse_place(s[2:-1]); return (l, p + (("*",),))
    if s.startswith("*"):
        l, p = parse_place(s[1:]); return (l, p + (("*",),))
    # index / constant index / subslice suffix
    if s.endswith("]"):
        k = _match_open(s, len(s) - 1, "[", "]")
        base, idx = s[:k], s[k + 1:-1]
        if base:
            l, p = parse_place(base)
            if _LOCAL.match(idx): return (l, p + (("i", idx),))
            m = re.match(r"^(-?\d+) of (\d+)$", idx)
            if m:
                v = int(m.group(1))
                return (l, p + (("c", abs(v), int(m.group(2)), v < 0 or idx.startswith("-")),))
            m = re.match(r"^(\d+):(-?\d*)$", idx)
            if m:
                to = m.group(2)
                return (l, p + (("s", int(m.group(1)), (abs(int(to)) if to else 0), to.startswith("-")),))
            raise ParseError(f"index {s}")
    if s.startswith("(") and s.endswith(")"):
        inner = s[1:-1]
        m = re.match(r"^(.*) as ([A-Za-z_][A-Za-z_0-9]*)$", inner)
        if m and _balanced(m.group(1)):
            l, p = parse_place(m.group(1)); return (l, p + (("d", m.group(2)),))
        m = re.match(r"^(.*) as variant#(\d+)$", inner)
        if m and _balanced(m.group(1)):
            l, p = parse_place(m.group(1)); return (l, p + (("dn", int(m.group(2))),))
        # field: "<base>.N: type"  -- find the first ".N: " whose base is balanced
        for m in re.finditer(r"\.(\d+): ", inner):
            base = inner[:m.start()]
            if _balanced(base):
                try:
                    l, p = parse_place(base)
                except ParseError:
                    continue
                return (l, p + (("f", int(m.group(1))),))
    raise ParseError(f"place {s}")


def _balanced(s):
    d = 0
    for i, c in enumerate(s):
        if c in "([{": d += 1
        elif c in ")]}":
            d -= 1
            if d < 0: return False
    return d == 0


def _match_open(s, close_idx, o, c):
    d = 0
    for i in range(close_idx, -1, -1):
        if s[i] == c: d += 1
        elif s[i] == o:
            d -= 1
            if d == 0: return i
    raise ParseError(f"unbalanced {s}")


def parse_operand(s):
    s = s.strip()
    if s.startswith("no_retag "): s = s[9:].strip()
    if s.startswith("copy "): return ("copy", parse_place(s[5:]))
    if s.startswith("move "): return ("move", parse_place(s[5:]))
    if s.startswith("const "): return ("const", s[6:].strip())
    return ("const", s)       # bare fn item / path used as a value


BINOPS = {"Add", "Sub", "Mul", "Div", "Rem", "Eq", "Ne", "Lt", "Le", "Gt", "Ge", "BitAnd", "BitOr", "BitXor", "Shl", "Shr",
          "AddWithOverflow", "SubWithOverflow", "MulWithOverflow", "AddUnchecked", "SubUnchecked", "MulUnchecked",
          "ShlUnchecked", "ShrUnchecked", "Offset", "Cmp"}
UNOPS = {"Not", "Neg", "PtrMetadata"}


def parse_rvalue(s):
    s = s.strip()
    if s.startswith("&"):
        m = re.match(r"^&(mut |raw const \(fake\) |raw mut \(fake\) |raw const |raw mut |fake shallow |fake )?(.*)$", s)
        kind = (m.group(1) or "").strip()
        return ("ref", parse_place(m.group(2)), kind)
    m = re.match(r"^([A-Za-z]+)\((.*)\)$", s)
    if m and m.group(1) in BINOPS:
        a, b = split_top(m.group(2))
        return ("binop", m.group(1), parse_operand(a), parse_operand(b))
    if m and m.group(1) in UNOPS:
        return ("unop", m.group(1), parse_operand(m.group(2)))
    if m and m.group(1) == "discriminant":
        return ("discr", parse_place(m.group(2)))
    if m and m.group(1) == "Len":
        return ("len", parse_place(m.group(2)))
    if m and m.group(1) in ("CopyForDeref",):
        return ("use", ("copy", parse_place(m.group(2))))
    if m and m.group(1) in ("ShallowInitBox",):
        a = split_top(m.group(2))
        return ("use", parse_operand(a[0]))
    if m and m.group(1) in ("SizeOf", "AlignOf", "UbChecks", "ContractChecks", "OverflowChecks", "NullOp"):
        return ("nullop", m.group(1), m.group(2))
    m = re.match(r"^([\w:<>, ]+?) as (.*) \((PointerCoercion\(ReifyFnPointer.*)\)$", s)
    if m and not s.startswith(("copy ", "move ", "const ")):
        return ("cast", ("const", m.group(1).strip()), m.group(2), m.group(3))          # fn item -> fn pointer
    if s.startswith(("copy ", "move ", "const ", "no_retag ")):
        # maybe a cast:  "<operand> as <ty> (<Kind>)"
        m = re.match(r"^(.*) as (.*) \(([A-Za-z]+)(\(.*\))?(, [A-Za-z]+)?\)$", s)
        if m and _balanced(m.group(1)) and not m.group(1).startswith("const \""):
            return ("cast", parse_operand(m.group(1)), m.group(2), m.group(3) + (m.group(4) or ""))
        return ("use", parse_operand(s))
    if s.startswith("{closure@") or s.startswith("{coroutine@"):
        k = s.index("}") + 1
        loc = s[:k]
        rest = s[k:].strip()
        caps = []
        if rest.startswith("{"):
            for a in split_top(rest[1:-1].strip()):
                n, o = a.split(": ", 1)
                caps.append((n.strip(), parse_operand(o)))
        return ("closure", loc, caps)
    if s.startswith("(") and s.endswith(")"):
        inner = s[1:-1].strip()
        items = split_top(inner) if inner else []
        return ("tuple", [parse_operand(a) for a in items])
    if s.startswith("[") and s.endswith("]"):
        inner = s[1:-1].strip()
        m = re.match(r"^(.*); (.*)$", inner)
        if m and _balanced(m.group(1)) and not split_top(inner)[1:]:
            return ("repeat", parse_operand(m.group(1)), m.group(2))
        return ("array", [parse_operand(a) for a in split_top(inner)] if inner else [])
    # struct literal  Path { a: op, ... }
    if s.endswith("}"):
        k = _match_open(s, len(s) - 1, "{", "}")
        path = s[:k].strip()
        inner = s[k + 1:-1].strip()
        fields = []
        for a in split_top(inner) if inner else []:
            n, o = a.split(": ", 1)
            fields.append((n.strip(), parse_operand(o)))
        return ("struct", strip_generics(path), fields)
    # tuple struct / enum variant with payload  Path(op, ...)
    if s.endswith(")"):
        k = _match_open(s, len(s) - 1, "(", ")")
        path = s[:k].strip()
        inner = s[k + 1:-1].strip()
        return ("ctor", strip_generics(path), [parse_operand(a) for a in split_top(inner)] if inner else [])
    # unit variant / unit struct
    if re.match(r"^[A-Za-z_<]", s):
        return ("ctor", strip_generics(s), [])
    raise ParseError(f"rvalue {s}")


_NOP = ("StorageLive", "StorageDead", "nop", "FakeRead", "AscribeUserType", "PlaceMention", "ConstEvalCounter", "Retag",
        "Coverage", "Deinit", "BackwardIncompatibleDropHint", "assume(")


def parse_stmt(st):
    if st.startswith(_NOP): return None
    if st.startswith("discriminant("):
        m = re.match(r"^discriminant\((.*)\) = (\d+)$", st)
        return ("setdiscr", parse_place(m.group(1)), int(m.group(2)))
    if st.startswith("copy_nonoverlapping"): raise ParseError(st)
    k = _find_assign(st)
    lhs, rhs = st[:k], st[k + 3:]
    return ("assign", parse_place(lhs), parse_rvalue(rhs))


def _find_assign(st):
    d = 0
    for i, c in enumerate(st):
        if c in "([{": d += 1
        elif c in ")]}": d -= 1
        elif d == 0 and st.startswith(" = ", i): return i
    raise ParseError(f"no assignment in {st}")


def parse_terminator(t):
    if t == "return": return ("return",)
    if t.startswith("goto -> "): return ("goto", t[8:])
    if t == "unreachable": return ("unreachable",)
    if t.startswith("resume") or t.startswith("abort") or t.startswith("terminate"): return ("resume",)
    if t.startswith("switchInt("):
        k = t.rindex(") -> [")
        op = parse_operand(t[len("switchInt("):k])
        targets, otherwise = [], None
        for a in split_top(t[k + 6:-1]):
            v, b = a.split(": ")
            if v == "otherwise": otherwise = b
            else: targets.append((int(v), b))
        return ("switch", op, targets, otherwise)
    if t.startswith("drop("):
        m = re.match(r"^drop\((.*)\) -> \[return: (bb\d+)", t)
        return ("drop", parse_place(m.group(1)), m.group(2))
    if t.startswith("assert("):
        m = re.match(r"^assert\((!?)(.*?), (\".*)\) -> \[success: (bb\d+)", t)
        return ("assert", bool(m.group(1)), parse_operand(m.group(2)), m.group(3)[:80], m.group(4))
    if t.startswith("falseEdge") or t.startswith("falseUnwind"):
        m = re.search(r"\[real: (bb\d+)", t)
        return ("goto", m.group(1))
    # call:   [dest = ] callee(args) -> [return: bbN, unwind ...]   |   ... -> unwind continue  (diverging)
    m = re.match(r"^(.*) -> (\[return: (bb\d+).*\]|unwind.*)$", t)
    if not m: raise ParseError(f"terminator {t}")
    body, ret = m.group(1), m.group(3)
    dest = None
    try:
        k = _find_assign(body)
        dest, call = parse_place(body[:k]), body[k + 3:]
    except ParseError:
        call = body
    if not call.endswith(")"): raise ParseError(f"call {t}")
    k = _match_open(call, len(call) - 1, "(", ")")
    callee, argstr = call[:k].strip(), call[k + 1:-1]
    args = [parse_operand(a) for a in split_top(argstr)] if argstr.strip() else []
    if callee.startswith(("move ", "copy ")):
        return ("call", dest, ("indirect", parse_operand(callee)), args, ret)
    return ("call", dest, ("direct", callee), args, ret)


# ---------------------------------------------------------------- functions / files
_HDR = re.compile(r"^(fn|const|static|static mut) (.*)$")


def _parse_header(kind, rest):
    rest = rest.rstrip()
    assert rest.endswith("{")
    rest = rest[:-1].rstrip()
    if kind == "fn":
        depth, k = 0, None
        for idx, c in enumerate(rest):
            if c == "<": depth += 1
            elif c == ">" and rest[idx - 1] not in "-=": depth -= 1
            elif c == "(" and depth == 0:
                k = idx; break
        name = rest[:k]
        e = None
        d = 0
        for idx in range(k, len(rest)):
            if rest[idx] in "([{": d += 1
            elif rest[idx] in ")]}":
                d -= 1
                if d == 0:
                    e = idx; break
        args = rest[k + 1:e]
        ret = rest[e + 1:].strip()
        ret = ret[2:].strip() if ret.startswith("->") else "()"
        params = []
        for a in split_top(args):
            loc, ty = a.split(":", 1)
            params.append((loc.strip(), ty.strip()))
        return name, params, ret
    body = rest.rstrip("=").rstrip()
    d = 0
    for i, c in enumerate(body):
        if c == "<": d += 1
        elif c == ">" and body[i - 1] not in "-=": d -= 1
        elif d == 0 and body.startswith(": ", i):
            return body[:i], [], body[i + 2:]
    name, ty = body.split(": ", 1)
    return name, [], ty


def _parse_func(kind, hdr, body):
    name, params, ret = _parse_header(kind, hdr)
    locs = dict(params)
    blocks, cur, stmts = {}, None, None
    dbg = {}
    for ln in body:
        s = ln.strip()
        if not s: continue
        if cur is None:
            m = re.match(r"^let (mut )?(_\d+): (.*);$", s)
            if m:
                locs[m.group(2)] = m.group(3); continue
            m = re.match(r"^debug (\S+) => (.*);$", s)
            if m:
                dbg[m.group(1)] = m.group(2); continue
        m = re.match(r"^(bb\d+)( \(cleanup\))?: \{$", s)
        if m:
            cur = m.group(1); stmts = []
            blocks[cur] = (stmts, bool(m.group(2)))
            continue
        if cur is None: continue
        if s == "}":
            cur = None; continue
        if s.endswith(";"): s = s[:-1]
        stmts.append(s)
    out = {}
    for b, (st, cleanup) in blocks.items():
        if not st or cleanup: continue
        try:
            ps = [x for x in (parse_stmt(q) for q in st[:-1]) if x is not None]
            out[b] = (ps, parse_terminator(st[-1]))
        except (ParseError, ValueError, AttributeError, AssertionError) as e:
            out[b] = ([], ("unparsed", f"{e}"))
    impl_at = ""
    m = re.search(r"<impl at ([^>]*?):(\d+):(\d+): \d+:\d+>", name)
    if m: impl_at = f"{m.group(1)}:{m.group(2)}:{m.group(3)}"
    kind2 = "promoted" if "::promoted[" in name else kind
    return Func(strip_generics(name), kind2, params, ret, locs, out, impl_at=impl_at, debug=dbg)


class _M:
    def __init__(self, g): self.g = g
    def group(self, i): return self.g[i - 1]


def _split_const_line(ln):
    """`const NAME: TYPE = const VALUE;` where NAME may contain `<impl at file:l:c: l:c>` (split at the first depth-0 `: `)"""
    if not (ln.startswith("const ") and ln.endswith(";") and " = const " in ln): return None
    body = ln[6:-1]
    d = 0
    for i, c in enumerate(body):
        if c == "<": d += 1
        elif c == ">" and body[i - 1] not in "-=": d -= 1
        elif c == ":" and d == 0 and body[i + 1:i + 2] == " ":
            name, rest = body[:i], body[i + 2:]
            k = rest.find(" = const ")
            if k < 0: return None
            return _M((name, rest[:k], rest[k + 9:]))
    return None


def parse_text(txt, crate=""):
    lines = txt.split("\n")
    funcs = {}
    i, n = 0, len(lines)
    while i < n:
        ln = lines[i]
        m = _HDR.match(ln)
        if m and ln.rstrip().endswith("{"):
            j = i + 1
            while j < n and lines[j] != "}": j += 1
            try:
                f = _parse_func(m.group(1).split()[0], m.group(2), lines[i + 1:j])
                f.crate = crate
                # duplicates: enum variant constructors are emitted twice (keep the first); functions generated by one derive
                # attribute share their `<impl at ..>` span (thiserror's `#[from]` impls) and differ in their parameter types:
                # those are all kept, under `name#k` (the method index of Program sees every value)
                prev = funcs.get(f.name)
                if prev is None: funcs[f.name] = f
                elif [t for _, t in prev.params] != [t for _, t in f.params]:
                    k = 2
                    while f"{f.name}#{k}" in funcs: k += 1
                    funcs[f"{f.name}#{k}"] = f
            except Exception as e:            # header we cannot parse: skip (reported by survey tool)
                funcs.setdefault("!unparsed:" + m.group(2)[:120], Func("!unparsed", "bad", [], "", {}, {}, crate=crate, src=str(e)))
            i = j + 1
        else:
            m1 = _split_const_line(ln)
            if m1:
                nm = strip_generics(m1.group(1))
                mi = re.search(r"<impl at (.*?):(\d+):(\d+): \d+:\d+>", m1.group(1))
                funcs.setdefault(nm, Func(nm, "constval", [], m1.group(2), {}, {}, crate=crate, src=m1.group(3),
                                          impl_at=(f"{mi.group(1)}:{mi.group(2)}:{mi.group(3)}" if mi else "")))
            i += 1
    return funcs


def parse_file(path, crate=""):
    raw = open(path, "rb").read()
    h = hashlib.sha256(raw).hexdigest()[:20]
    cache = path + ".pickle"
    if os.path.exists(cache):
        try:
            with open(cache, "rb") as f:
                d = pickle.load(f)
            if d.get("v") == PARSER_VERSION and d.get("h") == h: return d["funcs"]
        except Exception:
            pass
    funcs = parse_text(raw.decode(), crate)
    tmp = cache + f".tmp{os.getpid()}"
    with open(tmp, "wb") as f:
        pickle.dump({"v": PARSER_VERSION, "h": h, "funcs": funcs}, f)
    os.replace(tmp, cache)
    return funcs
