import sys, glob, re, collections, time
sys.path.insert(0, '/verif')
from mirsym import mirparse
t0=time.time()
bad=collections.Counter(); callees=collections.Counter(); nf=0
for p in sorted(glob.glob('/verif/.work/mir/*.mir')):
    fs = mirparse.parse_file(p, p.split('/')[-1][:-4])
    for n,f in fs.items():
        if n.startswith('!unparsed'): bad['HDR '+n+' '+f.src]+=1; continue
        # skip derive-generated serde/schemars bodies
        if re.search(r"(^|::)_::|serde|schemars|JsonSchema|Serialize|Deserialize|::fmt$|response_schemas", n): continue
        nf+=1
        for b,(st,term) in f.blocks.items():
            if term[0]=='unparsed': bad[term[1][:160]]+=1
            if term[0]=='call' and term[2][0]=='direct':
                callees[re.sub(r"\{closure@[^}]*\}","{closure}",mirparse.strip_generics(term[2][1]))]+=1
print('funcs',nf,'time',time.time()-t0)
print('UNPARSED', sum(bad.values()))
for k,v in bad.most_common(40): print('  ',v,k)
if len(sys.argv)>1:
    for k,v in sorted(callees.items()): print(v,k)
print('distinct callees', len(callees))
