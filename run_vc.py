import sys, time, importlib
sys.path.insert(0, '/verif')
from mirsym.program import Program
from mirsym.models import load_all
from mirsym.explore import run_vc
spec = importlib.import_module("specs." + sys.argv[1])
M = load_all()
progs = {}
sel = sys.argv[2] if len(sys.argv) > 2 else None
for vc in spec.vcs('quick'):
    if sel and sel not in vc.name: continue
    t0 = time.time()
    if vc.crate not in progs: progs[vc.crate] = Program(vc.crate)
    prog = progs[vc.crate]
    r = run_vc(prog, M, vc, path_limit=int(sys.argv[3]) if len(sys.argv) > 3 else 20000)
    print(f"{vc.name}: paths={r.paths} infeasible={r.infeasible} outcomes={r.outcomes} queries={r.queries} viol={len(r.violations)} unsup={len(r.unsupported)} wit={r.witness} twin={r.twin_failed} solver={r.solver_calls}/{r.solver_time:.1f}s wall={r.wall:.1f}s")
    for u in r.unsupported[:3]: print("   UNSUPPORTED", u[0], u[2][-6:] if u[2] else '')
    seen=set()
    for v in r.violations:
        if v.ob_name in seen: continue
        seen.add(v.ob_name)
        print("   VIOLATION", v.ob_name, [l for l in v.labels if l][-10:], {k: x for k, x in list(v.values().items())[:30]})
